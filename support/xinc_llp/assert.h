/* stub for the LLP64 cross parse (configuration K5): assert is compiled out */
#define assert(x) ((void)0)
