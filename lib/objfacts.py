"""Facts from the assembled static .S objects (engine E3): symbols, disassembly, raw bytes."""
import os
import re

from core import AnalysisBroken


class ObjFacts:
    def __init__(self, d, arch):
        self.dir = d
        self.arch = arch
        self.symbols = {}
        self.sym_type = {}
        with open(os.path.join(d, 'nm.txt')) as fh:
            for ln in fh:
                p = ln.split()
                if len(p) == 3:
                    self.symbols[p[2]] = int(p[0], 16)
                    self.sym_type[p[2]] = p[1]
        with open(os.path.join(d, 'text.bin'), 'rb') as fh:
            self.text = fh.read()
        self.insns = []   # (offset, mnemonic, operands, rawline)
        with open(os.path.join(d, 'dis.txt')) as fh:
            for ln in fh:
                m = re.match(r'^\s*([0-9a-f]+):\s+(\S+)\s*(.*)$', ln)
                if m:
                    self.insns.append((int(m.group(1), 16), m.group(2), m.group(3).strip(), ln.rstrip()))
        self.relocs = []
        with open(os.path.join(d, 'reloc.txt')) as fh:
            for ln in fh:
                p = ln.split()
                if len(p) >= 3 and re.match(r'^[0-9a-f]{8,16}$', p[0]):
                    self.relocs.append((int(p[0], 16), p[1], p[2]))

    def sym(self, name):
        for cand in (name, '_' + name):
            if cand in self.symbols:
                return self.symbols[cand]
        raise AnalysisBroken('symbol %s not found in assembled %s object' % (name, self.arch))

    def has(self, name):
        return name in self.symbols or ('_' + name) in self.symbols

    def size(self, a, b):
        return self.sym(b) - self.sym(a)

    def between(self, a, b):
        lo = self.sym(a) if isinstance(a, str) else a
        hi = self.sym(b) if isinstance(b, str) else b
        return [i for i in self.insns if lo <= i[0] < hi]

    def bytes(self, off, n):
        return self.text[off:off + n]

    def u64(self, off):
        return int.from_bytes(self.text[off:off + 8], 'little')

    def u32(self, off):
        return int.from_bytes(self.text[off:off + 4], 'little')
