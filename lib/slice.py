"""Concrete evaluation of the *address-arithmetic slice* of a function: integer and byte-pointer locals, loops, conditions, calls
that a rule gives a meaning to (hooks); everything else (vector values, hashing, opaque calls) is skipped.  Used for finite
enumerations of a size / index / range parameter where the property is about which blocks are touched.

A leaf whose value the hooks do not know is *unknown*.  An unknown leaf in a condition forks the evaluation: the whole run is
repeated with that leaf fixed to 0 and to 1 (`choices`), so a rule sees every combination ("world").  Nothing of RandomX is
executed: the interpreter walks the resolved AST."""
import re

import astq
from astq import show, strip_all, val
from core import AnalysisBroken


class NeedChoice(Exception):
    def __init__(self, key):
        self.key = key


class Slice:
    PTR16 = ('rx_vec_i128', '__m128i', 'rx_vec_f128', '__m128d', 'uint8x16_t')

    def __init__(self, F, hooks, choices=None, limit=200000, what='slice'):
        self.F = F
        self.hooks = hooks
        self.choices = dict(choices or {})
        self.limit = limit
        self.steps = 0
        self.what = what
        self.next_buf = 0x70000000
        self.depth = 0

    # ------------------------------------------------------------------ types
    def scale(self, ty):
        t = (ty or '').replace('const ', '').replace(' const', '').strip()
        if not t.endswith('*'):
            return None
        base = t[:-1].strip()
        m = re.search(r'__vector_size__\((\d+) \* sizeof\((long long|double|int|float|char)\)\)', base)
        if m:
            return int(m.group(1)) * {'long long': 8, 'double': 8, 'int': 4, 'float': 4, 'char': 1}[m.group(2)]
        if any(base == b or base.startswith(b) for b in self.PTR16):
            return 16
        if base in ('char', 'uint8_t', 'unsigned char', 'void', 'signed char'):
            return 1
        if base in ('uint64_t', 'unsigned long', 'long', 'int64_t', 'double', 'unsigned long long', 'long long'):
            return 8
        if base in ('uint32_t', 'unsigned int', 'int', 'int32_t', 'float'):
            return 4
        if base in ('uint16_t', 'unsigned short', 'short'):
            return 2
        sz = self.hooks.sizeof(base) if hasattr(self.hooks, 'sizeof') else None
        if sz:
            return sz
        raise AnalysisBroken('%s: pointer arithmetic on %s' % (self.what, ty))

    # ------------------------------------------------------------------ expressions
    def ev(self, n, env):
        v = val(n)
        if v is not None and n['k'] not in ('Assign', 'CAssign', 'Un', 'Call'):
            return v
        k = n['k']
        if k in ('Cast', 'Paren'):
            return self.ev(n['e'], env)
        if k == 'Null' and 'ty' in n:
            return 0          # nullptr literal (statement-level Null nodes carry no type)
        if k == 'Ref':
            if n.get('id') in env:
                return env[n['id']]
            h = self.hooks.leaf(n, env, self)
            return h
        if k in ('Mem', 'Idx'):
            return self.hooks.leaf(n, env, self)
        if k == 'Bin':
            op = n['op']
            if op == ',':
                self.effects(n['l'], env)
                return self.ev(n['r'], env)
            if op in ('&&', '||'):
                a = self.truth(n['l'], env)
                if op == '&&' and not a:
                    return 0
                if op == '||' and a:
                    return 1
                return int(self.truth(n['r'], env))
            a, b = self.ev(n['l'], env), self.ev(n['r'], env)
            if a is None or b is None:
                return None
            if op in ('+', '-'):
                lt, rt = n['l'].get('ty') or '', n['r'].get('ty') or ''
                sl = self.scale(lt) if lt.replace('const', '').strip().endswith('*') else None
                sr = self.scale(rt) if rt.replace('const', '').strip().endswith('*') else None
                if sl and not sr:
                    b *= sl
                elif sr and not sl:
                    a *= sr
                elif sl and sr and op == '-':
                    return (a - b) // sl
                return a + b if op == '+' else a - b
            if op == '*':
                return a * b
            if op == '/':
                return int(a / b) if b else None
            if op == '%':
                return a - b * int(a / b) if b else None
            if op in ('<', '<=', '>', '>=', '==', '!='):
                return int({'<': a < b, '<=': a <= b, '>': a > b, '>=': a >= b, '==': a == b, '!=': a != b}[op])
            if op in ('<<', '>>') and (b < 0 or b > 4096):
                return None
            if op in ('&', '|', '^', '<<', '>>'):
                return {'&': lambda: a & b, '|': lambda: a | b, '^': lambda: a ^ b, '<<': lambda: a << b, '>>': lambda: a >> b}[op]()
            return None
        if k == 'Un':
            op = n.get('op', '')
            if op == '!':
                return int(not self.truth(n['e'], env))
            if op == '-':
                a = self.ev(n['e'], env)
                return None if a is None else -a
            if op == '~':
                a = self.ev(n['e'], env)
                return None if a is None else ~a
            if op == '&':
                return self.hooks.leaf(n, env, self)
            if op == '*':
                return self.hooks.leaf(n, env, self)
            return None
        if k == 'Cond':
            c = self.truth(n['c'], env)
            return self.ev(n['t'] if c else n['f'], env)
        if k == 'Call':
            return self.call(n, env)
        return None

    def truth(self, n, env):
        v = self.ev(n, env)
        if v is not None:
            return bool(v)
        key = show(strip_all(n))
        if key in self.choices:
            return bool(self.choices[key])
        raise NeedChoice(key)

    # ------------------------------------------------------------------ calls
    def call(self, n, env):
        args = [self.ev(a, env) for a in n.get('a', [])]
        r = self.hooks.call(n, args, env, self)
        if isinstance(r, tuple) and r[0] == 'inline':
            f = r[1]
            if self.depth > 4:
                raise AnalysisBroken('%s: inlining too deep at %s' % (self.what, f['q']))
            e2 = {}
            for prm, a in zip(f['params'], args):
                if a is not None:
                    e2[prm['id']] = a
            self.depth += 1
            try:
                ret = self.run(f['body'], e2)
            finally:
                self.depth -= 1
            return ret[1] if isinstance(ret, tuple) else None
        if isinstance(r, tuple) and r[0] == 'value':
            return r[1]
        return None

    # ------------------------------------------------------------------ effects of expression statements
    def effects(self, n, env):
        k = n['k']
        if k in ('Assign', 'CAssign'):
            l = strip_all(n['l'])
            if l['k'] == 'Ref' and l.get('id') is not None:
                if k == 'Assign':
                    v = self.ev(n['r'], env)
                else:
                    a, b = env.get(l['id']), self.ev(n['r'], env)
                    op = n['op'][:-1]
                    if a is None or b is None:
                        v = None
                    else:
                        lt = l.get('ty') or ''
                        sc = self.scale(lt) if lt.replace('const', '').strip().endswith('*') else 1
                        v = {'+': lambda: a + b * sc, '-': lambda: a - b * sc, '*': lambda: a * b, '&': lambda: a & b, '|': lambda: a | b,
                             '<<': lambda: a << b if 0 <= b <= 4096 else None, '>>': lambda: a >> b if 0 <= b <= 4096 else None}.get(op, lambda: None)()
                        if op == '/' and b:
                            v = int(a / b)
                        if op == '%' and b:
                            v = a - b * int(a / b)
                if v is None:
                    env.pop(l['id'], None)
                else:
                    env[l['id']] = v
            else:
                self.effects(n['r'], env)
                self.hooks.store(n, env, self)
            return
        if k == 'Un' and ('++' in n.get('op', '') or '--' in n.get('op', '')):
            l = strip_all(n['e'])
            if l['k'] == 'Ref' and l.get('id') in env:
                lt = l.get('ty') or ''
                sc = self.scale(lt) if lt.replace('const', '').strip().endswith('*') else 1
                env[l['id']] += sc if '++' in n['op'] else -sc
            return
        if k == 'Call':
            self.call(n, env)
            return
        if k == 'Bin' and n['op'] == ',':
            self.effects(n['l'], env)
            self.effects(n['r'], env)
            return
        for key in ('e', 'l', 'r', 'c', 't', 'f'):
            if astq.is_node(n.get(key)):
                self.effects(n[key], env)

    # ------------------------------------------------------------------ statements
    def run(self, s, env):
        """returns None, or ('ret', value)"""
        if s is None:
            return None
        self.steps += 1
        if self.steps > self.limit:
            raise AnalysisBroken('%s: step limit (a loop of the slice does not terminate for these parameters?)' % self.what)
        k = s['k']
        if k == 'Compound':
            for x in s['s']:
                r = self.run(x, env)
                if r is not None:
                    return r
            return None
        if k == 'Decl':
            for d in s['d']:
                ty = d.get('ty') or ''
                if d.get('arrlen') is not None or re.search(r'\[\d*\]$', ty):
                    env[d['id']] = self.next_buf
                    self.next_buf += 1 << 20
                    continue
                if 'init' in d:
                    if any(t in ty for t in ('__m128', 'rx_vec', '__m256', 'neon_vector')):
                        self.effects(d['init'], env)
                        continue
                    v = self.ev(d['init'], env)
                    if v is not None:
                        env[d['id']] = v
                    else:
                        env.pop(d['id'], None)
            return None
        if k == 'If':
            c = self.truth(s['c'], env)
            return self.run(s['t'] if c else s.get('e'), env)
        if k == 'While':
            while self.truth(s['c'], env):
                r = self.run(s['b'], env)
                if r is not None and r[0] == 'ret':
                    return r
                if r is not None and r[0] == 'break':
                    break
            return None
        if k == 'Do':
            while True:
                r = self.run(s['b'], env)
                if r is not None and r[0] == 'ret':
                    return r
                if r is not None and r[0] == 'break':
                    break
                if not self.truth(s['c'], env):
                    break
            return None
        if k == 'For':
            if astq.is_node(s.get('init')):
                if s['init']['k'] == 'Decl':
                    self.run(s['init'], env)
                else:
                    self.effects(s['init'], env)
            while True:
                if astq.is_node(s.get('c')) and not self.truth(s['c'], env):
                    break
                r = self.run(s['b'], env)
                if r is not None and r[0] == 'ret':
                    return r
                if r is not None and r[0] == 'break':
                    break
                if astq.is_node(s.get('inc')):
                    self.effects(s['inc'], env)
            return None
        if k == 'Return':
            return ('ret', self.ev(s['e'], env) if astq.is_node(s.get('e')) else None)
        if k == 'Break':
            return ('break', None)
        if k == 'Continue':
            return ('cont', None) if False else None
        if k == 'Null':
            return None
        if k in ('Switch', 'ForRange', 'Goto', 'Label', 'Try'):
            raise AnalysisBroken('%s: unsupported control statement %s' % (self.what, k))
        self.effects(s, env)
        return None


def worlds(make_and_run, max_worlds=64):
    """runs make_and_run(choices) for every combination of the unknown boolean leaves it meets; yields (choices, result)"""
    todo = [{}]
    out = []
    while todo:
        ch = todo.pop()
        try:
            out.append((ch, make_and_run(ch)))
        except NeedChoice as e:
            if len(todo) + len(out) > max_worlds:
                raise AnalysisBroken('slice: too many unknown conditions (%s ...)' % e.key)
            for v in (0, 1):
                c2 = dict(ch)
                c2[e.key] = v
                todo.append(c2)
    return out
