"""Feature extraction for T-sib (sibling agreement): per instruction handler of a JIT back-end and per
decoder block of the interpreter, the last-writer marking as a function of normalised guard atoms,
whether the handler distinguishes src == dst, which scratchpad-mask constants it can choose, and
whether the path emits code.  Works on the x86, A64 and RV64 emitter styles (resolved AST facts)."""
import re

import astq
import decoder
from astq import calls, loc, show, showv, strip_all, val, walk
from core import AnalysisBroken

MARK_TABLES = ('registerUsage', 'reg_changed_offset', 'last_modified')
RELEVANT = ('dst != src', 'isZeroOrPowerOf2(imm32)')


def instr_param(f):
    for p in f['params']:
        if 'randomx::Instruction' in p['ty']:
            return p['id']
    return None


class Handler:
    """Facts of one emitter function h_X of a JIT back-end."""

    def __init__(self, F, f, helper_marks=None, ip=None):
        self.F = F
        self.f = f
        self.ip = ip or instr_param(f)
        if self.ip is None:
            raise AnalysisBroken('%s: no Instruction parameter' % f['q'])
        self.locals = {}
        self.paths = []
        for p in decoder.paths(f['body']):
            self.paths.append(self._facts(p))

    # normalised description of an expression in terms of the instruction word
    def desc(self, n, depth=0):
        n = strip_all(n)
        if n['k'] == 'Mem':
            fld = decoder.mem_of(n, self.ip)
            if fld in ('dst', 'src', 'mod', 'opcode'):
                return fld
        if n['k'] == 'Ref' and n.get('id') in self.locals and depth < 6:
            return self.locals[n['id']]
        if n['k'] == 'Call' and n.get('cls') == 'randomx::Instruction':
            return {'getImm32': 'imm32', 'getModCond': 'mod.cond', 'getModMem': 'mod.mem', 'getModShift': 'mod.shift'}.get(n['name'], n['name'] + '()')
        if n['k'] == 'Idx':
            # table lookup of a register number: IntRegMap[instr.src] is still "the src register"
            b = show(n['b'])
            if re.search(r'(RegMap|regMap)', b):
                return self.desc(n['i'], depth + 1)
        if n['k'] == 'Bin' and n['op'] == '%' and val(n['r']) is not None:
            d = self.desc(n['l'], depth + 1)
            if d in ('dst', 'src'):
                return d
        if n['k'] == 'Bin' and n['op'] == '+' and val(n['r']) is not None:
            d = self.desc(n['l'], depth + 1)
            if d in ('dst', 'src'):
                return d
        if n['k'] == 'Call' and n.get('name') in ('regR', 'regF', 'regE') and n.get('a'):
            return self.desc(n['a'][0], depth + 1)
        if 'v' in n:
            return str(n['v'])
        return None

    def atom(self, cond):
        c = strip_all(cond)
        neg = False
        while c['k'] == 'Un' and c['op'] == '!':
            neg = not neg
            c = strip_all(c['e'])
        if c['k'] == 'Bin' and c['op'] in ('!=', '=='):
            a, b = self.desc(c['l']), self.desc(c['r'])
            if {a, b} == {'dst', 'src'}:
                return 'dst != src', (c['op'] == '!=') != neg
            if a is not None and b is not None:
                x, y = sorted([a, b])
                return '%s != %s' % (x, y), (c['op'] == '!=') != neg
        if c['k'] == 'Bin' and c['op'] in ('<', '>=', '>', '<='):
            a, b = self.desc(c['l']), self.desc(c['r'])
            if a is not None and b is not None:
                return '%s %s %s' % (a, c['op'], b), not neg
        if c['k'] == 'Call' and c.get('name') == 'isZeroOrPowerOf2':
            a = self.desc(c['a'][0])
            return 'isZeroOrPowerOf2(%s)' % (a or show(c['a'][0])), not neg
        if c['k'] in ('Bin', 'Call') and 'RANDOMX_FLAG_V2' in show(c) or (val(c) is None and re.search(r'\b64\b', showv(c)) and 'lags' in show(c)):
            return 'flags & V2', not neg
        return show(c), not neg

    def _facts(self, p):
        marks = set()
        mark_all = None
        emits = 0
        helper_calls = []
        mods = {}
        for e in p.events:
            if isinstance(e, tuple):
                kind, node = e
                if kind == 'loop':
                    for x in walk(node['b']):
                        if x['k'] == 'Assign':
                            l = strip_all(x['l'])
                            if l['k'] == 'Idx' and show(l['b']).split('.')[-1].split('>')[-1] in MARK_TABLES:
                                c = strip_all(node['c']) if node.get('c') else None
                                if c is not None and c['k'] == 'Bin' and c['op'] == '<' and val(c['r']) is not None:
                                    mark_all = val(c['r'])
                    for c in calls(node['b']):
                        if re.match(r'^emit', c.get('name', '')):
                            emits += 1
                continue
            if e['k'] == 'Decl':
                for d in e['d']:
                    if 'init' in d:
                        ds = self.desc(d['init'])
                        if ds is not None:
                            self.locals[d['id']] = ds
            for x in walk(e):
                if x['k'] == 'Assign':
                    l = strip_all(x['l'])
                    if l['k'] == 'Idx' and show(l['b']).split('.')[-1].split('>')[-1] in MARK_TABLES:
                        marks.add(self.desc(l['i']) or ('?' + show(l['i'])))
                if x['k'] == 'CAssign' and x['op'] == '%=':
                    fld = decoder.mem_of(x['l'], self.ip)
                    if fld in ('dst', 'src') and val(x['r']) is not None:
                        mods[fld] = val(x['r'])
                if x['k'] == 'Call':
                    nm = x.get('name', '')
                    if re.match(r'^(emit|memcpy)', nm):
                        emits += 1
                    if x.get('fn') and self.F.has_func(x['fn']) and nm not in ('getImm32', 'getModCond', 'getModMem', 'getModShift', 'isZeroOrPowerOf2', 'emit', 'emit32', 'emit64', 'emitByte', 'rvi', 'rvc'):
                        helper_calls.append(x)
                        if re.match(r'^(load|store|gen)', nm):
                            emits += 1
        conds = []
        for c, taken in p.conds:
            s, pol = self.atom(c)
            conds.append((s, taken == pol))
        return dict(conds=conds, marks=marks, mark_all=mark_all, emits=emits, helpers=helper_calls, mods=mods, returned=p.returned)


def canon(paths, relevant=RELEVANT):
    """Canonical marking function: {frozenset of (atom, value) over relevant atoms: (marks, mark_all)} with
    irrelevant atoms dropped and atoms on which the result does not depend merged away."""
    table = {}
    for p in paths:
        key = frozenset((a, v) for a, v in p['conds'] if a in relevant)
        valx = (frozenset(p['marks']), p['mark_all'] or 0)
        if key in table and table[key] != valx:
            # marking depends on an atom outside the relevant set: keep it visible
            key = frozenset(p['conds'])
        table[key] = valx
    changed = True
    while changed:
        changed = False
        for key in list(table):
            for (a, v) in key:
                other = frozenset(key - {(a, v)} | {(a, not v)})
                if other in table and table[other] == table[key]:
                    merged = frozenset(key - {(a, v)})
                    valx = table[key]
                    del table[key]
                    del table[other]
                    table[merged] = valx
                    changed = True
                    break
            if changed:
                break
    return {tuple(sorted(k)): (tuple(sorted(v[0])), v[1]) for k, v in table.items()}


def interp_canon(I):
    """{instruction name: canonical marking} from the interpreter decoder facts."""
    out = {}
    for b in I.blocks:
        ps = []
        for p in b['paths']:
            conds = []
            for s, t in p['conds']:
                if s.startswith('isZeroOrPowerOf2'):
                    s = 'isZeroOrPowerOf2(imm32)'
                conds.append((s, t))
            marks = set()
            for m in p['marks']:
                marks.add(m['idx'][0] if isinstance(m['idx'], tuple) and m['idx'][0] in ('dst', 'src') else str(m['idx']))
            ps.append(dict(conds=conds, marks=marks, mark_all=p['mark_all']))
        out[b['name']] = canon(ps)
    return out


def interp_split(I):
    """{instruction: True if the decoder distinguishes src == dst}"""
    return {b['name']: any(s == 'dst != src' for p in b['paths'] for s, _ in p['conds']) for b in I.blocks}


def engine_table(F, qname):
    """[handler function name] x 256 from a static table of (member-)function pointers."""
    g = F.glob(qname)
    init = g.get('init')
    if not init or init['k'] != 'InitList':
        raise AnalysisBroken('%s has no initialiser list' % qname)
    out = []
    for e in init['e']:
        x = strip_all(e)
        if x['k'] == 'Un' and x['op'] == '&':
            x = strip_all(x['e'])
        if x['k'] == 'Ref':
            out.append(x.get('q') or x.get('n'))
        else:
            out.append(show(x))
    return out, g


def discover_mark_table(g):
    """name of the array that a switch-based generator uses as its last-writer table: the array that is assigned `table[<register>] = <position>` in the
    largest number of places (found by use, so that renaming it does not blind the rules)"""
    from astq import walk as _walk
    cnt = {}
    for x in _walk(g['body']):
        if x['k'] == 'Assign':
            l = strip_all(x['l'])
            if l['k'] == 'Idx' and strip_all(l['b'])['k'] in ('Ref', 'Mem'):
                nm = show(l['b']).split('.')[-1].split('>')[-1]
                cnt[nm] = cnt.get(nm, 0) + 1
    if not cnt:
        return None
    best = max(cnt, key=cnt.get)
    return best if cnt[best] >= 8 else None


def case_handlers(F, g, enum_by_val):
    """Handlers of a generator that translates instructions in a `switch` inside a loop (the RV64 vector back-end): one pseudo
    function per case label = the declarations of the loop body that precede the switch followed by the statements of the case."""
    from astq import walk as _walk
    loops = [x for x in _walk(g['body']) if x['k'] == 'For' and any(y['k'] == 'Switch' for y in _walk(x['b']))]
    if len(loops) != 1:
        raise AnalysisBroken('%s: expected one instruction loop with a switch, found %d' % (g['q'], len(loops)))
    body = loops[0]['b']
    stmts = body['s'] if body['k'] == 'Compound' else [body]
    pre = []
    sw = None
    for s_ in stmts:
        if s_['k'] == 'Switch':
            sw = s_
            break
        pre.append(s_)
    if sw is None:
        raise AnalysisBroken('%s: switch is not a direct child of the loop body' % g['q'])
    ip = None
    for s_ in pre:
        if s_['k'] == 'Decl':
            for d in s_['d']:
                if 'randomx::Instruction' in (d.get('ty') or '') or d.get('ty') == 'Instruction':
                    ip = d['id']
    if ip is None:
        raise AnalysisBroken('%s: local Instruction not found before the switch' % g['q'])
    cases = {}
    cur = []
    for s_ in (sw['b']['s'] if sw['b']['k'] == 'Compound' else [sw['b']]):
        x = s_
        labs = []
        while x['k'] in ('Case', 'Default'):
            labs.append('default' if x['k'] == 'Default' else enum_by_val.get(val(x['lhs']), str(val(x['lhs']))))
            x = x['sub']
        if labs:
            lst = []
            for l in labs:
                cases[l] = (lst, s_.get('ln'))
            cur = [lst]
        if x['k'] == 'Break':
            cur = []
            continue
        for lst in cur:
            lst.append(x)
    mt = discover_mark_table(g)
    global MARK_TABLES
    if mt and mt not in MARK_TABLES:
        MARK_TABLES = MARK_TABLES + (mt,)
    hs = {}
    for name, (lst, ln) in cases.items():
        if name == 'default':
            continue
        f = dict(q='%s::case %s' % (g['q'], name), name='case ' + name, file=g['file'], line=ln or g['line'], params=[], body=dict(k='Compound', s=pre + lst, ln=ln), _unit=g.get('_unit'))
        hs[name] = Handler(F, f, ip=ip)
    return hs, loops[0], sw, ip
