"""Pointer-derivation analysis over the IR facts (DESIGN.md appendix B.3).

Which memory writes have an address derived from a shared randomx_cache / randomx_dataset object?
Sources are typed: any SSA value or parameter whose LLVM type is randomx_cache* / randomx_dataset*.
Derivation propagates through GEP, casts, phi/select, pointer arithmetic, pointer-typed loads from a
derived address, argument passing, returned values and (field-based) through pointer fields that a
derived pointer was stored into.  Flow-insensitive inside a function (post-SROA SSA), context-insensitive
between functions, restricted to the functions reachable from one entry group."""
import re

import irq
from core import AnalysisBroken
from rules.common import mangled_param_is_const

SRC_RX = re.compile(r'^%struct\.randomx_(cache|dataset)(\.\d+)?\*$')


def src_tag(ty):
    m = SRC_RX.match(ty)
    return m.group(1) if m else None
PASS = ('bitcast', 'getelementptr', 'addrspacecast', 'inttoptr', 'ptrtoint', 'freeze', 'phi', 'select', 'add', 'sub', 'and', 'or')


def is_ptr(ty):
    return ty.endswith('*')


class Taint:
    def __init__(self, M, entries, edge_filter=None):
        self.M = M
        self.entries = [e for e in entries if e in M.fn]
        if len(self.entries) != len(entries):
            raise AnalysisBroken('taint: entry functions missing from the IR: %s' % sorted(set(entries) - set(self.entries)))
        self.reach = M.reachable(self.entries, edge_filter=edge_filter)
        self.val = {}          # (fn, key) -> set of tags ; key = inst id (int) or ('a', i) or ('ret',)
        self.fields = {}       # (struct type, indices tuple) -> set of tags
        self.callsites = {}    # callee -> [(caller fn name, inst)]
        for n in self.reach:
            f = M.fn[n]
            if not f['defined']:
                continue
            for i, names, kind in M.callees(f):
                for c in names:
                    self.callsites.setdefault(c, []).append((n, i))
        self._solve()

    def tags_of(self, fn, op):
        out = set()
        if 'a' in op:
            out |= self.val.get((fn, ('a', op['a'])), set())
        elif 'v' in op:
            out |= self.val.get((fn, op['v']), set())
        elif 'ce' in op:
            for o in op['ops'][:1]:
                out |= self.tags_of(fn, o)
        return out

    def _field_key(self, f, addr_op):
        """(source element type, constant indices) of the GEP that forms an address, looking through casts."""
        insts = self.M.inst[f['name']]
        o = addr_op
        for _ in range(6):
            if 'v' not in o:
                return None
            i = insts.get(o['v'])
            if i is None:
                return None
            if i['op'] == 'bitcast':
                o = i['ops'][0]
                continue
            if i['op'] == 'getelementptr':
                idx = []
                for x in i['ops'][1:]:
                    idx.append(x['c'] if 'c' in x else '*')
                return (i['sty'], tuple(idx))
            return None
        return None

    def _add(self, key, tags):
        cur = self.val.setdefault(key, set())
        if not tags <= cur:
            cur |= tags
            return True
        return False

    def _solve(self):
        M = self.M
        fns = [M.fn[n] for n in self.reach if M.fn[n]['defined']]
        # seeds: typed parameters and typed values
        for f in fns:
            for idx, a in enumerate(f['args']):
                if src_tag(a['ty']):
                    self._add((f['name'], ('a', idx)), {src_tag(a['ty'])})
            for i in M.insts(f):
                if src_tag(i['ty']):
                    self._add((f['name'], i['i']), {src_tag(i['ty'])})
        changed = True
        rounds = 0
        while changed:
            changed = False
            rounds += 1
            if rounds > 60:
                raise AnalysisBroken('taint: no fixpoint after 60 rounds')
            for f in fns:
                fn = f['name']
                for i in M.insts(f):
                    op = i['op']
                    if op in PASS:
                        t = set()
                        ops = i['ops'][1:] if op == 'select' else i['ops'][:1] if op in ('bitcast', 'getelementptr', 'addrspacecast', 'inttoptr', 'ptrtoint', 'freeze') else i['ops']
                        for o in ops:
                            t |= self.tags_of(fn, o)
                        if t and self._add((fn, i['i']), t):
                            changed = True
                    elif op == 'load':
                        if is_ptr(i['ty']) or i['ty'] == 'i64':
                            t = set()
                            if is_ptr(i['ty']):
                                t |= self.tags_of(fn, i['ops'][0])
                                fk = self._field_key(f, i['ops'][0])
                                if fk and fk in self.fields:
                                    t |= self.fields[fk]
                            if t and self._add((fn, i['i']), t):
                                changed = True
                    elif op == 'store':
                        t = self.tags_of(fn, i['ops'][0])
                        if t and is_ptr(self._op_type(f, i['ops'][0])):
                            fk = self._field_key(f, i['ops'][1])
                            if fk:
                                cur = self.fields.setdefault(fk, set())
                                if not t <= cur:
                                    cur |= t
                                    changed = True
                    elif op in ('call', 'invoke'):
                        names, kind = M.resolve_call(f, i)
                        for c in names:
                            cf = M.fn.get(c)
                            if cf is None:
                                continue
                            for idx, o in enumerate(i['ops']):
                                t = self.tags_of(fn, o)
                                if t and cf['defined'] and c in self.reach:
                                    if self._add((c, ('a', idx)), t):
                                        changed = True
                            if cf['defined']:
                                rt = self.val.get((c, ('ret',)), set())
                                if rt and self._add((fn, i['i']), rt):
                                    changed = True
                            elif is_ptr(i['ty']):
                                # external returning a pointer: derived if any pointer argument is
                                t = set()
                                for o in i['ops']:
                                    t |= self.tags_of(fn, o)
                                if t and self._add((fn, i['i']), t):
                                    changed = True
                    elif op == 'ret':
                        if i['ops']:
                            t = self.tags_of(fn, i['ops'][0])
                            if t and self._add((fn, ('ret',)), t):
                                changed = True
        self.rounds = rounds

    def _op_type(self, f, o):
        if 'a' in o:
            return f['args'][o['a']]['ty']
        if 'v' in o:
            i = self.M.inst[f['name']].get(o['v'])
            return i['ty'] if i else ''
        if 'g' in o or 'f' in o or 'null' in o or 'ce' in o:
            return 'ptr*'
        return ''

    def sinks(self):
        """[(fn, inst, kind, tags, description)] for writes through derived addresses and derived pointers escaping to unknown writers."""
        M = self.M
        out = []
        for n in sorted(self.reach):
            f = M.fn[n]
            if not f['defined']:
                continue
            for i, addr, kind in M.write_sites(f):
                t = self.tags_of(n, addr)
                if t:
                    out.append((f, i, kind, t, 'write through derived pointer'))
            for i in M.insts(f):
                if i['op'] not in ('call', 'invoke') or 'callee' not in i:
                    continue
                cf = M.fn.get(i['callee'])
                if cf is None or cf['defined']:
                    continue
                base = irq.ext_base(i['callee'])
                if base in irq.EXT_WRITES:
                    continue
                for idx, o in enumerate(i['ops']):
                    t = self.tags_of(n, o)
                    if not t or not is_ptr(self._op_type(f, o)):
                        continue
                    if idx < len(cf['args']) and (cf['args'][idx].get('readonly') or mangled_param_is_const(i['callee'], idx, cf)):
                        continue
                    out.append((f, i, 'extern:' + cf['dem'][:80], t, 'derived pointer passed to an external function through a non-const parameter'))
        return out
