"""T-def: path enumeration over the instruction decoder and the JIT handlers (DESIGN.md appendix B.1).

`paths(body)` enumerates every root-to-exit path of a structured statement list (if/else, ?: not split,
constant conditions pruned).  `Interp` reads BytecodeMachine::compileInstruction + the exe_* executors
into per-path facts: assigned ibc fields with pointee descriptors, marks of the last-writer table,
path conditions as atoms, the executor's read and write sets.
"""
import re

import astq
from astq import calls, loc, show, showv, strip_all, val, walk
from core import AnalysisBroken

ALIAS = {'idst': 'dst', 'fdst': 'dst', 'isrc': 'src', 'fsrc': 'src', 'imm': 'imm', 'simm': 'imm', 'target': 'aux', 'shift': 'aux',
         'type': 'type', 'memMask': 'memMask'}


class Path:
    def __init__(self):
        self.conds = []      # (cond node, taken)
        self.events = []     # statement nodes (simple statements, loops as ('loop', node))
        self.returned = False
        self.env = {}        # local id -> value expression assigned on this path (locals that only select among values: `p = A;` in one arm, `p = B;` in the other)

    def copy(self):
        p = Path()
        p.conds = list(self.conds)
        p.events = list(self.events)
        p.returned = self.returned
        p.env = dict(self.env)
        return p


def _simple_value(n):
    """a value that can be copied to its uses: constants, references to globals / parameters / members, address-of and arithmetic over those; no calls"""
    for x in walk(n):
        if x['k'] in ('Call', 'Assign', 'CAssign', 'New', 'Throw', 'Lambda', 'OtherExpr', 'Cond'):
            return False
        if x['k'] == 'Un' and ('++' in x.get('op', '') or '--' in x.get('op', '') or x.get('op') == '*'):
            return False
    return True


def propagate(p, s):
    """statement s with the path's selected values substituted; updates p.env with the assignments s makes"""
    if p.env:
        ids = set(x.get('id') for x in walk(s) if x['k'] == 'Ref')
        hit = [i for i in ids if i in p.env]
        if hit:
            top = strip_all(s)
            skip = strip_all(top['l']) if top['k'] in ('Assign', 'CAssign') else None
            for i in hit:
                for x in list(walk(s)):
                    if x['k'] == 'Ref' and x.get('id') == i and x is not skip:
                        s = replace_node(s, x, p.env[i])
    top = strip_all(s)
    written = []
    for x in walk(s):
        if x['k'] in ('Assign', 'CAssign'):
            written.append(strip_all(x['l']))
        elif x['k'] == 'Un' and ('++' in x.get('op', '') or '--' in x.get('op', '')):
            written.append(strip_all(x['e']))
    for w in written:
        wid = w.get('id') if w['k'] == 'Ref' else None
        wshow = show(w)
        for k_ in list(p.env):
            if k_ == wid or any((y['k'] == 'Ref' and y.get('id') == wid and wid is not None) or (y['k'] in ('Mem', 'Idx') and show(y) == wshow) for y in walk(p.env[k_])):
                del p.env[k_]
    if top['k'] == 'Assign':
        l = strip_all(top['l'])
        if l['k'] == 'Ref' and l.get('id') is not None and l.get('dk') in ('Var', None) and 'q' not in l and _simple_value(top['r']) \
                and not any(y['k'] == 'Ref' and y.get('id') == l['id'] for y in walk(top['r'])):
            p.env[l['id']] = top['r']
    return s


def astq_is_node(x):
    return isinstance(x, dict) and 'k' in x


def first_cond(s):
    """outermost conditional expression (c ? a : b) with a non-constant condition inside statement s, or None"""
    from astq import walk as _walk
    for x in _walk(s):
        if x['k'] == 'Cond' and val(x['c']) is None and val(x) is None:
            return x
        if x['k'] in ('Lambda',):
            return None
    return None


def replace_node(s, target, repl):
    """copy of s in which the node `target` (by identity) is replaced by `repl`; untouched sub-trees are shared"""
    if s is target:
        return repl
    if not isinstance(s, dict):
        return s
    out = None
    for key, v in s.items():
        nv = v
        if isinstance(v, dict):
            nv = replace_node(v, target, repl)
        elif isinstance(v, list):
            nl = None
            for i, x in enumerate(v):
                nx = replace_node(x, target, repl) if isinstance(x, dict) else x
                if nx is not x:
                    if nl is None:
                        nl = list(v)
                    nl[i] = nx
            if nl is not None:
                nv = nl
        if nv is not v:
            if out is None:
                out = dict(s)
            out[key] = nv
    return out if out is not None else s


def paths(stmt, limit=4096, record_conds=False):
    """All paths through a structured statement (record_conds: branch decisions also appear in events, in order)."""
    def rec(s, ps):
        if s is None:
            return ps
        k = s['k']
        live = [p for p in ps if not p.returned]
        done = [p for p in ps if p.returned]
        if not live:
            return ps
        if k == 'Compound':
            cur = live
            for x in s['s']:
                cur = rec(x, cur)
            return done + cur
        if k == 'If':
            cv = val(s['c'])
            out = []
            for p in live:
                if cv is None or cv:
                    a = p.copy()
                    if cv is None:
                        a.conds.append((s['c'], True))
                        if record_conds:
                            a.events.append(('cond', s['c'], True))
                    out += rec(s['t'], [a])
                if cv is None or not cv:
                    b = p.copy()
                    if cv is None:
                        b.conds.append((s['c'], False))
                        if record_conds:
                            b.events.append(('cond', s['c'], False))
                    out += rec(s.get('e'), [b]) if s.get('e') is not None else [b]
            if len(out) > limit:
                raise AnalysisBroken('path explosion')
            return done + out
        if k in ('For', 'While', 'Do', 'ForRange'):
            for p in live:
                p.events.append(('loop', s))
            return done + live
        if k == 'Return':
            # `return c ? a : b;` is `if (c) return a; else return b;`
            cnd = first_cond(s) if astq_is_node(s.get('e')) else None
            if cnd is not None and split_depth[0] < 6:
                split_depth[0] += 1
                try:
                    out = []
                    for p in live:
                        for arm, taken in (('t', True), ('f', False)):
                            q = p.copy()
                            q.conds.append((cnd['c'], taken))
                            if record_conds:
                                q.events.append(('cond', cnd['c'], taken))
                            out += rec(replace_node(s, cnd, cnd[arm]), [q])
                    return done + out
                finally:
                    split_depth[0] -= 1
            for p in live:
                p.events.append(propagate(p, s) if p.env else s)
                p.returned = True
            return done + live
        if k == 'Switch':
            for p in live:
                p.events.append(('switch', s))
            return done + live
        if k in ('Break', 'Continue'):
            # loops and switches are opaque events here, so a break / continue met at this level leaves the analysed region
            for p in live:
                p.events.append(s)
                p.returned = True
                p.left_by = k
            return done + live
        if k == 'Null':
            return ps
        # a conditional expression inside a plain statement is a branch like any other: x = c ? a : b  ==  if (c) x = a; else x = b;
        cnd = first_cond(s)
        if cnd is not None and split_depth[0] < 6:
            split_depth[0] += 1
            try:
                out = []
                for p in live:
                    for arm, taken in (('t', True), ('f', False)):
                        q = p.copy()
                        q.conds.append((cnd['c'], taken))
                        if record_conds:
                            q.events.append(('cond', cnd['c'], taken))
                        out += rec(replace_node(s, cnd, cnd[arm]), [q])
                if len(out) > limit:
                    raise AnalysisBroken('path explosion')
                return done + out
            finally:
                split_depth[0] -= 1
        for p in live:
            s_p = propagate(p, s)
            p.events.append(s_p)
            top = strip_all(s_p)
            if top['k'] == 'Call' and top.get('name') == '__builtin_unreachable':
                p.returned = True
                p.unreachable = True
        return done + live
    split_depth = [0]
    return rec(stmt, [Path()])


def mem_of(n, base_id):
    """If n is `<base>.field` (base = reference to decl base_id) return field name."""
    n = strip_all(n)
    if n['k'] == 'Mem':
        b = strip_all(n['b'])
        while b['k'] == 'Mem' and b['m'] == '':      # anonymous union / struct member
            b = strip_all(b['b'])
        if b['k'] == 'Ref' and b.get('id') == base_id:
            return n['m']
    return None


class Interp:
    """Facts of the interpreter decoder and executors."""

    def __init__(self, F):
        self.F = F
        self.f = F.func('randomx::BytecodeMachine::compileInstruction')
        self.itype = F.enum('randomx::InstructionType')
        self.itype_by_val = {v: k for k, v in self.itype.items()}
        ps = {p['name']: p['id'] for p in self.f['params']}
        self.p_instr, self.p_i, self.p_ibc = ps.get('instr'), ps.get('i'), ps.get('ibc')
        if None in (self.p_instr, self.p_i, self.p_ibc):
            # positional fallback (renamed parameters)
            ids = [p['id'] for p in self.f['params']]
            self.p_instr, self.p_i, self.p_ibc = ids[0], ids[1], ids[2]
        self.blocks = []    # dict(name, lo, hi, node, paths)
        self._split_blocks()
        self._executors()

    # ------------------------------------------------------------------ top-level structure
    def _split_blocks(self):
        body = self.f['body']['s']
        ceil = {}
        for g in self.F.globs(r'^randomx::ceil_'):
            ceil[g['v']] = ceil.get(g['v'], []) + [g['name'][5:]]
        self.ceils = {g['name'][5:]: g['v'] for g in self.F.globs(r'^randomx::ceil_')}
        opc_id = None
        prev = 0
        prefix = []         # declarations of locals shared by the blocks that follow them (an immediate decoded once, ...)
        for s in body:
            if s['k'] == 'Decl' and opc_id is None:
                d = s['d'][0]
                if 'init' in d and mem_of(d['init'], self.p_instr) == 'opcode':
                    opc_id = d['id']
                else:
                    prefix.append(s)
                continue
            if s['k'] == 'Decl':
                prefix.append(s)
                continue
            if s['k'] == 'If':
                c = strip_all(s['c'])
                if c['k'] == 'Bin' and c['op'] == '<' and strip_all(c['l'])['k'] == 'Ref' and strip_all(c['l']).get('id') == opc_id and val(c['r']) is not None:
                    hi = val(c['r'])
                    r = strip_all(c['r'])
                    cname = r.get('n', '')[5:] if r['k'] == 'Ref' and r.get('n', '').startswith('ceil_') else None
                    if hi < prev:
                        raise AnalysisBroken('decoder: opcode ceilings not increasing at %s' % loc(s, self.f))
                    blk = dict(name=cname, lo=prev, hi=hi, node=s, line=s.get('ln'))
                    body_t = s['t'] if not prefix else {'k': 'Compound', 'ln': s['t'].get('ln'), 's': list(prefix) + (s['t']['s'] if s['t']['k'] == 'Compound' else [s['t']])}
                    blk['paths'] = [self._path_facts(p, blk) for p in paths(body_t)]
                    for pf in blk['paths']:
                        if not pf['returned']:
                            raise AnalysisBroken('decoder block %s has a path that does not return (%s)' % (cname, loc(s, self.f)))
                    self.blocks.append(blk)
                    prev = hi
                    continue
                raise AnalysisBroken('decoder: unexpected top-level if at %s: %s' % (loc(s, self.f), show(c)[:80]))
            top = strip_all(s)
            if top['k'] == 'Call' and top.get('name') == '__builtin_unreachable':
                continue
            raise AnalysisBroken('decoder: unexpected top-level statement %s at %s' % (s['k'], loc(s, self.f)))
        if opc_id is None:
            raise AnalysisBroken('decoder: `opcode = instr.opcode` not found')
        if prev != 256:
            raise AnalysisBroken('decoder: opcode ranges end at %d, not 256' % prev)

    def opcode_map(self):
        m = {}
        for b in self.blocks:
            for o in range(b['lo'], b['hi']):
                m[o] = b['name']
        return m

    # ------------------------------------------------------------------ per-path facts
    def _index_def(self, init):
        """`instr.dst % 8` -> ('dst', 8)"""
        n = strip_all(init)
        if n['k'] == 'Bin' and n['op'] == '%':
            fld = mem_of(n['l'], self.p_instr)
            m = val(n['r'])
            if fld and m:
                return (fld, m)
        return None

    def pointee(self, rhs, vars_):
        """descriptor of `&nreg->r[dst]`, `&ibc.imm`, `&zero`"""
        n = strip_all(rhs)
        if n['k'] != 'Un' or n['op'] != '&':
            return ('?', show(rhs))
        e = strip_all(n['e'])
        if e['k'] == 'Idx':
            b = strip_all(e['b'])
            if b['k'] == 'Mem' and show(b['b']) in ('this->nreg',) and b['m'] in ('r', 'f', 'e', 'a'):
                idx = strip_all(e['i'])
                grp = b['m'].upper()
                if idx['k'] == 'Ref' and idx.get('id') in vars_:
                    return (grp, vars_[idx['id']], 0)
                if idx['k'] == 'Bin' and idx['op'] == '-' and strip_all(idx['l'])['k'] == 'Ref' and strip_all(idx['l']).get('id') in vars_ and val(idx['r']) is not None:
                    return (grp, vars_[strip_all(idx['l'])['id']], -val(idx['r']))
                return (grp, ('?', show(idx)), 0)
        if e['k'] == 'Mem' and mem_of(e, self.p_ibc):
            return ('IBC', mem_of(e, self.p_ibc))
        if e['k'] in ('Ref', 'Mem') and (e.get('n') == 'zero' or e.get('m') == 'zero'):
            return ('ZERO',)
        return ('?', show(rhs))

    def atom(self, cond, vars_):
        """Normalised atom of a path condition."""
        c = strip_all(cond)
        neg = False
        while c['k'] == 'Un' and c['op'] == '!':
            neg = not neg
            c = strip_all(c['e'])
        if c['k'] == 'Bin' and c['op'] in ('!=', '==', '<', '>=', '>', '<='):
            l, r = strip_all(c['l']), strip_all(c['r'])
            def nm(x):
                if x['k'] == 'Ref' and x.get('id') in vars_:
                    d = vars_[x['id']]
                    return d[0] if isinstance(d, tuple) and d[0] in ('dst', 'src') else show(x)
                if x['k'] == 'Call' and x.get('cls') == 'randomx::Instruction':
                    return x['name'] + '()'
                if 'v' in x:
                    return str(x['v'])
                return show(x)
            op = c['op']
            a, b = nm(l), nm(r)
            if op in ('!=', '==') and a > b:
                a, b = b, a
            s = '%s %s %s' % (a, op, b)
        elif c['k'] == 'Call':
            if c.get('cls') == 'randomx::Instruction':
                s = c['name'] + '()'
            else:
                arg = strip_all(c['a'][0]) if c.get('a') else None
                an = None
                if arg is not None and arg['k'] == 'Ref' and arg.get('id') in vars_:
                    an = vars_[arg['id']]
                s = '%s(%s)' % (c.get('name'), an[0] if isinstance(an, tuple) else (show(arg) if arg is not None else ''))
        else:
            s = show(c)
        return s, neg

    def _path_facts(self, p, blk):
        vars_ = {}        # decl id -> definition descriptor
        var_kb = {}
        fields = {}       # ibc field -> dict(node, pointee?)
        marks = []        # (index descriptor)
        mark_all = False
        conds = []
        order = []
        for e in p.events:
            if isinstance(e, tuple) and e[0] == 'loop':
                lp = e[1]
                body_assigns = [x for x in walk(lp['b']) if x['k'] == 'Assign']
                okloop = False
                if lp['k'] == 'For' and len(body_assigns) == 1:
                    a = body_assigns[0]
                    l = strip_all(a['l'])
                    if l['k'] == 'Idx' and show(l['b']) == 'this->registerUsage' and strip_all(a['r'])['k'] == 'Ref' and strip_all(a['r']).get('id') == self.p_i:
                        d = lp['init']['d'][0] if lp.get('init') and lp['init']['k'] == 'Decl' else None
                        c = strip_all(lp['c']) if lp.get('c') else None
                        if d and val(d.get('init')) == 0 and c and c['k'] == 'Bin' and c['op'] == '<' and val(c['r']) is not None and strip_all(l['i']).get('id') == d['id']:
                            mark_all = val(c['r'])
                            okloop = True
                if not okloop:
                    fields.setdefault('_unknown_loop', []).append(loc(lp, self.f))
                continue
            if isinstance(e, tuple):
                fields.setdefault('_unknown_loop', []).append(loc(e[1], self.f))
                continue
            if e['k'] == 'Decl':
                for d in e['d']:
                    if 'init' in d:
                        idx = self._index_def(d['init'])
                        if idx:
                            vars_[d['id']] = idx
                        else:
                            vars_[d['id']] = ('expr', d['init'], d['name'])
                continue
            if e['k'] == 'Return':
                continue
            for x in walk(e):
                if x['k'] in ('Assign', 'CAssign'):
                    l = strip_all(x['l'])
                    fld = mem_of(l, self.p_ibc)
                    if fld:
                        ent = fields.setdefault(fld, dict(nodes=[], ops=[]))
                        # a right-hand side that is just a local initialised earlier on this path stands for its initialiser
                        r_ = strip_all(x['r'])
                        hops = 0
                        while r_['k'] == 'Ref' and vars_.get(r_.get('id'), (None,))[0] == 'expr' and hops < 4:
                            r_ = strip_all(vars_[r_['id']][1])
                            hops += 1
                        if hops:
                            x = dict(x, r=r_)
                        ent['nodes'].append(x)
                        ent['ops'].append(x['op'])
                        if fld in ('idst', 'fdst', 'isrc', 'fsrc'):
                            ent['pointee'] = self.pointee(x['r'], vars_)
                        if fld == 'type':
                            r = strip_all(x['r'])
                            ent['type'] = r.get('n') if r['k'] == 'Ref' else show(r)
                        order.append(fld)
                    elif l['k'] == 'Idx' and show(l['b']) == 'this->registerUsage':
                        idx = strip_all(l['i'])
                        r = strip_all(x['r'])
                        okv = r['k'] == 'Ref' and r.get('id') == self.p_i
                        d = vars_.get(idx.get('id')) if idx['k'] == 'Ref' else None
                        marks.append(dict(idx=d if d else ('?', show(idx)), value_is_i=okv, loc=loc(x, self.f)))
        for c, taken in p.conds:
            s, neg = self.atom(c, vars_)
            conds.append((s, taken != neg))
        ty = fields.get('type', {}).get('type')
        return dict(block=blk['name'], vars=vars_, fields=fields, marks=marks, mark_all=mark_all, conds=conds, type=ty,
                    returned=p.returned, order=order, line=blk['line'])

    # ------------------------------------------------------------------ executors
    def _executors(self):
        ex = self.F.func('randomx::BytecodeMachine::executeInstruction')
        self.dispatch = {}     # type name -> executor function qname
        self.dispatch_nop = set()
        sw = [x for x in walk(ex['body']) if x['k'] == 'Switch']
        if len(sw) != 1:
            raise AnalysisBroken('executeInstruction: expected exactly one switch')
        sw = sw[0]
        swc = strip_all(sw['c'])
        cur_labels = []
        self.dispatch_unreachable = set()
        stmts = sw['b']['s']
        for s in stmts:
            x = s
            while x['k'] in ('Case', 'Default'):
                if x['k'] == 'Case':
                    cur_labels.append(self.itype_by_val.get(val(x['lhs']), str(val(x['lhs']))))
                else:
                    cur_labels.append('default')
                x = x['sub']
            top = strip_all(x)
            if top['k'] == 'Call' and top.get('name', '').startswith('exe_'):
                for l in cur_labels:
                    self.dispatch[l] = top['fn']
                continue
            if top['k'] == 'Call' and top.get('name') == '__builtin_unreachable':
                for l in cur_labels:
                    self.dispatch_unreachable.add(l)
                cur_labels = []
                continue
            if x['k'] == 'Break':
                for l in cur_labels:
                    if l not in self.dispatch:
                        self.dispatch_nop.add(l)
                cur_labels = []
                continue
        self.exec_rw = {}
        for tname, fq in self.dispatch.items():
            self.exec_rw[tname] = self._rw(fq)

    def _rw(self, fq, depth=0):
        """(reads, writes_through, write details) of ibc fields in an executor (interprocedural)."""
        f = self.F.func(fq)
        ibc = None
        for p in f['params']:
            if 'InstructionByteCode' in p['ty']:
                ibc = p['id']
        reads, wthru = set(), set()
        if ibc is None:
            return reads, wthru
        for x in walk(f['body']):
            if x['k'] in ('Assign', 'CAssign'):
                l = strip_all(x['l'])
                # *ibc.idst = ..., *(int_reg_t*)ibc.isrc = ...
                if l['k'] == 'Un' and l['op'] == '*':
                    fld = mem_of(strip_all(l['e']), ibc)
                    if fld:
                        wthru.add(fld)
            if x['k'] == 'Mem' and mem_of(x, ibc):
                reads.add(x['m'])
            if x['k'] == 'Call' and x.get('fn') and x['fn'] != fq and depth < 4 and self.F.has_func(x['fn']):
                passes = any(strip_all(a)['k'] == 'Ref' and strip_all(a).get('id') == ibc for a in x.get('a', []))
                if passes:
                    r2, w2 = self._rw(x['fn'], depth + 1)
                    reads |= r2
                    wthru |= w2
        return reads, wthru

    def all_paths(self):
        for b in self.blocks:
            for p in b['paths']:
                yield b, p


def cond_str(p):
    return ' && '.join(('' if t else '!') + '(' + s + ')' for s, t in p['conds']) or 'always'
