"""Register-level facts about the hand-written runtime (the assembled static .S objects): instruction list with definitions / uses, control-flow
successors, backward liveness with two boundary assumptions, and a value-preservation executor that follows calls.

The assembler (clang, cross target) resolves macros, conditionals and aliases; the disassembler (llvm-objdump) gives one canonical text per instruction.
What this module adds is the reading of that text: which registers an instruction writes and reads, where control goes next, what a spill / reload does
to a slot of the stack frame.  Registers are canonical names: A64 'x0'..'x30', 'sp', 'v0'..'v31'; RISC-V 'x1'..'x31' ('x2' is the stack pointer),
'f0'..'f31', 'v0'..'v31'."""
import re

from core import AnalysisBroken

RV_ABI = {}
for i, n in enumerate(('zero ra sp gp tp t0 t1 t2 s0 s1 a0 a1 a2 a3 a4 a5 a6 a7 s2 s3 s4 s5 s6 s7 s8 s9 s10 s11 t3 t4 t5 t6').split()):
    RV_ABI[n] = 'x%d' % i
RV_ABI['fp'] = 'x8'
for i, n in enumerate(('ft0 ft1 ft2 ft3 ft4 ft5 ft6 ft7 fs0 fs1 fa0 fa1 fa2 fa3 fa4 fa5 fa6 fa7 fs2 fs3 fs4 fs5 fs6 fs7 fs8 fs9 fs10 fs11 ft8 ft9 ft10 ft11').split()):
    RV_ABI[n] = 'f%d' % i


class I:
    __slots__ = ('addr', 'size', 'raw', 'mnem', 'ops', 'text', 'target', 'tsym', 'defs', 'uses', 'kind', 'reloc')

    def __repr__(self):
        return '%#x: %s %s' % (self.addr, self.mnem, ', '.join(self.ops))


def split_ops(s):
    out, cur, depth = [], '', 0
    for ch in s:
        if ch in '[{(':
            depth += 1
        elif ch in ']})':
            depth -= 1
        if ch == ',' and depth == 0:
            out.append(cur.strip())
            cur = ''
        else:
            cur += ch
    if cur.strip():
        out.append(cur.strip())
    return out


# ---------------------------------------------------------------------------------------------------------------- A64 text -> defs / uses
A64_NODEF = {'str', 'strb', 'strh', 'stur', 'sturb', 'sturh', 'stp', 'stnp', 'st1', 'st2', 'st3', 'st4', 'cmp', 'cmn', 'tst', 'ccmp', 'ccmn', 'fcmp', 'fcmpe', 'fccmp', 'prfm', 'prfum',
             'b', 'br', 'ret', 'cbz', 'cbnz', 'tbz', 'tbnz', 'msr', 'nop', 'dmb', 'dsb', 'isb', 'hint', 'bti', 'svc', 'brk', 'udf'}
A64_PAIR = {'ldp', 'ldnp', 'ldpsw', 'ldxp', 'ldaxp'}
A64_RMW = {'movk', 'bfi', 'bfxil', 'bfm', 'ins', 'aese', 'aesd', 'mla', 'mls', 'fmla', 'fmls', 'sli', 'sri', 'tbx', 'bit', 'bif', 'bsl'}
A64_STORES = {'str', 'strb', 'strh', 'stur', 'sturb', 'sturh', 'stp', 'stnp', 'st1', 'st2', 'st3', 'st4'}
A64_LOADS = {'ldr', 'ldrb', 'ldrh', 'ldrsw', 'ldrsb', 'ldrsh', 'ldur', 'ldurb', 'ldurh', 'ldursw', 'ldp', 'ldnp', 'ldpsw', 'ld1', 'ld2', 'ld3', 'ld4', 'ld1r'}


def a64_reg(tok):
    t = tok.strip()
    m = re.match(r'^([xw])(\d+)$', t)
    if m:
        return 'x' + m.group(2)
    if t in ('sp', 'wsp'):
        return 'sp'
    if t in ('xzr', 'wzr'):
        return None
    m = re.match(r'^[vqdshb](\d+)(\.\w+)?(\[\d+\])?$', t)
    if m:
        return 'v' + m.group(1)
    return None


def a64_regs_in(op):
    out = []
    for t in re.findall(r'[A-Za-z][A-Za-z0-9]*(?:\.\w+)?(?:\[\d+\])?', op):
        r = a64_reg(t)
        if r:
            out.append(r)
    return out


def a64_defuse(i):
    mn, ops = i.mnem, i.ops
    defs, uses = [], []
    if mn == '<unknown>':
        w = i.raw
        if (w & 0xFFFF0C00) == 0x4E280800:          # AESE / AESD / AESMC / AESIMC
            rd, rn = 'v%d' % (w & 31), 'v%d' % ((w >> 5) & 31)
            op = (w >> 12) & 0x1f
            if op in (4, 5):
                return [rd], [rd, rn], 'alu'
            return [rd], [rn], 'alu'
        raise AnalysisBroken('rtasm: undecoded A64 word %#010x at %#x' % (i.raw, i.addr))
    if mn.startswith('b.'):
        return [], [], 'cbranch'
    kind = 'alu'
    if mn in ('b',):
        return [], [], 'jump'
    if mn in ('cbz', 'cbnz', 'tbz', 'tbnz'):
        return [], a64_regs_in(ops[0]), 'cbranch'
    if mn == 'ret':
        return [], ['x30'] if not ops else a64_regs_in(ops[0]), 'ret'
    if mn == 'br':
        return [], a64_regs_in(ops[0]), 'ijump'
    if mn == 'bl':
        return ['x30'], [], 'call'
    if mn == 'blr':
        return ['x30'], a64_regs_in(ops[0]), 'icall'
    mem_idx = [k for k, o in enumerate(ops) if o.startswith('[')]
    wb = []
    if mem_idx:
        k = mem_idx[0]
        base = a64_regs_in(ops[k])[:1]
        if ops[k].endswith('!') or k != len(ops) - 1:
            wb = base                                # pre- or post-index write-back
    if mn in A64_NODEF:
        for o in ops:
            uses += a64_regs_in(o)
        return wb, uses, 'store' if mn in A64_STORES else 'alu'
    nd = 2 if mn in A64_PAIR else 1
    if mn in ('ld1', 'ld2', 'ld3', 'ld4', 'ld1r'):
        defs = a64_regs_in(ops[0])
        if '[' in ops[0].replace('{', '').split('}')[-1]:       # single-lane load keeps the other lanes
            uses += defs
        rest = ops[1:]
    else:
        for o in ops[:nd]:
            defs += a64_regs_in(o)
        rest = ops[nd:]
        if mn in A64_RMW or (mn == 'mov' and re.search(r'\[\d+\]$', ops[0])):
            uses += defs
    for o in rest:
        uses += a64_regs_in(o)
    return defs + wb, uses, 'load' if mn in A64_LOADS else 'alu'


# ---------------------------------------------------------------------------------------------------------------- RISC-V text -> defs / uses
RV_STORES = {'sd', 'sw', 'sh', 'sb', 'fsd', 'fsw', 'c.sd', 'c.sw', 'c.sdsp', 'c.swsp', 'c.fsd', 'c.fsdsp'}
RV_LOADS = {'ld', 'lw', 'lwu', 'lh', 'lhu', 'lb', 'lbu', 'fld', 'flw', 'c.ld', 'c.lw', 'c.ldsp', 'c.lwsp', 'c.fld', 'c.fldsp'}
RV_CRMW = {'c.add', 'c.addi', 'c.addiw', 'c.slli', 'c.slli64', 'c.srli', 'c.srai', 'c.andi', 'c.and', 'c.or', 'c.xor', 'c.sub', 'c.addw', 'c.subw', 'c.addi16sp'}
RV_BR = {'beq', 'bne', 'blt', 'bge', 'bltu', 'bgeu', 'c.beqz', 'c.bnez'}


def rv_reg(tok):
    t = tok.strip()
    if t in RV_ABI:
        r = RV_ABI[t]
        return None if r == 'x0' else r
    m = re.match(r'^([xfv])(\d+)(\.t)?$', t)
    if m:
        return None if (m.group(1) == 'x' and m.group(2) == '0') else m.group(1) + m.group(2)
    return None


def rv_regs_in(op):
    out = []
    for t in re.findall(r'[A-Za-z][A-Za-z0-9]*(?:\.t)?', op):
        r = rv_reg(t)
        if r:
            out.append(r)
    return out


def rv_defuse(i):
    mn, ops = i.mnem, i.ops
    if mn == '<unknown>' and i.size == 4 and i.raw == 0x0000000b:
        return [], [], 'alu'        # the opaque word core.obj('rvv') puts in place of a Zvkned instruction: vector registers only
    if mn in ('<unknown>', 'c.unimp', 'unimp') or mn.startswith('.'):
        return [], [], 'data'
    if mn in RV_BR:
        uses = []
        for o in ops[:-1]:
            uses += rv_regs_in(o)
        return [], uses, 'cbranch'
    if mn in ('jal', 'c.jal'):
        d = rv_regs_in(ops[0]) if ops else ['x1']
        return d, [], 'call' if d else 'jump'
    if mn == 'c.j':
        return [], [], 'jump'
    if mn == 'jalr':
        d = rv_regs_in(ops[0])
        u = rv_regs_in(ops[1]) if len(ops) > 1 else []
        if not d:
            return [], u, 'ret' if u == ['x1'] else 'ijump'
        return d, u, 'icall'
    if mn == 'c.jr':
        u = rv_regs_in(ops[0])
        return [], u, 'ret' if u == ['x1'] else 'ijump'
    if mn == 'c.jalr':
        return ['x1'], rv_regs_in(ops[0]), 'icall'
    if mn in RV_STORES or re.match(r'^vs(e\d|se\d|uxei|oxei|\d+r)', mn) or mn.startswith('vsm.'):
        uses = []
        for o in ops:
            uses += rv_regs_in(o)
        return [], uses, 'store'
    if mn in ('c.nop', 'nop', 'fence', 'fence.i', 'ecall', 'ebreak'):
        return [], [], 'alu'
    defs = rv_regs_in(ops[0]) if ops else []
    uses = []
    for o in ops[1:]:
        uses += rv_regs_in(o)
    if mn in RV_CRMW or re.match(r'^v(f?n?m(acc|sac|add|sub)|f?w?macc|slideup|slide1up|merge|f?merge)', mn):
        uses += defs
    if mn.startswith('v') and ops and ops[-1].strip() == 'v0.t':
        uses += defs                                   # masked-off elements keep the old value
    return defs, uses, 'load' if mn in RV_LOADS or re.match(r'^vl(e\d|se\d|uxei|oxei|\d+r)', mn) else 'alu'


# ---------------------------------------------------------------------------------------------------------------- program
class Prog:
    def __init__(self, obj, arch):
        self.arch = arch            # 'a64' | 'rv'
        self.obj = obj
        self.ins = {}
        self.order = []
        self.sym_at = {}
        for n, a in obj.symbols.items():
            if not n.startswith('$') and not n.startswith('.L'):
                self.sym_at.setdefault(a, []).append(n)
        rel = {}
        for off, ty, sym in obj.relocs:
            if 'RELAX' in ty or 'ALIGN' in ty:
                continue
            rel.setdefault(off, []).append((ty, sym))
        import os
        with open(os.path.join(obj.dir, 'disraw.txt')) as fh:
            lines = fh.read().split('\n')
        for ln in lines:
            m = re.match(r'^\s*([0-9a-f]+):\s+((?:[0-9a-f]{2} )+)\s*\t?(.*)$', ln)
            if not m:
                continue
            raw = bytes(int(b, 16) for b in m.group(2).split())
            rest = m.group(3).strip()
            i = I()
            i.addr = int(m.group(1), 16)
            i.size = len(raw)
            i.raw = int.from_bytes(raw, 'little')
            p = rest.split(None, 1)
            i.mnem = p[0] if p else '<unknown>'
            opstr = p[1] if len(p) > 1 else ''
            i.target = None
            i.tsym = None
            mt = re.search(r'(0x[0-9a-f]+)\s+<([^>+]+)(\+0x[0-9a-f]+)?>\s*$', opstr)
            if mt:
                i.target = int(mt.group(1), 16)
                i.tsym = mt.group(2)
                opstr = opstr[:mt.start()].rstrip().rstrip(',')
            i.ops = split_ops(opstr)
            i.text = rest
            i.reloc = rel.get(i.addr, [])
            for ty, sym in i.reloc:
                if any(k in ty for k in ('JUMP26', 'CALL26', 'CONDBR19', 'TSTBR14', 'RISCV_JAL', 'RISCV_BRANCH', 'RVC_JUMP', 'RVC_BRANCH', 'RISCV_CALL')):
                    s, add = (sym.split('+') + ['0'])[:2]
                    if s in obj.symbols:
                        i.target = obj.symbols[s] + int(add, 16)
                        i.tsym = s
                    else:
                        i.target = None
                        i.tsym = s
            if i.mnem.startswith('.') or re.match(r'^[0-9a-f]{2}$', i.mnem):
                i.defs, i.uses, i.kind = [], [], 'data'
            else:
                i.defs, i.uses, i.kind = (a64_defuse if arch == 'a64' else rv_defuse)(i)
            self.ins[i.addr] = i
            self.order.append(i.addr)
        self.order.sort()
        self.all_regs = None

    def sym(self, name):
        return self.obj.sym(name)

    def name_at(self, a):
        best = None
        for s, v in self.obj.symbols.items():
            if s.startswith('$') or s.startswith('.L'):
                continue
            if v <= a and (best is None or v > best[1] or (v == best[1] and len(s) < len(best[0]))):
                best = (s, v)
        if best is None:
            return '%#x' % a
        return best[0] if best[1] == a else '%s+%#x' % (best[0], a - best[1])

    def nxt(self, i):
        return i.addr + i.size

    def succs(self, i, boundaries=()):
        """static successors; None marks 'leaves the analysed text' (data, hole, indirect jump, unresolved target)"""
        k = i.kind
        n = self.nxt(i)
        if k == 'data':
            return [None]
        if k in ('ret', 'ijump'):
            return []
        if k == 'jump':
            return [i.target if i.target in self.ins else None]
        if k == 'cbranch':
            return [n if n in self.ins else None, i.target if i.target in self.ins else None]
        return [n if n in self.ins else None]

    # ------------------------------------------------------------------------------------------------ liveness
    def liveness_after(self, start, boundary_live, ret_live, call_uses, stops=()):
        """backward may-liveness on the part of the text reachable from `start`; leaving the text (data / hole / unresolved) makes `boundary_live`
        live, a return makes `ret_live` live; a direct call reads call_uses(target).  `stops` are addresses treated as boundaries (JIT patch points
        where generated code begins).  Returns the live-in set at `start`."""
        reach, work = set(), [start]
        while work:
            a = work.pop()
            if a in reach or a not in self.ins or a in stops:
                continue
            reach.add(a)
            for s in self.succs(self.ins[a]):
                if s is not None:
                    work.append(s)
        live_in = {a: frozenset() for a in reach}
        changed = True
        bl, rl = frozenset(boundary_live), frozenset(ret_live)
        while changed:
            changed = False
            for a in sorted(reach, reverse=True):
                i = self.ins[a]
                out = set()
                if i.kind == 'ret':
                    out |= rl
                elif i.kind == 'ijump':
                    out |= bl
                for s in self.succs(i):
                    if s is None or s in stops or s not in reach:
                        out |= bl
                    else:
                        out |= live_in[s]
                uses = set(i.uses)
                if i.kind == 'call':
                    uses |= set(call_uses(i))
                new = frozenset((out - set(i.defs)) | uses)
                if new != live_in[a]:
                    live_in[a] = new
                    changed = True
        return live_in.get(start, bl), reach


# ---------------------------------------------------------------------------------------------------------------- value-preservation executor
class Frame:
    """straight-line execution that follows direct calls and unconditional jumps: each register holds ('init', r), ('sp', delta), ('mem', address in the text),
    ('addr', address in the text) or ('other', where); the stack is a map from byte offset (relative to the entry stack pointer) to a value"""

    def __init__(self, prog, holes=None):
        self.p = prog
        self.reg = {}
        self.slots = {}
        self.sp = 'sp' if prog.arch == 'a64' else 'x2'
        self.reg[self.sp] = ('sp', 0)
        self.trace = []
        self.holes = holes or {}        # address -> set of registers an inserted code sequence may write
        self.written = set()
        self.opaque = 0

    def get(self, r):
        return self.reg.get(r, ('init', r))

    def put(self, r, v):
        self.reg[r] = v
        self.written.add(r)

    def snapshot(self):
        return dict(self.reg), dict(self.slots)

    # -------- A64
    def _a64_mem(self, op, following):
        """(base value, offset, write-back delta or None) of a memory operand"""
        m = re.match(r'^\[\s*(\w+)\s*(?:,\s*#(-?(?:0x)?[0-9a-f]+))?\s*\](!)?$', op)
        if not m:
            return None
        base = a64_reg(m.group(1))
        off = int(m.group(2), 0) if m.group(2) else 0
        pre = bool(m.group(3))
        post = None
        if following and following[0].startswith('#'):
            post = int(following[0][1:], 0)
        return base, off, pre, post

    def step_a64(self, i):
        mn, ops = i.mnem, i.ops
        where = ('other', i.addr)
        if mn in ('add', 'sub') and len(ops) == 3 and a64_reg(ops[0]) and a64_reg(ops[1]) and ops[2].startswith('#'):
            v = self.get(a64_reg(ops[1]))
            if v[0] == 'sp':
                k = int(ops[2][1:].split(',')[0], 0)
                self.put(a64_reg(ops[0]), ('sp', v[1] + (k if mn == 'add' else -k)))
                return
        if mn == 'mov' and len(ops) == 2 and a64_reg(ops[0]) and a64_reg(ops[1]) and ops[0][0] == 'x' and (ops[1][0] == 'x' or ops[1] == 'sp') or \
           (mn == 'mov' and len(ops) == 2 and ops[0] == 'sp' and a64_reg(ops[1])):
            self.put(a64_reg(ops[0]), self.get(a64_reg(ops[1])))
            return
        if mn in ('stp', 'str', 'ldp', 'ldr') and any(o.startswith('[') for o in ops):
            k = [j for j, o in enumerate(ops) if o.startswith('[')][0]
            mm = self._a64_mem(ops[k], ops[k + 1:])
            regs = [a64_reg(o) for o in ops[:k]]
            wide = {'x': 8, 'w': 4, 'q': 16, 'd': 8, 's': 4}.get(ops[0][0], 8)
            if mm and mm[0] is not None:
                base, off, pre, post = mm
                bv = self.get(base)
                if bv[0] == 'sp':
                    a0 = bv[1] + (off if post is None else 0)
                    for j, r in enumerate(regs):
                        a = a0 + j * wide
                        if mn in ('stp', 'str'):
                            for b in range(0, wide, 4):
                                self.slots.pop(a + b, None)
                            if wide in (8, 16) and (r is None or ops[j][0] in 'xqd'):
                                self.slots[a] = (self.get(r) if r else ('zero',), wide)
                        else:
                            s = self.slots.get(a)
                            self.put(r, s[0] if s and s[1] == wide and ops[j][0] in 'xq' + ('d' if s[1] == 8 else '') else where) if r else None
                    if pre:
                        self.put(base, ('sp', bv[1] + off))
                    elif post is not None:
                        self.put(base, ('sp', bv[1] + post))
                    return
                if mn in ('ldp', 'ldr'):
                    for r in regs:
                        if r:
                            self.put(r, where)
                    if pre or post is not None:
                        self.put(base, where)
                    return
                # store through a pointer that is not known to point into the frame: no effect on the slots (assumption recorded by the rule)
                if pre or post is not None:
                    self.put(base, where)
                return
        if mn == 'ldr' and len(ops) == 1 and i.target is not None:
            self.put(a64_reg(ops[0]), ('mem', i.target) if ops[0][0] == 'x' else where)
            return
        if mn == 'adr' and i.target is not None and not i.reloc:
            self.put(a64_reg(ops[0]), ('addr', i.target))
            return
        if i.kind == 'store':
            # a store through a pointer into the frame overwrites slots
            k = [j for j, o in enumerate(ops) if o.startswith('[')]
            if k:
                mm = self._a64_mem(ops[k[0]], ops[k[0] + 1:])
                if mm and mm[0] and self.get(mm[0])[0] == 'sp':
                    a0 = self.get(mm[0])[1] + mm[1]
                    for b in range(0, 64, 4):
                        self.slots.pop(a0 + b, None)
        for r in i.defs:
            self.put(r, where)

    # -------- RISC-V
    def step_rv(self, i):
        mn, ops = i.mnem, i.ops
        where = ('other', i.addr)

        def memop(o):
            m = re.match(r'^(-?\d+)\((\w+)\)$', o.strip())
            return (int(m.group(1)), rv_reg(m.group(2))) if m else None
        if mn in ('addi', 'c.addi', 'c.addi16sp', 'c.addi4spn'):
            if mn == 'addi' or mn == 'c.addi4spn':
                rd, rs, k = rv_reg(ops[0]), rv_reg(ops[1]), int(ops[2], 0)
            else:
                rd = rs = rv_reg(ops[0])
                k = int(ops[-1], 0)
            v = self.get(rs) if rs else ('zero',)
            if rd is None:
                return
            if v[0] == 'sp':
                self.put(rd, ('sp', v[1] + k))
                return
            if v[0] == 'pcrel':
                self.put(rd, ('addr', v[1]))
                return
            if v[0] == 'addr':
                self.put(rd, ('addr', v[1] + k))
                return
            if k == 0:
                self.put(rd, v)
                return
        if mn == 'auipc':
            syms = [s for ty, s in i.reloc if 'PCREL_HI20' in ty]
            if syms:
                s0, add = (syms[0].split('+') + ['0'])[:2]
                if s0 in self.p.obj.symbols:
                    self.put(rv_reg(ops[0]), ('pcrel', self.p.obj.symbols[s0] + int(add, 16)))
                    return
                self.put(rv_reg(ops[0]), where)
                return
            if i.reloc:
                self.put(rv_reg(ops[0]), where)
                return
            imm = int(ops[1], 0)
            if imm >= 1 << 19:
                imm -= 1 << 20
            self.put(rv_reg(ops[0]), ('addr', i.addr + (imm << 12)))
            return
        if mn == 'c.mv':
            self.put(rv_reg(ops[0]), self.get(rv_reg(ops[1])))
            return
        if mn in ('sd', 'c.sd', 'c.sdsp', 'fsd', 'c.fsd', 'c.fsdsp', 'ld', 'c.ld', 'c.ldsp', 'fld', 'c.fld', 'c.fldsp'):
            mo = memop(ops[1])
            r = rv_reg(ops[0])
            if mo and mo[1]:
                bv = self.get(mo[1])
                if bv[0] == 'pcrel' and i.reloc:
                    bv = ('addr', bv[1])
                    mo = (0, mo[1])
                if bv[0] == 'sp':
                    a = bv[1] + mo[0]
                    if mn.replace('c.', '').replace('sp', '') in ('sd', 'fsd'):
                        self.slots.pop(a + 4, None)
                        self.slots.pop(a - 4, None)
                        self.slots[a] = (self.get(r) if r else ('zero',), 8)
                    elif r:
                        s = self.slots.get(a)
                        self.put(r, s[0] if s else where)
                    return
                if bv[0] == 'addr' and mn.replace('c.', '') in ('ld', 'fld') and r:
                    self.put(r, ('mem', bv[1] + mo[0]))
                    return
        if i.kind == 'store':
            mo = memop(ops[1]) if len(ops) > 1 else None
            if mo and mo[1] and self.get(mo[1])[0] == 'sp':
                a = self.get(mo[1])[1] + mo[0]
                for b in (-4, 0, 4):
                    self.slots.pop(a + b, None)
            return
        for r in i.defs:
            self.put(r, where)

    def run(self, start, stop=None, on_call=None, limit=20000, follow_calls=True, end_at_ret=True):
        """execute from `start`; returns the address where execution stopped and why ('ret', 'stop', 'cbranch', 'leave', 'ijump')"""
        a = start
        stack = []
        n = 0
        while True:
            n += 1
            if n > limit:
                raise AnalysisBroken('rtasm: execution from %s does not end' % self.p.name_at(start))
            if stop is not None and a in stop and n > 1:
                return a, 'stop'
            if a in self.holes and n > 1:
                for r in self.holes[a]:
                    self.put(r, ('other', a))
            i = self.p.ins.get(a)
            if i is None or i.kind == 'data':
                if stack:
                    # the callee continues in code the generator writes: what that code changes is not known; go on after the call (the values of
                    # registers not written again are then unreliable, which `opaque` tells the caller)
                    self.opaque += 1
                    a = stack.pop()
                    continue
                return a, 'leave'
            self.trace.append(a)
            if i.kind == 'ret':
                if stack:
                    a = stack.pop()
                    continue
                return a, 'ret'
            if i.kind == 'jump':
                if i.target not in self.p.ins:
                    return a, 'leave'
                a = i.target
                continue
            if i.kind in ('cbranch',):
                # loops inside runtime helpers: registers written in the body are clobbered either way; go on with the fall-through path
                a = self.p.nxt(i)
                continue
            if i.kind == 'ijump':
                return a, 'ijump'
            if i.kind in ('call', 'icall'):
                for r in i.defs:
                    self.put(r, ('other', a))
                if on_call is not None:
                    on_call(self, i)
                if i.kind == 'call' and follow_calls and i.target in self.p.ins:
                    stack.append(self.p.nxt(i))
                    a = i.target
                    continue
                a = self.p.nxt(i)
                continue
            (self.step_a64 if self.p.arch == 'a64' else self.step_rv)(i)
            a = self.p.nxt(i)


def upward_uses(prog, start, limit=4000):
    """registers a routine reads before writing them, along its straight-line text (spills of a still-unwritten register into the frame are not uses
    if the slot is only ever reloaded into the same register)"""
    f = Frame(prog)
    uses, written = set(), set()
    a = start
    n = 0
    sp = f.sp
    while a in prog.ins and n < limit:
        n += 1
        i = prog.ins[a]
        if i.kind in ('ret', 'ijump', 'data'):
            break
        is_spill = False
        if i.kind == 'store':
            ops = i.ops
            memops = [o for o in ops if ('[' in o or '(' in o)]
            if memops:
                base = (a64_regs_in(memops[0]) if prog.arch == 'a64' else rv_regs_in(memops[0]))[:1]
                if base == [sp]:
                    is_spill = True
        for r in i.uses:
            if r not in written and not (is_spill and r != sp):
                uses.add(r)
        for r in i.defs:
            written.add(r)
        if i.kind == 'jump':
            if i.target not in prog.ins:
                break
            a = i.target
            continue
        a = prog.nxt(i)
    return uses


def disasm_words(ctx, words, march='rv64gcv'):
    """(size, value) pairs -> instruction records with definitions / uses, through the same assembler / disassembler path as the static runtime"""
    import hashlib
    import os
    import subprocess
    key = hashlib.sha256(repr((words, march)).encode()).hexdigest()[:16]
    d = os.path.join(ctx.cdir, 'words_' + key)
    os.makedirs(d, exist_ok=True)
    dis = os.path.join(d, 'dis.txt')
    if not os.path.exists(dis):
        src = os.path.join(d, 'w.s')
        with open(src, 'w') as fh:
            fh.write('\t.text\n')
            for sz, v in words:
                fh.write('\t.%s %#x\n' % ('word' if sz == 4 else 'half', v))
        o = os.path.join(d, 'w.o')
        r = subprocess.run(['clang', '--target=riscv64-linux-gnu', '-march=' + march, '-c', src, '-o', o], stdout=subprocess.PIPE, stderr=subprocess.PIPE, text=True)
        if r.returncode:
            raise AnalysisBroken('rtasm: could not assemble emitted words: %s' % r.stderr[-200:])
        r = subprocess.run(['llvm-objdump-14', '-d', '--mattr=+m,+a,+f,+d,+c,+v', '-M', 'no-aliases', o], stdout=subprocess.PIPE, stderr=subprocess.PIPE, text=True)
        if r.returncode:
            raise AnalysisBroken('rtasm: objdump of emitted words failed')
        with open(dis, 'w') as fh:
            fh.write(r.stdout)
    out = []
    with open(dis) as fh:
        for ln in fh:
            m = re.match(r'^\s*([0-9a-f]+):\s+((?:[0-9a-f]{2} )+)\s*\t?(.*)$', ln)
            if not m:
                continue
            raw = bytes(int(b, 16) for b in m.group(2).split())
            rest = m.group(3).strip()
            i = I()
            i.addr, i.size, i.raw = int(m.group(1), 16), len(raw), int.from_bytes(raw, 'little')
            p = rest.split(None, 1)
            i.mnem = p[0] if p else '<unknown>'
            opstr = re.sub(r'\s*<[^>]*>\s*$', '', p[1] if len(p) > 1 else '')
            i.ops = split_ops(opstr)
            i.text, i.target, i.tsym, i.reloc = rest, None, None, []
            i.defs, i.uses, i.kind = rv_defuse(i)
            out.append(i)
    return out
