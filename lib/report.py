"""Obligations, verdicts, evidence files, known findings."""
import json
import os
import time

from core import VERIF, AnalysisBroken

EVIDENCE_DIR = os.environ.get('RXVERIF_EVIDENCE_DIR') or os.path.join(VERIF, 'evidence')
REPLAY_DIR = os.path.join(EVIDENCE_DIR, 'replay')
KNOWN = os.path.join(VERIF, 'known_findings.json')


class Report:
    def __init__(self, prop, tier, level='other'):
        self.prop = prop
        self.tier = tier
        self.level = level
        self.t0 = time.time()
        self.obls = []          # dict(rule, instance, loc, status, expected, found, detail)
        self.rules = {}         # rule -> dict(min, desc, count)
        self.broken = []
        self.units = set()
        self.functions = set()
        self.configs = set()
        self.assumptions = []
        self.notes = []
        self.extra = {}
        self._cur = None

    # ------------------------------------------------------------------ recording
    def rule(self, rid, desc, min_instances=1):
        self._cur = rid
        if rid in self.rules:
            # the same rule applied to another back-end / configuration: instance floors add up
            r = self.rules[rid]
            r['min'] += min_instances
            if desc and desc not in r['desc']:
                r['desc'] += ' | ' + desc
        else:
            self.rules[rid] = dict(min=min_instances, desc=desc, count=0, viol=0)
        return rid

    def _add(self, status, instance, loc, expected=None, found=None, detail='', rule=None):
        rid = rule or self._cur
        if rid not in self.rules:
            self.rules[rid] = dict(min=1, desc='', count=0, viol=0)
        o = dict(rule=rid, instance=str(instance), loc=str(loc), status=status)
        if expected is not None:
            o['expected'] = expected if isinstance(expected, (int, str, list, dict, bool)) else str(expected)
        if found is not None:
            o['found'] = found if isinstance(found, (int, str, list, dict, bool)) else str(found)
        if detail:
            o['detail'] = detail
        self.obls.append(o)
        self.rules[rid]['count'] += 1
        if status == 'violated':
            self.rules[rid]['viol'] += 1
        return o

    def ok(self, instance, loc, detail='', expected=None, found=None, rule=None):
        return self._add('held', instance, loc, expected, found, detail, rule)

    def violation(self, instance, loc, expected=None, found=None, detail='', rule=None):
        return self._add('violated', instance, loc, expected, found, detail, rule)

    def check(self, cond, instance, loc, expected=None, found=None, detail='', rule=None):
        if cond:
            return self.ok(instance, loc, detail, expected, found, rule)
        return self.violation(instance, loc, expected, found, detail, rule)

    def eq(self, instance, loc, expected, found, detail='', rule=None):
        return self.check(expected == found, instance, loc, expected, found, detail, rule)

    def fail_analysis(self, msg):
        self.broken.append(msg)

    def saw(self, fn=None, unit=None, config=None):
        if fn:
            self.functions.add(fn)
        if unit:
            self.units.add(unit)
        if config:
            self.configs.add(config)

    def assume(self, text):
        if text not in self.assumptions:
            self.assumptions.append(text)

    def note(self, text):
        if text not in self.notes:
            self.notes.append(text)

    # ------------------------------------------------------------------ finishing
    def finish(self, explanation, checker_cmd=None, trusted_base=None, only=None):
        for rid, r in self.rules.items():
            if r['count'] < r['min'] and r['viol'] == 0:
                self.broken.append('rule %s matched %d instances, fewer than the %d confirmed by hand on the pinned tree (anchor moved or rule vacuous)'
                                   % (rid, r['count'], r['min']))
        known = {'findings': [], 'fixed': []}
        if os.path.exists(KNOWN):
            with open(KNOWN) as fh:
                known = json.load(fh)
        known_set = {(k['property'], k['rule'], k['instance']): k for k in known.get('findings', [])}

        viol = [o for o in self.obls if o['status'] == 'violated']
        if only is not None:
            viol = [o for o in viol if (o['rule'], o['instance']) == only]
        new = []
        lines = []
        for o in viol:
            kf = known_set.get((self.prop, o['rule'], o['instance']))
            if kf is not None:
                lines.append('KNOWN-FINDING: property=%s %s [%s] %s at %s' % (self.prop, kf.get('what', ''), o['rule'], o['instance'], o['loc']))
                o['known_finding'] = True
            else:
                new.append(o)
        os.makedirs(REPLAY_DIR, exist_ok=True)
        # remove stale replay files of this property
        for f in os.listdir(REPLAY_DIR):
            if f.startswith(self.prop + '-'):
                try:
                    os.unlink(os.path.join(REPLAY_DIR, f))
                except OSError:
                    pass
        for i, o in enumerate(new):
            path = os.path.join(REPLAY_DIR, '%s-%d.json' % (self.prop, i))
            with open(path, 'w') as fh:
                json.dump(dict(property=self.prop, obligation=o, rule_description=self.rules[o['rule']]['desc']), fh, indent=1)
            lines.append('%s: [%s] %s: expected %s, found %s%s' % (o['loc'], o['rule'], o['instance'], json.dumps(o.get('expected')), json.dumps(o.get('found')),
                                                                  (' -- ' + o['detail']) if o.get('detail') else ''))
            lines.append('VIOLATION property=%s replay=%s' % (self.prop, path))

        wall = time.time() - self.t0
        held = [o for o in self.obls if o['status'] == 'held']
        distinct = len({(o['rule'], o['instance']) for o in self.obls})
        samples = []
        seen_rules = set()
        for o in self.obls:      # one sample per rule first, then violations
            if o['rule'] not in seen_rules:
                seen_rules.add(o['rule'])
                samples.append(o)
        for o in viol[:10]:
            if o not in samples:
                samples.append(o)
        cov = dict(
            explanation=explanation,
            obligations=len(self.obls),
            discharged=len(held),
            evaluations=len(self.obls),
            distinct_nontrivial=distinct,
            rule='one obligation per (rule, instance) enumerated from the current source of /repo; an obligation is non-trivial when it is '
                 'anchored in at least one construct found in the parsed program (rules that match fewer constructs than the hand-confirmed minimum abort the check); '
                 'distinct = distinct (rule, instance) pairs',
            samples=samples[:40],
            rules={rid: dict(description=r['desc'], instances=r['count'], violated=r['viol'], min_instances=r['min']) for rid, r in self.rules.items()},
            units=sorted(self.units),
            functions_analysed=len(self.functions),
            configurations=sorted(self.configs),
            exhaustive=True,
            notes=self.notes,
        )
        cov.update(self.extra)
        if self.level == 'proof':
            cov['checker_cmd'] = checker_cmd or ''
            cov['trusted_base'] = trusted_base or []
        ev = dict(property_id=self.prop, tier=self.tier, seed=int(os.environ.get('VERIF_SEED', '0') or 0), level=self.level,
                  coverage=cov, assumptions=self.assumptions, wall_s=round(wall, 3), violations=len(new))
        if self.broken:
            ev['analysis_broken'] = self.broken
        if only is None:
            os.makedirs(EVIDENCE_DIR, exist_ok=True)
            with open(os.path.join(EVIDENCE_DIR, self.prop + '.json'), 'w') as fh:
                json.dump(ev, fh, indent=1)
        for ln in lines:
            print(ln)
        if self.broken:
            for b in self.broken:
                print('ANALYSIS-BROKEN property=%s %s' % (self.prop, b))
            if not new:
                return 2
        print('%s %s: %d obligations over %d rules, %d held, %d violated (%d known findings), %.1fs'
              % (self.prop, self.tier, len(self.obls), len(self.rules), len(held), len(viol), len(viol) - len(new), wall))
        return 1 if new else 0


# ---------------------------------------------------------------------------------------------------------------------------
# per-tree memo of expensive rules that several properties share

_CODE_HASH = [None]


def _code_hash():
    if _CODE_HASH[0] is None:
        import hashlib
        h = hashlib.sha256()
        for sub in ('rules', 'lib', 'support'):
            d = os.path.join(VERIF, sub)
            for dp, dn, fn in os.walk(d):
                dn.sort()
                for f in sorted(fn):
                    if f.endswith(('.py', '.json')):
                        with open(os.path.join(dp, f), 'rb') as fh:
                            h.update(f.encode() + b'\0' + hashlib.sha256(fh.read()).digest())
        _CODE_HASH[0] = h.hexdigest()[:16]
    return _CODE_HASH[0]


def memo_rule(ctx, R, name, fn):
    """Runs fn(R2) on a scratch report once per analysed tree (the cache directory is keyed by the content of the tree and of the extractors; the file name by
    the checker's own code, the tier and the strict-family switch) and replays its rules / obligations / evidence into R.  An analysis-broken outcome is never stored."""
    d = os.path.join(ctx.cdir, 'rulememo')
    path = os.path.join(d, '%s.%s.%s%s.json' % (re_safe(name), ctx.tier, _code_hash(), '.strict' if os.environ.get('RXVERIF_STRICT_FAMILY') else ''))
    data = None
    if os.path.exists(path):
        try:
            with open(path) as fh:
                data = json.load(fh)
        except (OSError, ValueError):
            data = None
    if data is None:
        R2 = Report(R.prop, R.tier, R.level)
        fn(R2)
        data = dict(rules=[(rid, r['desc'], r['min']) for rid, r in R2.rules.items()], obls=R2.obls, functions=sorted(R2.functions), units=sorted(R2.units), configs=sorted(R2.configs),
                    assumptions=R2.assumptions, notes=R2.notes, extra=R2.extra, broken=R2.broken)
        if not R2.broken:
            try:
                os.makedirs(d, exist_ok=True)
                tmp = '%s.%d.tmp' % (path, os.getpid())
                with open(tmp, 'w') as fh:
                    json.dump(data, fh)
                os.replace(tmp, path)
            except (OSError, TypeError, ValueError):
                pass
    for rid, desc, mn in data['rules']:
        R.rule(rid, desc, mn)
    for o in data['obls']:
        R._add(o['status'], o['instance'], o['loc'], o.get('expected'), o.get('found'), o.get('detail', ''), o['rule'])
    R.functions.update(data['functions'])
    R.units.update(data['units'])
    R.configs.update(data['configs'])
    for a in data['assumptions']:
        R.assume(a)
    for n_ in data['notes']:
        R.note(n_)
    for k_, v_ in data['extra'].items():
        if isinstance(v_, dict) and isinstance(R.extra.get(k_), dict):
            R.extra[k_].update(v_)
        else:
            R.extra[k_] = v_
    for b in data.get('broken', []):
        R.fail_analysis(b)


def re_safe(s):
    import re as _re
    return _re.sub(r'[^A-Za-z0-9_.-]', '_', s)


def memoised(name):
    def deco(fn):
        def wrapper(ctx, R, *args):
            key = name + ''.join('.' + str(a) for a in args if isinstance(a, (str, int)))
            return memo_rule(ctx, R, key, lambda R2: fn(ctx, R2, *args))
        wrapper.__name__ = fn.__name__
        wrapper.__doc__ = fn.__doc__
        return wrapper
    return deco
