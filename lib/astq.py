"""Queries over the resolved-AST facts produced by tools/rxast.cc."""
import json
import os
import re

from core import AnalysisBroken

NOOP_CASTS = {'LValueToRValue', 'NoOp', 'FunctionToPointerDecay', 'ArrayToPointerDecay', 'BuiltinFnToFnPtr',
              'ConstructorConversion', 'UserDefinedConversion', 'DerivedToBase', 'UncheckedDerivedToBase', 'BaseToDerived'}


def is_node(x):
    return isinstance(x, dict) and 'k' in x


def children(n):
    """Direct child nodes in evaluation/source order."""
    out = []
    for key, v in n.items():
        if key in ('ty', 'k', 'ln', 'v'):
            continue
        if is_node(v):
            out.append(v)
        elif isinstance(v, list):
            for x in v:
                if is_node(x):
                    out.append(x)
                elif isinstance(x, dict):
                    # decl records / catch handlers
                    for vv in x.values():
                        if is_node(vv):
                            out.append(vv)
    return out


def walk(n):
    """Pre-order traversal over all nodes below (and including) n."""
    if not is_node(n):
        return
    stack = [n]
    while stack:
        x = stack.pop()
        yield x
        ch = children(x)
        stack.extend(reversed(ch))


def strip(n, explicit=False):
    """Skip value-preserving casts (and, if explicit, all casts)."""
    while is_node(n) and n['k'] == 'Cast' and (explicit or n.get('ck') in NOOP_CASTS or (n.get('impl') and n.get('ck') in ('IntegralCast', 'NoOp'))):
        n = n['e']
    return n


def strip_all(n):
    while is_node(n) and n['k'] == 'Cast':
        n = n['e']
    return n


def val(n):
    """Folded integer value of an expression, or None."""
    if not is_node(n):
        return None
    if 'v' in n:
        return n['v']
    if n['k'] == 'Cast':
        return val(n['e']) if n.get('ck') in NOOP_CASTS else None
    return None


def loc(n, fn=None):
    f = n.get('f') or (fn['file'] if fn else '?')
    return '%s:%s' % (f, n.get('ln', '?'))


_REN = [None]
_NOCAST = [False]


class nocasts:
    """with nocasts(): show() drops explicit casts too (comparisons that are about data flow, not types)"""

    def __enter__(self):
        self.prev = _NOCAST[0]
        _NOCAST[0] = True

    def __exit__(self, *a):
        _NOCAST[0] = self.prev


class renaming:
    """with renaming({decl id: canonical name}): show(...) prints locals/params by role, so that a
    rule comparing unparsed expressions is insensitive to identifier renames."""

    def __init__(self, m):
        self.m = m

    def __enter__(self):
        self.prev = _REN[0]
        _REN[0] = self.m

    def __exit__(self, *a):
        _REN[0] = self.prev


def show(n, depth=0):
    """Normalised unparse of an expression (implicit casts dropped, callees resolved)."""
    if n is None:
        return ''
    if not is_node(n):
        return str(n)
    k = n['k']
    if depth > 40:
        return '...'
    d = depth + 1
    if k == 'Ref' and _REN[0] and n.get('id') in _REN[0]:
        return _REN[0][n['id']]
    if k == 'Cast':
        if n.get('impl') or n.get('ck') in NOOP_CASTS or n.get('ck') == 'BitCast' or _NOCAST[0]:
            return show(n['e'], d)
        return '(%s)%s' % (n.get('ty', '?'), show(n['e'], d))
    if k in ('Int', 'Bool'):
        return str(n.get('v'))
    if k == 'Float':
        return n.get('fv', '?')
    if k == 'Str':
        return '"%s"' % n.get('s', '')
    if k == 'Null':
        return 'nullptr'
    if k == 'Ref':
        return n.get('q') or n.get('n')
    if k == 'Mem':
        b = n.get('b')
        if n['m'] == '':
            return show(b, d)
        while is_node(b) and strip_all(b)['k'] == 'Mem' and strip_all(b)['m'] == '':
            b = strip_all(b)['b']        # member of an anonymous union/struct
        if is_node(b) and strip_all(b)['k'] == 'This':
            return 'this->' + n['m']
        return '%s%s%s' % (show(b, d), '->' if n.get('arrow') else '.', n['m'])
    if k == 'This':
        return 'this'
    if k == 'Call':
        args = ', '.join(show(a, d) for a in n.get('a', []))
        name = n.get('fn') or ('(*%s)' % show(n.get('callee'), d))
        if 'this' in n and n['this'] is not None:
            t = n['this']
            ts = show(t, d)
            if n.get('opcall'):
                op = n['opcall']
                if op == '()':
                    return '%s(%s)' % (ts, args)
                if op == '[]':
                    return '%s[%s]' % (ts, args)
                return '(%s %s %s)' % (ts, op, args)
            return '%s.%s(%s)' % (ts, n.get('name', name), args)
        return '%s(%s)' % (name, args)
    if k in ('Bin', 'Assign', 'CAssign'):
        return '(%s %s %s)' % (show(n['l'], d), n['op'], show(n['r'], d))
    if k == 'Un':
        if n.get('post'):
            return '%s%s' % (show(n['e'], d), n['op'])
        return '%s%s' % (n['op'], show(n['e'], d))
    if k == 'Cond':
        return '(%s ? %s : %s)' % (show(n['c'], d), show(n['t'], d), show(n['f'], d))
    if k == 'Idx':
        return '%s[%s]' % (show(n['b'], d), show(n['i'], d))
    if k == 'SizeOf':
        return 'sizeof(%s)' % (n.get('argty') or show(n.get('arg'), d))
    if k == 'InitList':
        return '{%s}' % ', '.join(show(x, d) for x in n.get('e', []))
    if k == 'Construct':
        return '%s(%s)' % (n.get('ty', 'T'), ', '.join(show(x, d) for x in n.get('a', [])))
    if k == 'New':
        return 'new %s%s' % (n.get('aty'), '(...)' if n.get('hasinit') else '')
    if k == 'Delete':
        return 'delete %s' % show(n.get('e'), d)
    if k == 'Decl':
        return '; '.join('%s %s%s' % (x.get('ty', ''), (_REN[0] or {}).get(x.get('id'), x.get('name', '')), (' = ' + show(x['init'], d)) if 'init' in x else '') for x in n.get('d', []))
    if k == 'Return':
        return 'return %s' % show(n.get('e'), d)
    if k == 'Throw':
        return 'throw %s' % n.get('tty', '')
    if k == 'ValueInit':
        return '%s()' % n.get('ty')
    return '<%s>' % k


def showv(n):
    """show(), but folded constants replace constant sub-expressions."""
    return show(fold(n))


def fold(n):
    """Copy of n where every sub-expression with a folded value becomes an Int literal."""
    if not is_node(n):
        return n
    if 'v' in n and n['k'] not in ('Int', 'Bool'):
        return {'k': 'Int', 'v': n['v'], 'ty': n.get('ty'), 'ln': n.get('ln')}
    out = {}
    for key, v in n.items():
        if is_node(v):
            out[key] = fold(v)
        elif isinstance(v, list):
            out[key] = [fold(x) if is_node(x) else ({k2: (fold(v2) if is_node(v2) else v2) for k2, v2 in x.items()} if isinstance(x, dict) else x) for x in v]
        else:
            out[key] = v
    return out


# ---------------------------------------------------------------------------------------------
_PINNED = [None]
PINNED_FILE = os.path.join(os.path.dirname(os.path.dirname(os.path.abspath(__file__))), 'support', 'pinned_names.json')


def pinned_names():
    """(function key) -> names of its parameters and locals on the pinned tree, in declaration order (support/pinned_names.json, generated by
    tools/gen_pinned_names.py).  Local identifiers carry no meaning; every function whose number of parameters / locals is unchanged is
    alpha-renamed to the reference names when its facts are loaded, so that no rule depends on what a local happens to be called."""
    if _PINNED[0] is None:
        try:
            with open(PINNED_FILE) as fh:
                _PINNED[0] = json.load(fh)
        except (OSError, ValueError):
            _PINNED[0] = {}
    return _PINNED[0]


def local_decl_list(f):
    out = [('p', p) for p in f.get('params', [])]
    if f.get('body') is not None:
        for x in walk(f['body']):
            if x['k'] == 'Decl':
                for d in x['d']:
                    out.append(('d', d))
    return out


def fkey(f):
    file = f.get('file', '')
    i = file.find('/src/')
    return '%s|%s|%s' % (f['q'], f.get('sig', ''), file[i + 1:] if i >= 0 else os.path.basename(file))


PURE_Q = set()
PURE_CALL = re.compile(r'^(operator[&|^~!=<>+\-*/%]+|isZeroOrPowerOf2|size|operator\[\]|min|max|static_cast|signExtend2sCompl|unsigned32ToSigned2sCompl|Log2|maskLog2|alignSize|rv[ic]|rvrd|rvrs[12]|rvcrs|reg[A-Z]\w*)$')


def _written_things(f):
    """(ids of locals/params that are written after their declaration, show-strings of member / element lvalues written anywhere)"""
    ids, paths = set(), set()
    for x in walk(f['body']):
        tgt = None
        if x['k'] in ('Assign', 'CAssign'):
            tgt = x['l']
        elif x['k'] == 'Un' and ('++' in x.get('op', '') or '--' in x.get('op', '') or x.get('op') == '&'):
            tgt = x['e']
        if tgt is None:
            continue
        t = strip_all(tgt)
        while t['k'] in ('Idx',) and is_node(t.get('b')):
            paths.add(show(t))
            t = strip_all(t['b'])
        if t['k'] == 'Ref' and t.get('id') is not None:
            ids.add(t['id'])
        else:
            paths.add(show(t))
    return ids, paths


def _pure_expr(n, written_ids, written_paths):
    for x in walk(n):
        k = x['k']
        if k in ('Assign', 'CAssign', 'New', 'Throw', 'Lambda', 'OtherExpr', 'Delete'):
            return False
        if k == 'Un' and ('++' in x.get('op', '') or '--' in x.get('op', '')):
            return False
        if k == 'Call':
            nm = x.get('name') or ''
            if not (PURE_CALL.match(nm) or x.get('fn') in PURE_Q or x.get('builtin') and nm.startswith('__builtin_') and 'mem' not in nm):
                return False
        if k == 'Ref' and x.get('id') is not None and x['id'] in written_ids:
            return False
        if k in ('Mem', 'Idx') and show(x) in written_paths:
            return False
    return True


def _bool_core(n):
    """X for an expression of the form (X != 0) / (bool)X used where only its truth value matters"""
    m = strip_all(n)
    if m['k'] == 'Bin' and m['op'] == '!=' and val(m['r']) == 0:
        return m['l']
    return n


def _substitute(node, repl):
    """in-place: every Ref whose id is in repl becomes a deep copy of the replacement expression; where the use is a condition, a replacement
    `X != 0` is reduced to X (same truth value)"""
    import copy
    if not is_node(node):
        return
    if node['k'] in ('If', 'While', 'Cond', 'For', 'Do') and is_node(node.get('c')):
        c = strip_all(node['c'])
        if c['k'] == 'Ref' and c.get('id') in repl:
            node['c'] = copy.deepcopy(_bool_core(repl[c['id']]))
    if node['k'] == 'Un' and node.get('op') == '!' and is_node(node.get('e')):
        c = strip_all(node['e'])
        if c['k'] == 'Ref' and c.get('id') in repl:
            node['e'] = copy.deepcopy(_bool_core(repl[c['id']]))
    if node['k'] == 'Bin' and node.get('op') in ('&&', '||'):
        for side in ('l', 'r'):
            c = strip_all(node[side])
            if c['k'] == 'Ref' and c.get('id') in repl:
                node[side] = copy.deepcopy(_bool_core(repl[c['id']]))
    for key, v in list(node.items()):
        if is_node(v):
            if v['k'] == 'Ref' and v.get('id') in repl:
                node[key] = copy.deepcopy(repl[v['id']])
            else:
                _substitute(v, repl)
        elif isinstance(v, list):
            for i, x in enumerate(v):
                if is_node(x):
                    if x['k'] == 'Ref' and x.get('id') in repl:
                        v[i] = copy.deepcopy(repl[x['id']])
                    else:
                        _substitute(x, repl)
                elif isinstance(x, dict):
                    for k2, v2 in list(x.items()):
                        if is_node(v2):
                            if v2['k'] == 'Ref' and v2.get('id') in repl:
                                x[k2] = copy.deepcopy(repl[v2['id']])
                            else:
                                _substitute(v2, repl)


def inline_new_temporaries(f, ent):
    """A refactoring that names a sub-expression (const bool storeL1L2 = cond; ...) must not change any verdict.  Locals that do not exist on the pinned
    tree, are initialised once with a side-effect-free expression over things the function never writes, and are never written again are substituted
    back into their uses before any rule looks at the function.  (Loads from buffers, calls with effects and anything reassigned are left alone.)"""
    known = set(name for kind, name in ent if kind == 'd')
    written_ids, written_paths = _written_things(f)
    # a loop counter is only written by the increment of its own `for`: inside the body it is as good as a constant
    only_inc = set()
    inc_writes = {}
    for x in walk(f['body']):
        if x['k'] == 'For' and (is_node(x.get('inc')) or is_node(x.get('init'))):
            for y in [z for part in (x.get('inc'), x.get('init')) if is_node(part) for z in walk(part)]:
                t_ = None
                if y['k'] in ('Assign', 'CAssign'):
                    t_ = strip_all(y['l'])
                elif y['k'] == 'Un' and ('++' in y.get('op', '') or '--' in y.get('op', '')):
                    t_ = strip_all(y['e'])
                if t_ is not None and t_['k'] == 'Ref' and t_.get('id') is not None:
                    inc_writes[t_['id']] = inc_writes.get(t_['id'], 0) + 1
    tot_writes = {}
    for x in walk(f['body']):
        t_ = None
        if x['k'] in ('Assign', 'CAssign'):
            t_ = strip_all(x['l'])
        elif x['k'] == 'Un' and ('++' in x.get('op', '') or '--' in x.get('op', '')):
            t_ = strip_all(x['e'])
        if t_ is not None and t_['k'] == 'Ref' and t_.get('id') is not None:
            tot_writes[t_['id']] = tot_writes.get(t_['id'], 0) + 1
    for i_, n_ in inc_writes.items():
        if tot_writes.get(i_) == n_:
            only_inc.add(i_)
    written_ids = written_ids - only_inc
    changed = False
    for _round in range(4):
        repl = {}
        for x in walk(f['body']):
            if x['k'] != 'Decl':
                continue
            for d in x['d']:
                if d.get('name') in known or 'init' not in d or d.get('id') in written_ids or d.get('static') or d.get('arrlen') is not None:
                    continue
                ty = d.get('ty') or ''
                if '&' in ty and 'const' not in ty:
                    continue
                if _pure_expr(d['init'], written_ids, written_paths):
                    repl[d['id']] = d['init']
        if not repl:
            break
        changed = True
        # a new temporary may be defined in terms of another one: close the replacements first
        for _ in range(6):
            dirty = False
            for k_ in list(repl):
                holder = {'k': 'Cast', 'ck': 'NoOp', 'impl': True, 'e': repl[k_]}
                if any(y['k'] == 'Ref' and y.get('id') in repl and y.get('id') != k_ for y in walk(holder['e'])):
                    import copy as _copy
                    holder = {'k': 'Cast', 'ck': 'NoOp', 'impl': True, 'e': _copy.deepcopy(repl[k_])}
                    _substitute(holder, {i_: v_ for i_, v_ in repl.items() if i_ != k_})
                    repl[k_] = holder['e']
                    dirty = True
            if not dirty:
                break
        for x in walk(f['body']):
            if x['k'] == 'Decl':
                x['d'] = [d for d in x['d'] if d.get('id') not in repl]
        _substitute(f['body'], repl)
        for i in f.get('inits', []) or []:
            if is_node(i.get('e')):
                _substitute(i, repl)

    def prune(n):
        if not is_node(n):
            return
        if n['k'] == 'Compound':
            n['s'] = [x for x in n['s'] if not (x['k'] == 'Decl' and not x['d'])]
        for c in children(n):
            prune(c)
    if changed:
        prune(f['body'])
    return changed


_PLOOPS = [None]


def pinned_loops():
    if _PLOOPS[0] is None:
        try:
            with open(os.path.join(os.path.dirname(PINNED_FILE), 'pinned_loops.json')) as fh:
                _PLOOPS[0] = json.load(fh)
        except (OSError, ValueError):
            _PLOOPS[0] = {}
    return _PLOOPS[0]


def _writes_var(n, vid):
    n = strip_all(n)
    if n['k'] == 'Un' and ('++' in n.get('op', '') or '--' in n.get('op', '')):
        t = strip_all(n['e'])
        return t['k'] == 'Ref' and t.get('id') == vid
    if n['k'] in ('CAssign', 'Assign'):
        t = strip_all(n['l'])
        return t['k'] == 'Ref' and t.get('id') == vid
    return False


def canonicalise_loops(f, config):
    """`for (init; c; inc) body` and `init; while (c) { body; inc; }` are the same loop.  Where the sequence of loop forms of a function differs from the
    pinned tree only in that respect, the loops are rewritten to the pinned form before any rule looks at them."""
    want = pinned_loops().get(config + '|' + fkey(f))
    if not want:
        return
    have = [x for x in walk(f['body']) if x['k'] in ('For', 'While', 'Do')]
    if len(have) != len(want) or [x['k'] for x in have] == want:
        return
    todo = {id(x): w for x, w in zip(have, want) if x['k'] != w}

    def rewrite(comp):
        if not is_node(comp):
            return
        if comp['k'] == 'Compound':
            out = []
            for st in comp['s']:
                w = todo.get(id(st))
                if w == 'For' and st['k'] == 'While':
                    body = st['b']['s'] if st['b']['k'] == 'Compound' else [st['b']]
                    cvars = [y.get('id') for y in walk(st['c']) if y['k'] == 'Ref' and y.get('id') is not None]
                    last = body[-1] if body else None
                    prev = out[-1] if out else None
                    vid = None
                    if last is not None:
                        for v_ in cvars:
                            if _writes_var(last, v_):
                                vid = v_
                    ok = vid is not None and not any(y['k'] == 'Continue' for y in walk(st['b']))
                    init = None
                    if ok and prev is not None:
                        if prev['k'] == 'Decl' and len(prev['d']) == 1 and prev['d'][0].get('id') == vid and 'init' in prev['d'][0]:
                            init = prev
                        elif strip_all(prev)['k'] == 'Assign' and _writes_var(prev, vid):
                            init = prev
                    if ok:
                        if init is not None:
                            out.pop()
                        new = {'k': 'For', 'ln': st.get('ln'), 'init': init, 'c': st['c'], 'inc': last, 'b': {'k': 'Compound', 'ln': st['b'].get('ln'), 's': body[:-1]}}
                        if init is None:
                            del new['init']
                        out.append(new)
                        rewrite(new['b'])
                        continue
                if w == 'While' and st['k'] == 'For' and not any(y['k'] == 'Continue' for y in walk(st['b'])):
                    body = st['b']['s'] if st['b']['k'] == 'Compound' else [st['b']]
                    if is_node(st.get('init')):
                        out.append(st['init'])
                    nb = list(body) + ([st['inc']] if is_node(st.get('inc')) else [])
                    new = {'k': 'While', 'ln': st.get('ln'), 'c': st.get('c') or {'k': 'Int', 'v': 1, 'ty': 'int'}, 'b': {'k': 'Compound', 'ln': st['b'].get('ln'), 's': nb}}
                    out.append(new)
                    rewrite(new['b'])
                    continue
                out.append(st)
                rewrite(st)
            comp['s'] = out
            return
        for c in children(comp):
            rewrite(c)
    rewrite(f['body'])


def canonicalise_locals(f, pinned, config=''):
    if f.get('_canon') or f.get('body') is None:
        return
    f['_canon'] = True
    try:
        canonicalise_loops(f, config)
    except RecursionError:
        pass
    ent = pinned.get(config + '|' + fkey(f))
    if ent is None:
        ent = pinned.get(fkey(f))
    if ent is None:
        return
    decls = local_decl_list(f)
    if len(decls) > len(ent):
        try:
            if inline_new_temporaries(f, ent):
                decls = local_decl_list(f)
        except RecursionError:
            pass
    if len(decls) != len(ent) or [k for k, _ in decls] != [e[0] for e in ent]:
        return        # the function changed shape: keep its own names (rules that need a role find it structurally or give up with exit 2)
    ren = {}
    pinned_set = set(name for _k, name in ent)
    for (kind, d), (k2, name) in zip(decls, ent):
        if d.get('name') != name and d.get('id') is not None:
            if d.get('name') in pinned_set:
                return    # same identifiers in a different order (a declaration was moved): nothing was renamed, leave the names alone
            ren[d['id']] = name
    for (kind, d), (k2, name) in zip(decls, ent):
        if d.get('id') in ren:
            d['name'] = name
    if not ren:
        return
    for x in walk(f['body']):
        if x['k'] == 'Ref' and x.get('id') in ren:
            x['n'] = ren[x['id']]
    for i in f.get('inits', []) or []:
        if is_node(i.get('e')):
            for x in walk(i['e']):
                if x['k'] == 'Ref' and x.get('id') in ren:
                    x['n'] = ren[x['id']]


def inline_new_helpers(F, pinned):
    """A refactoring that extracts a pure expression into a new small helper (`static inline uint32_t col(a, b, c, d) { return T0[a] ^ ...; }`, a private
    predicate member) must not change any verdict: functions that do not exist on the pinned tree and whose body is a single `return <side-effect-free
    expression>;` are substituted back into their call sites (arguments must be simple, or the parameter used at most once)."""
    import copy
    known_q = F.__dict__.setdefault('_pinned_q', None)
    if known_q is None:
        known_q = set('|'.join(k.split('|')[1:-2]) for k in pinned if k.count('|') >= 3)
        F._pinned_q = known_q
    if not known_q:
        return
    helpers = {}
    for q, fs in F._funcs.items():
        if q in known_q:
            continue
        for f in fs:
            b = f.get('body')
            if b is None or '/src/' not in f.get('file', ''):
                continue
            st = b['s'] if b['k'] == 'Compound' else [b]
            st = [x for x in st if x['k'] != 'Null']
            if len(st) == 1 and st[0]['k'] == 'Return' and is_node(st[0].get('e')) and _pure_expr(st[0]['e'], set(), set()):
                helpers[q] = f
                break
    if not helpers:
        inline_new_statement_helpers(F, known_q, set())
        return

    def simple(a):
        a = strip_all(a)
        return a['k'] in ('Ref', 'Int', 'Bool', 'Mem', 'This') or 'v' in a

    def expand(node):
        if not is_node(node):
            return
        for key, v in list(node.items()):
            if is_node(v):
                r = try_inline(v)
                if r is not None:
                    node[key] = r
                    expand(node[key])
                else:
                    expand(v)
            elif isinstance(v, list):
                for i, x in enumerate(v):
                    if is_node(x):
                        r = try_inline(x)
                        if r is not None:
                            v[i] = r
                            expand(v[i])
                        else:
                            expand(x)
                    elif isinstance(x, dict):
                        for k2, v2 in list(x.items()):
                            if is_node(v2):
                                r = try_inline(v2)
                                if r is not None:
                                    x[k2] = r
                                    expand(x[k2])
                                else:
                                    expand(v2)

    def try_inline(c):
        if c['k'] != 'Call' or c.get('fn') not in helpers:
            return None
        h = helpers[c['fn']]
        if is_node(c.get('this')) and strip_all(c['this'])['k'] != 'This':
            return None
        args = c.get('a', [])
        if len(args) != len(h['params']):
            return None
        expr = copy.deepcopy(h['body']['s'][0]['e'] if h['body']['k'] == 'Compound' else h['body']['e'])
        uses = {}
        for x in walk(expr):
            if x['k'] == 'Ref' and x.get('id') is not None:
                uses[x['id']] = uses.get(x['id'], 0) + 1
        repl = {}
        for prm, a in zip(h['params'], args):
            if uses.get(prm['id'], 0) > 1 and not simple(a):
                return None
            repl[prm['id']] = a
        wrap = {'k': 'Cast', 'ck': 'NoOp', 'impl': True, 'ty': expr.get('ty'), 'e': expr, 'ln': c.get('ln')}
        _substitute(wrap, repl)
        return wrap['e']

    for q, fs in F._funcs.items():
        if q in helpers:
            continue
        for f in fs:
            if f.get('body') is not None and not f.get('_helpers_inlined'):
                f['_helpers_inlined'] = True
                if any(x['k'] == 'Call' and x.get('fn') in helpers for x in walk(f['body'])):
                    expand(f['body'])
    inline_new_statement_helpers(F, known_q, set(helpers))


def inline_new_statement_helpers(F, known_q, done):
    """The same for helpers that are a few statements long (`static void put_u32(state, v) { store32(&t, v); update(state, &t, 4); }`,
    `static void* checked(void* p) { if (!p) throw ...; return p; }`): a call that is a whole statement, the operand of a return, or the right-hand side of a
    plain assignment / initialisation is replaced by the helper's statements.  Only for functions that do not exist on the pinned tree, with simple arguments."""
    import copy
    helpers = {}
    for q, fs in F._funcs.items():
        if q in known_q or q in done:
            continue
        for f in fs:
            b = f.get('body')
            if b is None or '/src/' not in f.get('file', '') or b['k'] != 'Compound':
                continue
            st = [x for x in b['s'] if x['k'] != 'Null']
            if not st or len(list(walk(b))) > 400:
                continue
            if any(x['k'] == 'Call' and x.get('fn') == q for x in walk(b)):
                continue
            rets = [x for x in walk(b) if x['k'] == 'Return']
            helpers[q] = dict(f=f, stmts=st, rets=rets, tail_ret=(st[-1]['k'] == 'Return' and len(rets) == 1))
            break
    if not helpers:
        return

    def simple(a):
        a = strip_all(a)
        while a['k'] == 'Un' and a.get('op') in ('&', '*'):
            a = strip_all(a['e'])
        return a['k'] in ('Ref', 'Int', 'Bool', 'Mem', 'This', 'Null', 'Str') or 'v' in a

    def instantiate(h, call):
        args = call.get('a', [])
        f = h['f']
        if len(args) != len(f['params']):
            return None
        if is_node(call.get('this')) and strip_all(call['this'])['k'] != 'This':
            return None
        body = copy.deepcopy(h['stmts'])
        wrap = {'k': 'Compound', 's': body, 'ln': call.get('ln')}
        _substitute(wrap, {p['id']: a for p, a in zip(f['params'], args) if simple(a)})
        # an argument with effects (a call) is evaluated once, into the parameter, exactly as the call would have done
        pre = [{'k': 'Decl', 'ln': call.get('ln'), 'd': [{'name': p.get('name'), 'id': p['id'], 'ty': p.get('ty'), 'static': False, 'tls': False, 'const': False, 'init': a}]}
               for p, a in zip(f['params'], args) if not simple(a)]
        wrap['s'] = pre + wrap['s']
        return wrap

    def call_of(e):
        e = strip_all(e) if is_node(e) else None
        while e is not None and e['k'] == 'Cast':
            e = strip_all(e['e'])
        return e if e is not None and e['k'] == 'Call' and e.get('fn') in helpers else None

    def rewrite(comp):
        if not is_node(comp):
            return
        if comp['k'] == 'Compound':
            out = []
            for st in comp['s']:
                top = strip_all(st)
                c = call_of(st) if st['k'] not in ('Return', 'Decl', 'If', 'For', 'While', 'Do', 'Compound', 'Switch') else None
                if c is not None and not helpers[c['fn']]['rets'] or (c is not None and helpers[c['fn']]['tail_ret'] and not is_node(helpers[c['fn']]['stmts'][-1].get('e'))):
                    w = instantiate(helpers[c['fn']], c)
                    if w is not None:
                        out += [x for x in w['s'] if x['k'] != 'Return']
                        continue
                if st['k'] == 'Return' and call_of(st.get('e')) is not None:
                    c = call_of(st['e'])
                    w = instantiate(helpers[c['fn']], c)
                    if w is not None:
                        out += w['s']
                        continue
                if top['k'] == 'Assign' and call_of(top['r']) is not None and helpers[call_of(top['r'])['fn']]['tail_ret']:
                    c = call_of(top['r'])
                    w = instantiate(helpers[c['fn']], c)
                    if w is not None and is_node(w['s'][-1].get('e')):
                        out += w['s'][:-1]
                        new = dict(top)
                        new['r'] = w['s'][-1]['e']
                        out.append(new)
                        continue
                if st['k'] == 'Decl' and len(st['d']) == 1 and 'init' in st['d'][0] and call_of(st['d'][0]['init']) is not None and helpers[call_of(st['d'][0]['init'])['fn']]['tail_ret']:
                    c = call_of(st['d'][0]['init'])
                    w = instantiate(helpers[c['fn']], c)
                    if w is not None and is_node(w['s'][-1].get('e')):
                        out += w['s'][:-1]
                        nd = dict(st)
                        d0 = dict(st['d'][0])
                        d0['init'] = w['s'][-1]['e']
                        nd['d'] = [d0]
                        out.append(nd)
                        continue
                out.append(st)
            comp['s'] = out
            for st in comp['s']:
                rewrite(st)
            return
        for c in children(comp):
            rewrite(c)

    for q, fs in F._funcs.items():
        if q in helpers:
            continue
        for f in fs:
            if f.get('body') is not None and not f.get('_stmt_helpers_inlined'):
                f['_stmt_helpers_inlined'] = True
                if any(x['k'] == 'Call' and x.get('fn') in helpers for x in walk(f['body'])):
                    rewrite(f['body'])


class Facts:
    """Index over the facts of several units of one configuration."""

    def __init__(self, ctx, config='K0', units=None):
        self.ctx = ctx
        self.config = config
        self.units = units or ctx.ast_units(config)
        self._funcs = None

    def unit(self, rel):
        return self.ctx.ast(rel, self.config)

    def _index(self):
        if self._funcs is not None:
            return
        self._funcs = {}
        self._globals = {}
        self._records = {}
        self._enums = {}
        self._macros = {}
        pinned = pinned_names()
        for rel in self.units:
            u = self.unit(rel)
            for f in u['functions']:
                f['_unit'] = rel
                # prefer the definition in the unit whose name matches the file (stable choice)
                self._funcs.setdefault(f['q'], []).append(f)
            for g in u['globals']:
                g['_unit'] = rel
                cur = self._globals.get(g['q'])
                if cur is None or ('init' in g and 'init' not in cur):
                    self._globals[g['q']] = g
            for r in u['records']:
                r['_unit'] = rel
                key = r['q'] if not r['q'].startswith('(') else '%s@%s:%s' % (r['q'], r.get('file'), r.get('line'))
                self._records.setdefault(key, r)
            for e in u['enums']:
                self._enums.setdefault(e['q'], e)
            for m in u['macros']:
                self._macros.setdefault(m['name'], m)
        # functions whose calls may be duplicated or moved by the normalisations: const member functions and one-line getters without effects
        for q, fs in self._funcs.items():
            for f in fs:
                b = f.get('body')
                if b is None:
                    continue
                st = [x for x in (b['s'] if b['k'] == 'Compound' else [b]) if x['k'] != 'Null']
                one_ret = len(st) == 1 and st[0]['k'] == 'Return' and is_node(st[0].get('e')) and not any(
                    y['k'] in ('Call', 'Assign', 'CAssign', 'New', 'Throw') or (y['k'] == 'Un' and ('++' in y.get('op', '') or '--' in y.get('op', ''))) for y in walk(st[0]['e']))
                if one_ret or str(f.get('sig', '')).rstrip().endswith('const'):
                    PURE_Q.add(q)
        for q, fs in self._funcs.items():
            for f in fs:
                canonicalise_locals(f, pinned, self.config)
        inline_new_helpers(self, pinned)

    def func(self, q, unit=None):
        """The function with exactly this qualified name (incl. template args)."""
        self._index()
        fs = self._funcs.get(q)
        if not fs:
            raise AnalysisBroken('anchor function not found: %s (config %s)' % (q, self.config))
        if unit:
            for f in fs:
                if f['_unit'] == unit:
                    return f
        return fs[0]

    def in_file(self, suffix):
        """every function definition (all overloads, all same-named statics of different units) whose file ends with suffix"""
        self._index()
        out = []
        seen = set()
        for q, fs in sorted(self._funcs.items()):
            for f in fs:
                if f.get('body') is not None and f['file'].endswith(suffix):
                    k = (q, f.get('sig'), f['file'], f['line'])
                    if k not in seen:
                        seen.add(k)
                        out.append(f)
        return out

    def overloads(self, q):
        """distinct definitions (by signature) that share this qualified name"""
        self._index()
        seen = {}
        for f in self._funcs.get(q, []):
            if f.get('body') is not None or f.get('sig') not in seen:
                seen.setdefault(f.get('sig'), f)
                if f.get('body') is not None:
                    seen[f.get('sig')] = f
        return list(seen.values())

    def has_func(self, q):
        self._index()
        return q in self._funcs

    def funcs(self, pattern):
        """All distinct functions whose qualified name matches the regex (one per name)."""
        self._index()
        rx = re.compile(pattern)
        return [fs[0] for q, fs in sorted(self._funcs.items()) if rx.search(q)]

    def all_funcs(self):
        self._index()
        return [fs[0] for q, fs in sorted(self._funcs.items())]

    def glob(self, q):
        self._index()
        g = self._globals.get(q)
        if g is None:
            raise AnalysisBroken('anchor global not found: %s (config %s)' % (q, self.config))
        return g

    def has_glob(self, q):
        self._index()
        return q in self._globals

    def globs(self, pattern):
        self._index()
        rx = re.compile(pattern)
        return [g for q, g in sorted(self._globals.items()) if rx.search(q)]

    def const(self, q):
        g = self.glob(q)
        if 'v' not in g:
            raise AnalysisBroken('global %s has no folded integer value' % q)
        return g['v']

    def record(self, q):
        self._index()
        r = self._records.get(q)
        if r is None:
            raise AnalysisBroken('anchor class not found: %s (config %s)' % (q, self.config))
        return r

    def records(self, pattern):
        self._index()
        rx = re.compile(pattern)
        return [r for q, r in sorted(self._records.items()) if rx.search(q)]

    def enum(self, q):
        self._index()
        e = self._enums.get(q)
        if e is None:
            raise AnalysisBroken('anchor enum not found: %s' % q)
        return {c['n']: c['v'] for c in e['consts']}

    def enumerator(self, name):
        """Value of an enumerator by (unqualified) name, whatever enum declares it."""
        self._index()
        hits = set()
        for e in self._enums.values():
            for c in e['consts']:
                if c['n'] == name:
                    hits.add(c['v'])
        for rel in self.units:
            for e in self.unit(rel)['enums']:
                for c in e['consts']:
                    if c['n'] == name:
                        hits.add(c['v'])
        if len(hits) != 1:
            raise AnalysisBroken('enumerator %s: %d definitions' % (name, len(hits)))
        return hits.pop()

    def macro(self, name):
        self._index()
        return self._macros.get(name)

    def macros(self):
        self._index()
        return self._macros


# ---------------------------------------------------------------------------------------------
def calls(n, must=False):
    """Call nodes below n in evaluation (pre-)order.  must=True leaves out calls that are only
    conditionally evaluated inside the expression (rhs of && / ||, arms of ?:)."""
    out = []

    def rec(x, cond):
        if not is_node(x):
            return
        k = x['k']
        if k == 'Lambda':
            return
        if k == 'Bin' and x.get('op') in ('&&', '||'):
            rec(x['l'], cond)
            rec(x['r'], True)
            return
        if k == 'Cond':
            rec(x['c'], cond)
            rec(x['t'], True)
            rec(x['f'], True)
            return
        if k == 'Call':
            # arguments are evaluated before the call itself
            for c in children(x):
                rec(c, cond)
            if not (must and cond):
                out.append(x)
            return
        for c in children(x):
            rec(c, cond)
    rec(n, False)
    return out


def callee_name(c):
    return c.get('fn') or ''


def is_unreachable_call(n):
    n = strip_all(n)
    return is_node(n) and n['k'] == 'Call' and n.get('name') in ('__builtin_unreachable', 'abort', 'exit', '_Exit', 'terminate')


# ---------------------------------------------------------------------------------------------
class CFG:
    """Statement-level control-flow graph of a structured function body.

    Nodes are the simple statements and the controlling expressions; `entry` and `exit` are
    synthetic.  Exceptions are modelled conservatively: every node of a try block may jump to
    each of its handlers.  A `throw` and a call to __builtin_unreachable have no successor
    (throw goes to the enclosing handlers if any, otherwise to `exit_throw`)."""

    def __init__(self, fn):
        self.fn = fn
        self.nodes = []     # id -> dict(kind, stmt)
        self.succ = []
        self.entry = self._new('entry', None)
        self.exit = self._new('exit', None)
        self.exit_throw = self._new('exit_throw', None)
        self._handlers = []  # stack of lists of handler entry preds collectors
        body = fn.get('body')
        if body is None:
            raise AnalysisBroken('function %s has no body' % fn['q'])
        self._labels = {}       # label name -> node id
        self._gotos = []        # (node id, label)
        for x in walk(body):
            if x['k'] == 'IndirectGoto':
                raise AnalysisBroken('indirect goto in %s: CFG builder does not apply' % fn['q'])
        # constructor member initialisers come first
        preds = {self.entry}
        for ini in fn.get('inits', []) or []:
            if is_node(ini.get('e')):
                nid = self._new('stmt', ini['e'])
                self._link(preds, nid)
                preds = {nid}
        out = self._stmt(body, preds, None, None)
        self._link(out, self.exit)
        for nid, lab in self._gotos:
            if lab not in self._labels:
                raise AnalysisBroken('goto to unknown label %s in %s' % (lab, fn['q']))
            self._link({nid}, self._labels[lab])
        self.pred = [[] for _ in self.nodes]
        for a, ss in enumerate(self.succ):
            for b in ss:
                self.pred[b].append(a)
        self._dom = None
        self._pdom = None

    def _new(self, kind, stmt):
        self.nodes.append({'kind': kind, 'stmt': stmt, 'id': len(self.nodes)})
        self.succ.append([])
        nid = len(self.nodes) - 1
        for h in getattr(self, '_handlers', []):
            h.add(nid)
        return nid

    def _link(self, preds, nid):
        for p in preds:
            if nid not in self.succ[p]:
                self.succ[p].append(nid)

    def _stmt(self, s, preds, brk, cont):
        """Returns the set of nodes from which control falls out of s."""
        if s is None or not is_node(s):
            return set(preds)
        k = s['k']
        if k == 'Compound':
            cur = set(preds)
            for x in s['s']:
                cur = self._stmt(x, cur, brk, cont)
            return cur
        if k == 'If':
            cur = set(preds)
            if s.get('init'):
                cur = self._stmt(s['init'], cur, brk, cont)
            cv = val(s['c'])
            c = self._new('cond', s['c'])
            self.nodes[c]['owner'] = s
            self._link(cur, c)
            outs = set()
            if cv is None or cv != 0:
                outs |= self._stmt(s['t'], {c}, brk, cont)
            if cv is None or cv == 0:
                if s.get('e') is not None:
                    outs |= self._stmt(s['e'], {c}, brk, cont)
                else:
                    outs.add(c)
            return outs
        if k in ('For', 'While', 'ForRange'):
            cur = set(preds)
            if k == 'For' and s.get('init') is not None:
                cur = self._stmt(s['init'], cur, brk, cont)
            if k == 'ForRange':
                r = self._new('stmt', s['range'])
                self._link(cur, r)
                cur = {r}
            c = self._new('cond', s.get('c') if k != 'ForRange' else None)
            self.nodes[c]['owner'] = s
            self._link(cur, c)
            brks = set()
            conts = set()
            body_out = self._stmt(s['b'], {c}, brks, conts)
            back = body_out | conts
            if k == 'For' and s.get('inc') is not None:
                i = self._new('stmt', s['inc'])
                self._link(back, i)
                back = {i}
            self._link(back, c)
            outs = set(brks)
            cv = val(s.get('c')) if k != 'ForRange' and s.get('c') is not None else None
            if k == 'For' and s.get('c') is None:
                cv = 1
            if cv is None or cv == 0:
                outs.add(c)
            return outs
        if k == 'Do':
            head = self._new('join', None)
            self._link(preds, head)
            brks = set()
            conts = set()
            body_out = self._stmt(s['b'], {head}, brks, conts)
            c = self._new('cond', s['c'])
            self.nodes[c]['owner'] = s
            self._link(body_out | conts, c)
            self._link({c}, head)
            return brks | {c}
        if k == 'Switch':
            c = self._new('cond', s['c'])
            self.nodes[c]['owner'] = s
            self._link(preds, c)
            brks = set()
            body = s['b']
            stmts = body['s'] if is_node(body) and body['k'] == 'Compound' else [body]
            cur = set()
            has_default = False
            for x in stmts:
                while is_node(x) and x['k'] in ('Case', 'Default'):
                    if x['k'] == 'Default':
                        has_default = True
                    lab = self._new('label', x)
                    self._link(cur | {c}, lab)
                    cur = {lab}
                    x = x['sub']
                cur = self._stmt(x, cur, brks, cont)
            outs = brks | cur
            if not has_default:
                outs.add(c)
            return outs
        if k == 'Goto':
            n = self._new('jump', s)
            self._link(preds, n)
            self._gotos.append((n, s['label']))
            return set()
        if k == 'Label':
            n = self._new('label', s)
            self._link(preds, n)
            self._labels[s['name']] = n
            return self._stmt(s['sub'], {n}, brk, cont)
        if k == 'Break':
            n = self._new('jump', s)
            self._link(preds, n)
            if brk is None:
                raise AnalysisBroken('break outside loop in %s' % self.fn['q'])
            brk.add(n)
            return set()
        if k == 'Continue':
            n = self._new('jump', s)
            self._link(preds, n)
            if cont is None:
                raise AnalysisBroken('continue outside loop in %s' % self.fn['q'])
            cont.add(n)
            return set()
        if k == 'Return':
            n = self._new('return', s)
            self._link(preds, n)
            self._link({n}, self.exit)
            return set()
        if k == 'Try':
            coll = set()
            self._handlers.append(coll)
            out = self._stmt(s['b'], preds, brk, cont)
            self._handlers.pop()
            outs = set(out)
            for h in s['h']:
                hn = self._new('catch', h)
                self._link(set(preds) | coll, hn)
                outs |= self._stmt(h['b'], {hn}, brk, cont)
            return outs
        if k in ('Case', 'Default'):
            return self._stmt(s['sub'], preds, brk, cont)
        if k == 'Null':
            return set(preds)
        # simple statement (expression / declaration)
        n = self._new('stmt', s)
        self._link(preds, n)
        term = False
        for x in walk(s):
            if x['k'] == 'Throw':
                term = True
            if x['k'] == 'Call' and x.get('name') == '__builtin_unreachable':
                term = True
        if term:
            top = strip_all(s)
            if top['k'] == 'Throw':
                if not self._handlers:
                    self._link({n}, self.exit_throw)
                return set()
            if top['k'] == 'Call' and top.get('name') == '__builtin_unreachable':
                return set()
        return {n}

    # ------------------------------------------------------------------ dominance
    def _solve(self, start, succ, pred):
        n = len(self.nodes)
        reach = set()
        st = [start]
        while st:
            x = st.pop()
            if x in reach:
                continue
            reach.add(x)
            st.extend(succ[x])
        full = set(reach)
        dom = {x: set(full) for x in reach}
        dom[start] = {start}
        changed = True
        order = sorted(reach)
        while changed:
            changed = False
            for x in order:
                if x == start:
                    continue
                ps = [p for p in pred[x] if p in reach]
                new = set(full)
                for p in ps:
                    new &= dom[p]
                new.add(x)
                if new != dom[x]:
                    dom[x] = new
                    changed = True
        return dom

    def dom(self):
        if self._dom is None:
            self._dom = self._solve(self.entry, self.succ, self.pred)
        return self._dom

    def pdom(self):
        """Post-dominators with respect to the normal exit."""
        if self._pdom is None:
            self._pdom = self._solve(self.exit, self.pred, self.succ)
        return self._pdom

    def dominates(self, a, b):
        d = self.dom()
        return b in d and a in d[b]

    def postdominates(self, a, b):
        d = self.pdom()
        return b in d and a in d[b]

    def reachable(self):
        return set(self.dom().keys())

    def stmt_nodes(self):
        return [n for n in self.nodes if n['stmt'] is not None and n['kind'] in ('stmt', 'cond', 'return')]

    def find_calls(self, pred, must=False):
        """[(node id, call node)] for calls whose resolved callee satisfies pred, in node order."""
        out = []
        for n in self.nodes:
            st = n['stmt']
            if st is None or n['kind'] in ('label', 'catch', 'jump'):
                continue
            if n['id'] not in self.dom():
                continue
            src = st['e'] if n['kind'] == 'return' and is_node(st) and st.get('k') == 'Return' else st
            for c in calls(src, must=must):
                if pred(c):
                    out.append((n['id'], c))
        return out

    def paths_between(self, a, b, avoid):
        """True if some path from node a to node b does not pass through a node in avoid."""
        seen = set()
        st = list(self.succ[a])
        while st:
            x = st.pop()
            if x in seen or x in avoid:
                continue
            if x == b:
                return True
            seen.add(x)
            st.extend(self.succ[x])
        return False


# ---------------------------------------------------------------------------------------------
def bool_norm(n):
    """(atom expression node, polarity) for E, !E, E != 0, E == 0, (bool)E; None for compound conditions"""
    n = strip_all(n)
    pol = True
    while True:
        n = strip_all(n)
        if n['k'] == 'Un' and n.get('op') == '!':
            pol = not pol
            n = n['e']
            continue
        if n['k'] == 'Bin' and n['op'] in ('!=', '==') and val(n['r']) == 0:
            if n['op'] == '==':
                pol = not pol
            n = n['l']
            continue
        if n['k'] == 'Bin' and n['op'] in ('!=', '==') and val(n['l']) == 0:
            if n['op'] == '==':
                pol = not pol
            n = n['r']
            continue
        break
    return n, pol


def bool_atoms(n, out=None):
    """atom keys (normalised show strings) of a condition built from && || ! and comparisons with zero"""
    out = out if out is not None else []
    m = strip_all(n)
    if m['k'] == 'Bin' and m['op'] in ('&&', '||'):
        bool_atoms(m['l'], out)
        bool_atoms(m['r'], out)
        return out
    a, pol = bool_norm(m)
    a = strip_all(a)
    if a['k'] == 'Bin' and a['op'] in ('&&', '||'):
        return bool_atoms(a, out)
    k = show(a)
    if k not in out:
        out.append(k)
    return out


def bool_eval(n, assign):
    """truth value of the condition under an assignment {atom key: bool}; None if an atom is missing"""
    m = strip_all(n)
    if m['k'] == 'Bin' and m['op'] in ('&&', '||'):
        a, b = bool_eval(m['l'], assign), bool_eval(m['r'], assign)
        if m['op'] == '&&':
            if a is False or b is False:
                return False
            return None if a is None or b is None else True
        if a is True or b is True:
            return True
        return None if a is None or b is None else False
    a, pol = bool_norm(m)
    a2 = strip_all(a)
    if a2['k'] == 'Bin' and a2['op'] in ('&&', '||'):
        v = bool_eval(a2, assign)
        return None if v is None else (v == pol)
    k = show(a2)
    if k not in assign:
        return None
    return assign[k] == pol
