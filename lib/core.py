"""Fact extraction, caching and the per-run context shared by all rules.

Everything here *reads* /repo (or --repo DIR): it parses, lowers to IR and assembles, it never
executes RandomX code.  Facts are cached under /verif/.cache/<key> where <key> is a hash of every
file the analysis reads (src/**, doc/specs.md, CMakeLists.txt) and of the extractor binaries, so a
change to the working tree always produces a fresh analysis.
"""
import fcntl
import hashlib
import threading
import json
import os
import re
import shlex
import shutil
import subprocess
import sys
import tempfile
import time
from concurrent.futures import ThreadPoolExecutor

VERIF = os.path.dirname(os.path.dirname(os.path.abspath(__file__)))
BUILD = os.path.join(VERIF, 'build')
RXAST = os.path.join(BUILD, 'rxast')
RXIR = os.path.join(BUILD, 'rxir')
XINC = os.path.join(VERIF, 'support', 'xinc')
CACHE_ROOT = os.environ.get('RXVERIF_CACHE', os.path.join(VERIF, '.cache'))
UNIT_CACHE = os.environ.get('RXVERIF_UNIT_CACHE', os.path.join(VERIF, '.cache', 'units'))

CLANGXX = 'clang++'
CLANG = 'clang'


class AnalysisBroken(Exception):
    """Raised when the analysis itself cannot be carried out (exit status 2)."""


def run(cmd, **kw):
    p = subprocess.run(cmd, stdout=subprocess.PIPE, stderr=subprocess.PIPE, text=True, **kw)
    return p


def must(cmd, what, **kw):
    p = run(cmd, **kw)
    if p.returncode != 0:
        raise AnalysisBroken('%s failed (%d): %s\n%s' % (what, p.returncode, ' '.join(map(str, cmd))[:400], (p.stderr or p.stdout)[-2000:]))
    return p


def tree_key(repo):
    h = hashlib.sha256()
    paths = []
    for base in ('src', 'doc/specs.md', 'CMakeLists.txt'):
        p = os.path.join(repo, base)
        if os.path.isdir(p):
            for d, dirs, files in os.walk(p):
                dirs.sort()
                for f in sorted(files):
                    paths.append(os.path.join(d, f))
        elif os.path.exists(p):
            paths.append(p)
    for p in paths:
        h.update(os.path.relpath(p, repo).encode())
        h.update(b'\0')
        with open(p, 'rb') as fh:
            h.update(hashlib.sha256(fh.read()).digest())
    for tool in (RXAST, RXIR):
        if os.path.exists(tool):
            with open(tool, 'rb') as fh:
                h.update(hashlib.sha256(fh.read()).digest())
    h.update(os.path.abspath(repo).encode())
    # extraction logic version: bump when core.py changes what it stores
    h.update(b'core-v15')
    return h.hexdigest()[:24]


import glob as _glob
CLANG_RES_INC = (sorted(_glob.glob('/usr/lib/llvm-14/lib/clang/*/include')) or ['/usr/lib/llvm-14/lib/clang/14.0.6/include'])[-1]

CROSS_SYS = ['-isystem', XINC, '-isystem', '/usr/include/c++/12', '-isystem', '/usr/include/x86_64-linux-gnu/c++/12',
             '-isystem', '/usr/include/x86_64-linux-gnu', '-isystem', '/usr/include']

CONFIGS = {
    # name: (extra flags, flags to drop, description)
    'K0': dict(extra=[], drop=[], desc='host build flags from the compilation database (x86-64, SSE2, AES-NI, int128)'),
    'K1': dict(extra=['-U__SSE2__', '-U__SSE__', '-U__AES__', '-U__SIZEOF_INT128__', '-U__x86_64__', '-U__SSSE3__', '-U__AVX2__'] + CROSS_SYS,
               drop=['-maes', '-mssse3', '-mavx2'], desc='portable fallback: no SSE/AES/int128/x86-64 macros (generic rx_vec_* structs, fenv, 32x32 mulh)'),
    'K2': dict(extra=['--target=aarch64-linux-gnu', '-march=armv8-a+crypto'] + CROSS_SYS,
               drop=['-maes', '-mssse3', '-mavx2'], desc='AArch64 cross parse (JitCompilerA64)'),
    'K3': dict(extra=['--target=riscv64-linux-gnu', '-march=rv64gc'] + CROSS_SYS,
               drop=['-maes', '-mssse3', '-mavx2'], desc='RV64GC cross parse (JitCompilerRV64, scalar)'),
    'K4': dict(extra=['-march=x86-64-v3', '-maes'], drop=[], desc='x86-64 with SSE4.1/AVX2/BMI2 enabled at compile time (the documented -DARCH=native build on a current CPU); only the units that use the vector wrappers'),
    'K6': dict(extra=['--target=s390x-linux-gnu', '-U__SSE2__', '-U__SSE__', '-U__AES__', '-U__SIZEOF_INT128__', '-U__x86_64__', '-U__SSSE3__', '-U__AVX2__'] + CROSS_SYS,
               drop=['-maes', '-mssse3', '-mavx2'], desc='big-endian cross parse (s390x) of the portable wrappers: the byte-order branches of blake2/endian.h and intrin_portable.h; one unit that includes them'),
    'K7a': dict(extra=['--target=aarch64_be-linux-gnu'] + CROSS_SYS, drop=['-maes', '-mssse3', '-mavx2'], desc='big-endian AArch64 cross parse of the byte-order helpers (blake2/endian.h through blake2b.c)'),
    'K7b': dict(extra=['--target=powerpc64-linux-gnu'] + CROSS_SYS, drop=['-maes', '-mssse3', '-mavx2'], desc='big-endian PowerPC64 cross parse of the byte-order helpers'),
    'K7c': dict(extra=['--target=mips64-linux-gnu'] + CROSS_SYS, drop=['-maes', '-mssse3', '-mavx2'], desc='big-endian MIPS64 cross parse of the byte-order helpers'),
    'K7d': dict(extra=['--target=sparc64-linux-gnu'] + CROSS_SYS, drop=['-maes', '-mssse3', '-mavx2'], desc='SPARC64 cross parse of the byte-order helpers'),
    'K5': dict(extra=['--target=x86_64-w64-mingw32', '-ffreestanding', '-isystem', os.path.join(VERIF, 'support', 'xinc_llp'), '-isystem', CLANG_RES_INC], drop=['-maes', '-mssse3', '-mavx2'],
               desc='LLP64 data model (64-bit Windows / MinGW: long is 32 bits); only the C units whose arithmetic could depend on the width of long'),
}

# configurations that are analysed for a subset of the units only
ONLY_UNITS = {
    'K4': ['src/soft_aes.cpp', 'src/aes_hash.cpp', 'src/instructions_portable.cpp'],
    'K5': ['src/reciprocal.c'],
    'K6': ['src/soft_aes.cpp', 'src/virtual_machine.cpp', 'src/vm_interpreted.cpp', 'src/bytecode_machine.cpp', 'src/aes_hash.cpp'],
    'K7a': ['src/blake2/blake2b.c'], 'K7b': ['src/blake2/blake2b.c'], 'K7c': ['src/blake2/blake2b.c'], 'K7d': ['src/blake2/blake2b.c'],
}

# extra units not in the host build that exist only for a target
EXTRA_UNITS = {
    'K2': ['src/jit_compiler_a64.cpp'],
    'K3': ['src/jit_compiler_rv64.cpp', 'src/jit_compiler_rv64_vector.cpp'],
}


class Ctx:
    def __init__(self, repo='/repo', tier='quick', verbose=False):
        self.repo = os.path.abspath(repo)
        self.tier = tier
        self.verbose = verbose
        self.t0 = time.time()
        if not os.path.exists(RXAST) or not os.path.exists(RXIR):
            raise AnalysisBroken('extractors not built: run MANIFEST.setup_cmd (make -C /verif/tools)')
        self.key = tree_key(self.repo)
        self.cdir = os.path.join(CACHE_ROOT, self.key)
        os.makedirs(self.cdir, exist_ok=True)
        self._lock_fh = None
        self._mem = {}
        self._gc()

    # ------------------------------------------------------------------ cache plumbing
    def log(self, *a):
        if self.verbose:
            print('[core %.1fs]' % (time.time() - self.t0), *a, file=sys.stderr)

    def _gc(self):
        """Drop cache entries that have not been used for 3 hours (never a live one: entries are touched on use)."""
        now = time.time()
        try:
            for e in os.listdir(CACHE_ROOT):
                p = os.path.join(CACHE_ROOT, e)
                if e != self.key and e != 'units' and os.path.isdir(p) and now - os.path.getmtime(p) > 3 * 3600:
                    shutil.rmtree(p, ignore_errors=True)
            os.utime(self.cdir, None)
        except OSError:
            pass

    class _Locked:
        def __init__(self, ctx, name):
            self.path = os.path.join(ctx.cdir, name + '.lock')

        def __enter__(self):
            self.fh = open(self.path, 'w')
            fcntl.flock(self.fh, fcntl.LOCK_EX)
            return self

        def __exit__(self, *a):
            fcntl.flock(self.fh, fcntl.LOCK_UN)
            self.fh.close()

    def _stage(self, name, builder):
        """Run builder(outdir) once per cache key; 'name.done' marks completion."""
        done = os.path.join(self.cdir, name + '.done')
        out = os.path.join(self.cdir, name)
        if os.path.exists(done):
            return out
        with Ctx._Locked(self, name):
            if os.path.exists(done):
                return out
            if os.path.exists(out):
                shutil.rmtree(out)
            os.makedirs(out)
            t = time.time()
            builder(out)
            with open(done, 'w') as fh:
                fh.write('%f\n' % (time.time() - t))
            self.log('built stage', name, '%.1fs' % (time.time() - t))
        return out

    # ------------------------------------------------------------------ compilation database
    def compdb(self):
        if 'compdb' in self._mem:
            return self._mem['compdb']

        def build(out):
            scratch = tempfile.mkdtemp(prefix='rxcdb_')
            try:
                must(['cmake', '-S', self.repo, '-B', scratch, '-G', 'Ninja', '-DCMAKE_EXPORT_COMPILE_COMMANDS=ON'], 'cmake configure')
                with open(os.path.join(scratch, 'compile_commands.json')) as fh:
                    db = json.load(fh)
            finally:
                shutil.rmtree(scratch, ignore_errors=True)
            units = []
            seen = set()
            for e in db:
                cmd = e.get('command') or ' '.join(e['arguments'])
                if 'CMakeFiles/randomx.dir' not in cmd:
                    continue  # test / benchmark executables are not the library
                f = os.path.realpath(e['file'])
                if f in seen:
                    continue
                seen.add(f)
                args = shlex.split(cmd)
                flags = []
                i = 1
                while i < len(args):
                    a = args[i]
                    if a == '-o':
                        i += 2
                        continue
                    if a == '-c':
                        i += 1
                        continue
                    if os.path.realpath(a) == f:
                        i += 1
                        continue
                    flags.append(a)
                    i += 1
                units.append(dict(file=f, rel=os.path.relpath(f, self.repo), flags=flags,
                                  lang='c' if f.endswith('.c') else 'asm' if f.endswith('.S') else 'c++'))
            # cross-check with randomx_sources of CMakeLists.txt: every listed source must be in the DB
            with open(os.path.join(self.repo, 'CMakeLists.txt')) as fh:
                cm = fh.read()
            import re
            m = re.search(r'set\(randomx_sources\s+([^)]*)\)', cm)
            listed = m.group(1).split() if m else []
            have = set(u['rel'] for u in units)
            missing = [s for s in listed if s not in have]
            if missing:
                raise AnalysisBroken('sources listed in CMakeLists.txt but absent from the compilation database: %s' % missing)
            with open(os.path.join(out, 'units.json'), 'w') as fh:
                json.dump(units, fh, indent=1)

        d = self._stage('compdb', build)
        with open(os.path.join(d, 'units.json')) as fh:
            units = json.load(fh)
        self._mem['compdb'] = units
        return units

    def unit_flags(self, rel, config='K0'):
        units = {u['rel']: u for u in self.compdb()}
        cfg = CONFIGS[config]
        if rel in units:
            u = units[rel]
            flags = list(u['flags'])
            lang = u['lang']
        else:
            # unit that the host build does not compile (other architecture back-end):
            # use the flags of a sibling C++ unit
            sib = units['src/vm_compiled.cpp']
            flags = list(sib['flags'])
            lang = 'c++'
        flags = [f for f in flags if f not in cfg['drop']]
        flags += cfg['extra']
        if lang == 'c++' and not any(f.startswith('-std=') for f in flags):
            flags.append('-std=gnu++11')
        return flags, lang

    # ------------------------------------------------------------------ AST facts
    def ast_units(self, config='K0'):
        units = [u['rel'] for u in self.compdb() if u['lang'] != 'asm']
        if config in ONLY_UNITS:
            missing = [u for u in ONLY_UNITS[config] if u not in units]
            if missing:
                raise AnalysisBroken('units of configuration %s not in the build: %s' % (config, missing))
            return list(ONLY_UNITS[config])
        if config in EXTRA_UNITS:
            units = [u for u in units if not u.endswith('jit_compiler_x86.cpp')] + EXTRA_UNITS[config]
        if config != 'K0':
            units = [u for u in units if not (u.endswith('argon2_ssse3.c') or u.endswith('argon2_avx2.c'))] if config in ('K2', 'K3') else units
        return units

    def _ast_stage(self, config):
        def build(out):
            units = self.ast_units(config)

            env_hash = self._unit_env_hash()

            def one(rel):
                flags, lang = self.unit_flags(rel, config)
                dst = os.path.join(out, rel.replace('/', '__') + '.json')
                # content-addressed cache of single-unit facts, shared by every copy of the tree: the key covers everything the extractor reads
                # (the unit, every non-unit file under src/, the flags with the tree root normalised, the extractor binary)
                h = hashlib.sha256()
                h.update(env_hash)
                h.update(('%s|%s|' % (config, rel)).encode())
                h.update('\0'.join(f.replace(self.repo, '@ROOT@') for f in flags).encode())
                with open(os.path.join(self.repo, rel), 'rb') as fh:
                    h.update(hashlib.sha256(fh.read()).digest())
                cpath = os.path.join(UNIT_CACHE, h.hexdigest()[:40] + '.json')
                if os.path.exists(cpath):
                    try:
                        with open(cpath) as fh:
                            meta = fh.readline()
                            txt = fh.read()
                        rc, err = json.loads(meta)
                        with open(dst, 'w') as fh:
                            fh.write(txt.replace('@ROOT@', self.repo))
                        os.utime(cpath, None)
                        return rel, rc, err.replace('@ROOT@', self.repo)
                    except (OSError, ValueError):
                        pass
                cmd = [RXAST, '--root=' + self.repo, '--out=' + dst, os.path.join(self.repo, rel), '--'] + flags + ['-w', '-ferror-limit=0']
                p = run(cmd)
                err = p.stderr[-3000:]
                try:
                    if os.path.exists(dst):
                        with open(dst) as fh:
                            txt = fh.read()
                        if '@ROOT@' not in txt:
                            tmpc = cpath + '.%d.%d.tmp' % (os.getpid(), threading.get_ident())
                            with open(tmpc, 'w') as fh:
                                fh.write(json.dumps([p.returncode, err.replace(self.repo, '@ROOT@')]) + '\n')
                                fh.write(txt.replace(self.repo, '@ROOT@'))
                            os.replace(tmpc, cpath)
                except OSError:
                    pass
                return rel, p.returncode, err
            with ThreadPoolExecutor(max_workers=16) as ex:
                res = list(ex.map(one, units))
            status = {}
            for rel, rc, err in res:
                status[rel] = dict(rc=rc, stderr=err if rc else '')
            with open(os.path.join(out, 'status.json'), 'w') as fh:
                json.dump(status, fh, indent=1)
        return self._stage('ast_' + config, build)

    def _unit_env_hash(self):
        if 'unit_env' in self._mem:
            return self._mem['unit_env']
        h = hashlib.sha256()
        h.update(b'unit-cache-v1')
        with open(RXAST, 'rb') as fh:
            h.update(hashlib.sha256(fh.read()).digest())
        units = set(u['rel'] for u in self.compdb()) | set(x for v in EXTRA_UNITS.values() for x in v)
        base = os.path.join(self.repo, 'src')
        for d, dirs, files in os.walk(base):
            dirs.sort()
            for f in sorted(files):
                pth = os.path.join(d, f)
                rel = os.path.relpath(pth, self.repo)
                if rel in units:
                    continue
                h.update(rel.encode() + b'\0')
                with open(pth, 'rb') as fh:
                    h.update(hashlib.sha256(fh.read()).digest())
        os.makedirs(UNIT_CACHE, exist_ok=True)
        # drop entries not used for 12 hours
        try:
            now = time.time()
            for e in os.listdir(UNIT_CACHE):
                pth = os.path.join(UNIT_CACHE, e)
                if now - os.path.getmtime(pth) > 12 * 3600:
                    os.unlink(pth)
        except OSError:
            pass
        self._mem['unit_env'] = h.digest()
        return self._mem['unit_env']

    def ast_status(self, config='K0'):
        d = self._ast_stage(config)
        with open(os.path.join(d, 'status.json')) as fh:
            return json.load(fh)

    def ast(self, rel, config='K0'):
        """Facts of one unit, e.g. ctx.ast('src/randomx.cpp')."""
        k = ('ast', config, rel)
        if k in self._mem:
            return self._mem[k]
        d = self._ast_stage(config)
        st = self.ast_status(config)
        if rel not in st:
            raise AnalysisBroken('unit %s is not part of configuration %s' % (rel, config))
        p = os.path.join(d, rel.replace('/', '__') + '.json')
        if not os.path.exists(p) or os.path.getsize(p) == 0:
            raise AnalysisBroken('no AST facts for %s in %s: %s' % (rel, config, st[rel]['stderr'][-800:]))
        with open(p) as fh:
            facts = json.load(fh)
        facts['_rc'] = st[rel]['rc']
        facts['_stderr'] = st[rel]['stderr']
        self._mem[k] = facts
        return facts

    # ------------------------------------------------------------------ LLVM IR facts
    def ir(self):
        if 'ir' in self._mem:
            return self._mem['ir']

        def build(out):
            units = [u for u in self.compdb() if u['lang'] != 'asm']
            tmp = tempfile.mkdtemp(prefix='rxir_')
            try:
                def one(u):
                    flags, lang = self.unit_flags(u['rel'], 'K0')
                    flags = [f for f in flags if not f.startswith('-O') and f != '-g']
                    dst = os.path.join(tmp, u['rel'].replace('/', '__') + '.ll')
                    cc = CLANGXX if lang == 'c++' else CLANG
                    cmd = [cc] + flags + ['-O0', '-Xclang', '-disable-O0-optnone', '-g', '-S', '-emit-llvm', '-w', '-o', dst, u['file']]
                    p = run(cmd)
                    return u['rel'], dst, p.returncode, p.stderr[-2000:]
                with ThreadPoolExecutor(max_workers=16) as ex:
                    res = list(ex.map(one, units))
                bad = [(r, e) for r, _, rc, e in res if rc]
                if bad:
                    raise AnalysisBroken('IR lowering failed for %s: %s' % (bad[0][0], bad[0][1]))
                linked = os.path.join(tmp, 'all.ll')
                must(['llvm-link-14', '-S', '-o', linked] + [d for _, d, _, _ in res], 'llvm-link')
                opt = os.path.join(tmp, 'opt.ll')
                must(['opt-14', '-S', '-passes=function(sroa,instsimplify,simplifycfg)', '-o', opt, linked], 'opt')
                must([RXIR, opt, os.path.join(out, 'ir.json')], 'rxir')
            finally:
                shutil.rmtree(tmp, ignore_errors=True)

        d = self._stage('ir', build)
        with open(os.path.join(d, 'ir.json')) as fh:
            m = json.load(fh)
        self._mem['ir'] = m
        return m

    # ------------------------------------------------------------------ assembled objects
    def obj(self, arch='x86'):
        k = ('obj', arch)
        if k in self._mem:
            return self._mem[k]
        src = {'x86': 'src/jit_compiler_x86_static.S', 'a64': 'src/jit_compiler_a64_static.S', 'rv64': 'src/jit_compiler_rv64_static.S',
               'rv64b': 'src/jit_compiler_rv64_static.S', 'rvv': 'src/jit_compiler_rv64_vector_static.S'}[arch]

        def build(out):
            o = os.path.join(out, 'static.o')
            if arch == 'x86':
                flags, _ = self.unit_flags(src, 'K0')
                flags = [f for f in flags if not f.startswith('-std')]
                must(['cc'] + flags + ['-c', os.path.join(self.repo, src), '-o', o], 'assemble ' + src)
                objdump = ['objdump', '-d', '-M', 'intel', '--no-show-raw-insn', '-w', o]
                objdump_raw = ['objdump', '-d', '-M', 'intel', '-w', o]
            elif arch == 'a64':
                must([CLANG, '--target=aarch64-linux-gnu', '-march=armv8-a+crypto', '-c', os.path.join(self.repo, src), '-o', o], 'assemble ' + src)
                objdump = ['llvm-objdump-14', '-d', '--no-show-raw-insn', o]
                objdump_raw = ['llvm-objdump-14', '-d', o]
            elif arch == 'rvv':
                # clang 14 does not know the Zvkned mnemonics and does not relax an out-of-range conditional branch the way GNU as does: the vector AES
                # instructions become an opaque 32-bit word each, an out-of-range branch becomes the inverted branch over a jump
                pre = must([CLANG, '--target=riscv64-linux-gnu', '-march=rv64gcv', '-E', '-I', os.path.join(self.repo, 'src'), os.path.join(self.repo, src)], 'preprocess ' + src).stdout
                lines = [re.sub(r'^\s*vaes\w+\.v[vs]\s.*$', '\t.word 0x0000000b', ln) for ln in pre.split('\n')]
                inv = {'beq': 'bne', 'bne': 'beq', 'blt': 'bge', 'bge': 'blt', 'bltu': 'bgeu', 'bgeu': 'bltu'}
                ps = os.path.join(out, 'pre.s')
                for attempt in range(8):
                    with open(ps, 'w') as fh:
                        fh.write('\n'.join(lines) + '\n')
                    r = run([CLANG, '--target=riscv64-linux-gnu', '-march=rv64gcv', '-mno-relax', '-c', ps, '-o', o])
                    if r.returncode == 0:
                        break
                    fixed = False
                    for m in re.finditer(r'pre\.s:(\d+):\d+: error: fixup value out of range', r.stderr):
                        k = int(m.group(1)) - 1
                        mm = re.match(r'^(\s*)(\w+)\s+(.*),\s*([\w.$]+)\s*$', lines[k])
                        if mm and mm.group(2) in inv:
                            lines[k] = '%s%s %s, 9%d7f\n%sj %s\n9%d7:' % (mm.group(1), inv[mm.group(2)], mm.group(3), attempt, mm.group(1), mm.group(4), attempt)
                            fixed = True
                            break
                    if not fixed:
                        raise AnalysisBroken('assemble %s: %s' % (src, r.stderr[-400:]))
                else:
                    raise AnalysisBroken('assemble %s: branch relaxation did not converge' % src)
                objdump = ['llvm-objdump-14', '-d', '--mattr=+m,+a,+f,+d,+c,+v', '--no-show-raw-insn', '-M', 'no-aliases', o]
                objdump_raw = ['llvm-objdump-14', '-d', '--mattr=+m,+a,+f,+d,+c,+v', '-M', 'no-aliases', o]
            else:
                march = 'rv64gc' if arch == 'rv64' else 'rv64gc_zba_zbb'
                must([CLANG, '--target=riscv64-linux-gnu', '-march=' + march, '-c', os.path.join(self.repo, src), '-o', o], 'assemble ' + src)
                objdump = ['llvm-objdump-14', '-d', '--mattr=+m,+a,+f,+d,+c' + (',+zba,+zbb' if arch == 'rv64b' else ''), '--no-show-raw-insn', '-M', 'no-aliases', o]
                objdump_raw = ['llvm-objdump-14', '-d', '--mattr=+m,+a,+f,+d,+c' + (',+zba,+zbb' if arch == 'rv64b' else ''), '-M', 'no-aliases', o]
            nm = must(['nm', '-n', o] if arch == 'x86' else ['llvm-nm-14', '-n', o], 'nm').stdout
            with open(os.path.join(out, 'nm.txt'), 'w') as fh:
                fh.write(nm)
            with open(os.path.join(out, 'dis.txt'), 'w') as fh:
                fh.write(must(objdump, 'objdump').stdout)
            with open(os.path.join(out, 'disraw.txt'), 'w') as fh:
                fh.write(must(objdump_raw, 'objdump').stdout)
            # raw section bytes
            secs = must(['objdump' if arch == 'x86' else 'llvm-objdump-14', '-h', o], 'objdump -h').stdout
            with open(os.path.join(out, 'sections.txt'), 'w') as fh:
                fh.write(secs)
            text = os.path.join(out, 'text.bin')
            oc = 'objcopy' if arch == 'x86' else 'llvm-objcopy-14'
            must([oc, '-O', 'binary', '--only-section=.text', o, text], 'objcopy')
            rel = must(['objdump' if arch == 'x86' else 'llvm-objdump-14', '-r', o], 'objdump -r').stdout
            with open(os.path.join(out, 'reloc.txt'), 'w') as fh:
                fh.write(rel)

        d = self._stage('obj2_' + arch, build)
        from objfacts import ObjFacts
        of = ObjFacts(d, arch)
        self._mem[k] = of
        return of

    # ------------------------------------------------------------------ spec
    def spec(self):
        if 'spec' in self._mem:
            return self._mem['spec']
        from specfacts import SpecFacts
        s = SpecFacts(os.path.join(self.repo, 'doc', 'specs.md'))
        self._mem['spec'] = s
        return s

    def src(self, rel):
        with open(os.path.join(self.repo, rel), errors='replace') as fh:
            return fh.read()
