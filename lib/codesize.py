"""D-size: max-plus abstract interpretation of a code emitter class (DESIGN.md appendix B.2).

The abstract value of the emitter's position member (x86: codePos) is an upper bound in bytes.  Statements
are interpreted structurally: `pos++`, `pos += e`, `pos = e`, if/else -> max of both arms (constant
conditions pruned), counted loops -> trip bound x body growth, calls -> interpretation of the callee with
its integer parameters bound to upper bounds, calls through the opcode table -> max over all handlers.
Run-time constants that are differences of assembly labels are evaluated on the assembled object."""
import re

import astq
from astq import calls, loc, show, showv, strip_all, val, walk
from core import AnalysisBroken


class SizeEval:
    def __init__(self, F, obj, cls, pos='codePos', table=None, loop_bounds=None):
        self.F = F
        self.obj = obj
        self.cls = cls
        self.pos = 'this->' + pos
        self.table = table
        self.loop_bounds = loop_bounds or {}
        self.memo = {}
        self.copies = []        # (loc, n, followed-by increment m) for memcpy(code + pos, ..., n); pos += m
        self.writes = []        # (loc, lo, hi) absolute byte ranges written
        self.handler_sizes = {}
        self._gcache = {}
        self.depth = 0

    # ------------------------------------------------------------------ integer upper bounds
    def glob_value(self, q):
        if q in self._gcache:
            return self._gcache[q]
        self._gcache[q] = None
        if not self.F.has_glob(q):
            return None
        g = self.F.glob(q)
        if 'v' in g:
            self._gcache[q] = g['v']
            return g['v']
        init = g.get('init')
        v = self.sym_expr(init) if init is not None else None
        self._gcache[q] = v
        return v

    def sym_expr(self, n):
        """value of an initialiser made of label addresses and constants (exact), else None"""
        n = strip_all(n)
        if 'v' in n and n['k'] != 'Ref':
            return n['v']
        if n['k'] == 'Un' and n['op'] == '&':
            e = strip_all(n['e'])
            if e['k'] == 'Ref' and e.get('q') and self.obj is not None and self.obj.has(e['q']):
                return self.obj.sym(e['q'])
            return None
        if n['k'] == 'Ref':
            if 'v' in n:
                return n['v']
            if n.get('q'):
                return self.glob_value(n['q'])
            return None
        if n['k'] == 'Bin' and n['op'] in ('+', '-', '*'):
            a, b = self.sym_expr(n['l']), self.sym_expr(n['r'])
            if a is None or b is None:
                return None
            return a + b if n['op'] == '+' else a - b if n['op'] == '-' else a * b
        return None

    def ub(self, n, env):
        """upper bound of an integer expression, or None"""
        n = strip_all(n)
        if 'v' in n and n['k'] != 'Ref':
            return n['v']
        k = n['k']
        if k in ('Bin', 'Un'):
            sv = self.sym_expr(n)
            if sv is not None:
                return sv
        if k == 'Ref':
            if n.get('id') in env:
                return env[n['id']]
            if 'v' in n:
                return n['v']
            if n.get('q'):
                return self.glob_value(n['q'])
            return None
        if k == 'Mem' and show(n) == self.pos:
            return env.get('@pos')
        if k == 'Cond':
            a, b = self.ub(n['t'], env), self.ub(n['f'], env)
            return None if a is None or b is None else max(a, b)
        if k == 'Bin':
            a, b = self.ub(n['l'], env), self.ub(n['r'], env)
            if n['op'] == '+' and a is not None and b is not None:
                return a + b
            if n['op'] == '-' and a is not None:
                # upper bound of a - b needs a lower bound of b: only exact constants
                bl = self.sym_expr(n['r']) if val(n['r']) is None else val(n['r'])
                if bl is not None:
                    return a - bl
                return None
            if n['op'] == '*' and a is not None and b is not None and a >= 0 and b >= 0:
                return a * b
            return None
        if k == 'SizeOf' and 'v' in n:
            return n['v']
        if k == 'Call':
            fn = n.get('fn', '')
            if fn in self.loop_bounds:
                return self.loop_bounds[fn]
            if n.get('name') == 'size' and 'std::array' in (n.get('cls') or ''):
                m = re.search(r',\s*(\d+)>$', n['cls'])
                if m:
                    return int(m.group(1))
        return None

    # ------------------------------------------------------------------ statements
    def run(self, fq, pos, args=None):
        """max position after executing function fq entered at position pos (None = relative mode start 0)"""
        f = self.F.func(fq)
        env = {'@pos': pos}
        for p, a in zip(f['params'], args or []):
            if a is not None:
                env[p['id']] = a
        self.depth += 1
        if self.depth > 12:
            raise AnalysisBroken('D-size: call depth exceeded at %s' % fq)
        out = self.stmt(f['body'], env, f)
        self.depth -= 1
        return out['@pos']

    def stmt(self, s, env, f):
        if s is None:
            return env
        k = s['k']
        if k == 'Compound':
            for x in s['s']:
                env = self.stmt(x, env, f)
            return env
        if k == 'If':
            cv = val(s['c'])
            if cv is None:
                cr = strip_all(s['c'])
                while cr['k'] == 'Cast':
                    cr = cr['e']
                if cr['k'] == 'Ref' and cr.get('id') in env.get('@exact', ()):
                    cv = env[cr['id']]
            env = self.expr_effects(s['c'], env, f)
            if cv is not None:
                return self.stmt(s['t'] if cv else s.get('e'), env, f)
            e1 = self.stmt(s['t'], dict(env), f)
            e2 = self.stmt(s.get('e'), dict(env), f) if s.get('e') is not None else dict(env)
            out = dict(env)
            out['@pos'] = max(e1['@pos'], e2['@pos'])
            # locals that each arm sets to a bounded value (size of the fragment selected by the arm): upper bound = the larger one
            for key_ in set(e1) | set(e2):
                if isinstance(key_, str) and key_.startswith('@'):
                    continue
                a_, b_ = e1.get(key_), e2.get(key_)
                if isinstance(a_, int) and isinstance(b_, int):
                    out[key_] = max(a_, b_)
                elif key_ in out and (a_ != out[key_] or b_ != out[key_]):
                    out.pop(key_, None)
            return out
        if k in ('For', 'While', 'Do'):
            if k == 'For' and s.get('init') is not None:
                env = self.stmt(s['init'], env, f)
            trip = self.trip_bound(s, env)
            body_env = dict(env)
            body_env['@pos'] = 0
            body_env['@abs'] = False
            be = self.stmt(s['b'], body_env, f)
            if k == 'For' and s.get('inc') is not None:
                be = self.expr_effects(s['inc'], be, f)
            growth = be['@pos']
            if growth == 0:
                return env
            if be.get('@abs'):
                raise AnalysisBroken('D-size: loop body at %s sets an absolute position' % loc(s, f))
            if trip is None:
                raise AnalysisBroken('D-size: no trip bound for the emitting loop at %s (%s)' % (loc(s, f), show(s.get('c'))[:80]))
            out = dict(env)
            out['@pos'] = env['@pos'] + trip * growth
            self.loops = getattr(self, 'loops', [])
            self.loops.append((loc(s, f), trip, growth))
            return out
        if k == 'Switch':
            # max over the case groups (each group = statements between labels up to break)
            env = self.expr_effects(s['c'], env, f)
            best = env['@pos']
            cur = None
            stmts = s['b']['s'] if s['b']['k'] == 'Compound' else [s['b']]
            groups = []
            for x in stmts:
                y = x
                lab = False
                while y['k'] in ('Case', 'Default'):
                    lab = True
                    y = y['sub']
                if lab:
                    cur = []
                    groups.append(cur)
                if cur is not None:
                    cur.append(y)
            for g in groups:
                e = dict(env)
                for y in g:
                    if y['k'] == 'Break':
                        break
                    e = self.stmt(y, e, f)
                best = max(best, e['@pos'])
            out = dict(env)
            out['@pos'] = best
            return out
        if k == 'Decl':
            for d in s['d']:
                if 'init' in d:
                    env = self.expr_effects(d['init'], env, f)
                    v = self.ub(d['init'], env)
                    if v is not None:
                        env = dict(env)
                        env[d['id']] = v
            return env
        if k == 'Return':
            if s.get('e') is not None:
                env = self.expr_effects(s['e'], env, f)
            return env
        if k in ('Break', 'Continue', 'Null'):
            return env
        return self.expr_effects(s, env, f)

    def trip_bound(self, s, env):
        if s['k'] != 'For' or not s.get('c'):
            return None
        c = strip_all(s['c'])
        if c['k'] == 'Bin' and c['op'] in ('<', '!='):
            init = s.get('init')
            start = 0
            if init and init['k'] == 'Decl' and init['d'] and 'init' in init['d'][0]:
                start = val(init['d'][0]['init'])
                if start is None:
                    start = 0
            hi = self.ub(c['r'], env)
            if hi is not None:
                return max(0, hi - start)
        return None

    def expr_effects(self, e, env, f):
        """interpret position updates and calls inside an expression, in evaluation order"""
        if not astq.is_node(e):
            return env
        k = e['k']
        if k in ('Assign', 'CAssign') and show(e['l']) == self.pos:
            env = self.expr_effects(e['r'], env, f)
            v = self.ub(e['r'], env)
            if v is None:
                raise AnalysisBroken('D-size: cannot bound %s at %s' % (show(e)[:100], loc(e, f)))
            env = dict(env)
            if k == 'Assign':
                env['@pos'] = v
                env['@abs'] = True
            elif e['op'] == '+=':
                env['@pos'] = env['@pos'] + v
            else:
                raise AnalysisBroken('D-size: unsupported position update %s' % show(e))
            return env
        if k == 'Assign' and strip_all(e['l'])['k'] == 'Ref' and strip_all(e['l']).get('id') is not None:
            env = self.expr_effects(e['r'], env, f)
            v = self.ub(e['r'], env)
            env = dict(env)
            if v is not None:
                env[strip_all(e['l'])['id']] = v
            else:
                env.pop(strip_all(e['l'])['id'], None)
            return env
        if k == 'Un' and e['op'] in ('++',) and show(e['e']) == self.pos:
            env = dict(env)
            env['@pos'] = env['@pos'] + 1
            return env
        if k == 'Call':
            for a in ([e.get('this')] if e.get('this') is not None else []) + e.get('a', []):
                env = self.expr_effects(a, env, f)
            fn = e.get('fn')
            nm = e.get('name')
            if nm == 'memcpy' and e.get('a'):
                d0 = strip_all(e['a'][0])
                dst = show(d0)
                if dst.startswith('(this->code + ') or dst.startswith('((this->code + '):
                    off = self.ub(strip_all(d0['r']) if d0['k'] == 'Bin' and show(d0['l']) == 'this->code' else None, env) if d0['k'] == 'Bin' and show(d0['l']) == 'this->code' else None
                    if off is None and d0['k'] == 'Bin':
                        # (code + codePos) - 48
                        l = strip_all(d0['l'])
                        if l['k'] == 'Bin' and show(l['l']) == 'this->code':
                            a = self.ub(l['r'], env)
                            b = val(d0['r'])
                            if a is not None and b is not None:
                                off = a - b if d0['op'] == '-' else a + b
                    n = self.ub(e['a'][2], env)
                    self.copies.append(dict(loc=loc(e, f), off=off, n=n, dst=dst, fn=f['q'], n_expr=show(e['a'][2]), node=e))
                return env
            if fn and self.F.has_func(fn) and fn.startswith(self.cls + '::'):
                callee = self.F.func(fn)
                args = [self.ub(a, env) for a in e.get('a', [])]
                key = (fn, tuple(args))
                if key in self.memo and not env.get('@track'):
                    delta, absolute = self.memo[key]
                else:
                    sub = {'@pos': 0, '@abs': False, '@exact': set()}
                    for p, a, an in zip(callee['params'], args, e.get('a', [])):
                        if a is not None:
                            sub[p['id']] = a
                            if val(an) is not None:
                                sub['@exact'].add(p['id'])
                    # absolute-setting callees need the real position
                    sub['@pos'] = env['@pos']
                    self.depth += 1
                    if self.depth > 12:
                        raise AnalysisBroken('D-size: recursion at %s' % fn)
                    out = self.stmt(callee['body'], sub, callee)
                    self.depth -= 1
                    absolute = bool(out.get('@abs'))
                    delta = out['@pos'] if absolute else out['@pos'] - env['@pos']
                    self.memo[key] = (delta, absolute)
                env = dict(env)
                if absolute:
                    env['@pos'] = delta
                    env['@abs'] = True
                else:
                    env['@pos'] = env['@pos'] + delta
                return env
            if 'callee' in e and self.table:
                # indirect call through the opcode table: max over all handlers
                best = 0
                for h in sorted(set(self.table)):
                    d = self.handler_size(h)
                    best = max(best, d)
                env = dict(env)
                env['@pos'] = env['@pos'] + best
                return env
            return env
        for c in astq.children(e):
            env = self.expr_effects(c, env, f)
        return env

    def handler_size(self, h):
        if h not in self.handler_sizes:
            callee = self.F.func(h)
            sub = {'@pos': 0}
            out = self.stmt(callee['body'], sub, callee)
            if out.get('@abs'):
                raise AnalysisBroken('D-size: handler %s sets an absolute position' % h)
            self.handler_sizes[h] = out['@pos']
        return self.handler_sizes[h]
