"""Abstract domains: known-bits over fixed-width words, and an abstract interpreter for the
straight-line integer helper functions of RandomX (evaluates resolved-AST facts, never runs code)."""
import astq
from core import AnalysisBroken

INT_TYPES = {
    'bool': (1, False), 'char': (8, True), 'signed char': (8, True), 'unsigned char': (8, False),
    'short': (16, True), 'unsigned short': (16, False), 'int': (32, True), 'unsigned int': (32, False),
    'long': (64, True), 'unsigned long': (64, False), 'long long': (64, True), 'unsigned long long': (64, False),
    '__int128': (128, True), 'unsigned __int128': (128, False),
    'randomx_flags': (32, True),     # unscoped enum with int underlying type (randomx.h)
}


def type_info(ty):
    if ty is None:
        return None
    t = ty.replace('const ', '').replace('volatile ', '').strip()
    if t.endswith('&'):
        t = t[:-1].strip()
    if t in INT_TYPES:
        return INT_TYPES[t]
    if t.startswith('enum ') or '::' in t and not t.endswith('*'):
        return None
    return None


class KB:
    """Known bits of a w-bit word: `zeros` = bits known 0, `ones` = bits known 1."""

    __slots__ = ('w', 'zeros', 'ones')

    def __init__(self, w, zeros=0, ones=0):
        m = (1 << w) - 1
        self.w = w
        self.zeros = zeros & m
        self.ones = ones & m
        assert self.zeros & self.ones == 0

    @staticmethod
    def const(w, v):
        m = (1 << w) - 1
        v &= m
        return KB(w, ~v & m, v)

    @staticmethod
    def top(w):
        return KB(w, 0, 0)

    @property
    def mask(self):
        return (1 << self.w) - 1

    def is_const(self):
        return (self.zeros | self.ones) == self.mask

    def value(self):
        return self.ones if self.is_const() else None

    def unknown(self):
        return self.mask & ~(self.zeros | self.ones)

    def bit(self, i):
        if self.ones >> i & 1:
            return 1
        if self.zeros >> i & 1:
            return 0
        return None

    def umax(self):
        return self.mask & ~self.zeros

    def umin(self):
        return self.ones

    def __and__(self, o):
        return KB(self.w, self.zeros | o.zeros, self.ones & o.ones)

    def __or__(self, o):
        return KB(self.w, self.zeros & o.zeros, self.ones | o.ones)

    def __xor__(self, o):
        known = (self.zeros | self.ones) & (o.zeros | o.ones)
        v = (self.ones ^ o.ones) & known
        return KB(self.w, known & ~v, v)

    def __invert__(self):
        return KB(self.w, self.ones, self.zeros)

    def shl(self, n):
        m = self.mask
        return KB(self.w, ((self.zeros << n) | ((1 << n) - 1)) & m, (self.ones << n) & m)

    def lshr(self, n):
        hi = self.mask & ~(self.mask >> n) if n else 0
        return KB(self.w, (self.zeros >> n) | hi, self.ones >> n)

    def ashr(self, n):
        s = self.bit(self.w - 1)
        r = self.lshr(n)
        hi = self.mask & ~(self.mask >> n) if n else 0
        if s == 0:
            return r
        if s == 1:
            return KB(self.w, r.zeros & ~hi, r.ones | hi)
        return KB(self.w, r.zeros & ~hi, r.ones & ~hi)

    def add(self, o, carry_in=0):
        # bitwise ripple with three-valued carries
        zeros = ones = 0
        c = carry_in  # 0, 1 or None
        for i in range(self.w):
            a, b = self.bit(i), o.bit(i)
            vals = set()
            for av in ((a,) if a is not None else (0, 1)):
                for bv in ((b,) if b is not None else (0, 1)):
                    for cv in ((c,) if c is not None else (0, 1)):
                        vals.add((av + bv + cv))
            sbits = {v & 1 for v in vals}
            cbits = {v >> 1 for v in vals}
            if sbits == {0}:
                zeros |= 1 << i
            elif sbits == {1}:
                ones |= 1 << i
            c = cbits.pop() if len(cbits) == 1 else None
        return KB(self.w, zeros, ones)

    def neg(self):
        return (~self).add(KB.const(self.w, 1))

    def sub(self, o):
        return self.add(~o, 1)

    def trunc(self, w):
        return KB(w, self.zeros, self.ones)

    def zext(self, w):
        hi = ((1 << w) - 1) & ~self.mask
        return KB(w, self.zeros | hi, self.ones)

    def sext(self, w):
        s = self.bit(self.w - 1)
        hi = ((1 << w) - 1) & ~self.mask
        if s == 0:
            return KB(w, self.zeros | hi, self.ones)
        if s == 1:
            return KB(w, self.zeros, self.ones | hi)
        return KB(w, self.zeros, self.ones)

    def resize(self, w, signed):
        if w == self.w:
            return self
        if w < self.w:
            return self.trunc(w)
        return self.sext(w) if signed else self.zext(w)

    def join(self, o):
        return KB(self.w, self.zeros & o.zeros, self.ones & o.ones)

    def __repr__(self):
        s = ''
        for i in range(self.w - 1, -1, -1):
            b = self.bit(i)
            s += '?' if b is None else str(b)
        return s

    def hexpat(self):
        return 'known0=%#x known1=%#x' % (self.zeros, self.ones)


class KBEval:
    """Evaluates integer expressions of the resolved AST in the known-bits domain.

    env maps a declaration key (local decl id, or qualified name for globals/fields via show())
    to a KB.  Calls to functions with a body in `facts` are evaluated by abstract interpretation of
    that body (straight-line code, if/else joins, no loops)."""

    def __init__(self, facts, env=None, depth=0, overrides=None):
        self.F = facts
        self.env = dict(env or {})
        self.depth = depth
        self.overrides = overrides or {}     # callee qualified name -> KB (partitioned unknowns)
        self.ub = []                         # undefined operations met while evaluating constants

    def width_of(self, n):
        ti = type_info(n.get('ty'))
        if ti is None:
            raise AnalysisBroken('known-bits: unsupported type %r in %s' % (n.get('ty'), astq.show(n)[:80]))
        return ti

    def key(self, n):
        n = astq.strip_all(n) if n['k'] == 'Cast' and n.get('ck') in astq.NOOP_CASTS else n
        if n['k'] == 'Ref':
            return n.get('id') or n.get('q')
        return astq.show(n)

    def ev(self, n):
        k = n['k']
        if 'v' in n and k not in ('Assign', 'CAssign'):
            ti = type_info(n.get('ty'))
            if ti is not None:
                return KB.const(ti[0], n['v'])
        if k == 'Cast':
            ck = n.get('ck')
            if ck in astq.NOOP_CASTS:
                return self.ev(n['e'])
            if ck in ('IntegralCast', 'IntegralToBoolean', 'BooleanToSignedIntegral'):
                sub = self.ev(n['e'])
                fw = type_info(n.get('from'))
                w, _ = self.width_of(n)
                if ck == 'IntegralToBoolean':
                    if sub.ones:
                        return KB.const(1, 1)
                    return KB.top(1) if sub.value() is None else KB.const(1, 1 if sub.value() else 0)
                return sub.resize(w, fw[1] if fw else False)
            raise AnalysisBroken('known-bits: unsupported cast %s in %s' % (ck, astq.show(n)[:80]))
        if k in ('Ref', 'Mem', 'Idx'):
            key = self.key(n)
            if key in self.env:
                kb = self.env[key]
                w, _ = self.width_of(n)
                return kb if kb.w == w else kb.resize(w, False)
            s = astq.show(n)
            if s in self.env:
                return self.env[s]
            w, _ = self.width_of(n)
            if k == 'Idx':
                # element of a constant global table: the element for a constant index, the join of all elements otherwise
                b = astq.strip_all(n['b'])
                q = b.get('q') if b['k'] == 'Ref' else None
                g = None
                if q and self.F is not None and self.F.has_glob(q):
                    g = self.F.glob(q)
                if g is not None and g.get('const') and g.get('init') and g['init']['k'] == 'InitList':
                    els = [astq.val(e) for e in g['init']['e']]
                    if els and None not in els:
                        try:
                            iv = self.ev(n['i']).value()
                        except AnalysisBroken:
                            iv = None
                        if iv is not None and 0 <= iv < len(els):
                            return KB.const(w, els[iv])
                        if iv is None and g.get('arrlen', len(els)) == len(els):
                            out = KB.const(w, els[0])
                            for e_ in els[1:]:
                                out = out.join(KB.const(w, e_))
                            return out
            return KB.top(w)
        if k == 'Un':
            op = n['op']
            if op == '~':
                return ~self.ev(n['e'])
            if op == '-':
                return self.ev(n['e']).neg()
            if op == '+':
                return self.ev(n['e'])
            if op == '!':
                v_ = self.ev(n['e'])
                w_ = (type_info(n.get('ty')) or (1, False))[0]
                if v_.ones:
                    return KB.const(w_, 0)
                if v_.value() is not None:
                    return KB.const(w_, int(v_.value() == 0))
                return KB(w_, ((1 << w_) - 1) & ~1, 0)
            raise AnalysisBroken('known-bits: unsupported unary %s' % op)
        if k == 'Bin':
            op = n['op']
            w, signed = self.width_of(n)
            if op in ('<<', '>>'):
                a = self.ev(n['l'])
                b = self.ev(n['r'])
                cnt = b.value()
                if cnt is None:
                    return KB.top(w)
                if cnt >= a.w:
                    # shifting by the width or more is undefined in C / C++
                    self.ub.append('shift of a %d-bit value by %d in %s' % (a.w, cnt, astq.show(n)[:60]))
                    return KB.top(w)
                if op == '<<':
                    return a.shl(cnt)
                lw = type_info(n['l'].get('ty'))
                return a.ashr(cnt) if (lw and lw[1]) else a.lshr(cnt)
            a = self.ev(n['l'])
            b = self.ev(n['r'])
            if a.w != b.w:
                raise AnalysisBroken('known-bits: width mismatch in %s' % astq.show(n)[:100])
            if op == '&':
                return a & b
            if op == '|':
                return a | b
            if op == '^':
                return a ^ b
            if op == '+':
                return a.add(b)
            if op == '-':
                return a.sub(b)
            if op == '%':
                d = b.value()
                if d is not None and d > 0 and d & (d - 1) == 0 and not signed:
                    return a & KB.const(a.w, d - 1)
                if d and a.value() is not None and not signed:
                    return KB.const(w, a.value() % d)
                if d and a.value() is not None and signed:
                    sa = a.value() - (1 << a.w) if a.value() >> (a.w - 1) else a.value()
                    sd = d - (1 << b.w) if d >> (b.w - 1) else d
                    q_ = abs(sa) // abs(sd) * (1 if (sa < 0) == (sd < 0) else -1)
                    return KB.const(w, sa - q_ * sd)
                return KB.top(w)
            if op in ('*', '/') and a.value() is not None and b.value() is not None and signed:
                sa = a.value() - (1 << a.w) if a.value() >> (a.w - 1) else a.value()
                sb = b.value() - (1 << b.w) if b.value() >> (b.w - 1) else b.value()
                if op == '*':
                    return KB.const(w, sa * sb)
                if sb == 0:
                    self.ub.append('division by zero in %s' % astq.show(n)[:60])
                    return KB.top(w)
                return KB.const(w, abs(sa) // abs(sb) * (1 if (sa < 0) == (sb < 0) else -1))
            if op in ('*', '/'):
                if a.value() is not None and b.value() is not None and not signed:
                    v = a.value() * b.value() if op == '*' else (a.value() // b.value() if b.value() else 0)
                    return KB.const(w, v)
                return KB.top(w)
            if op in ('==', '!=', '<', '>', '<=', '>='):
                av, bv = a.value(), b.value()
                if av is not None and bv is not None:
                    lt = type_info(n['l'].get('ty'))
                    if lt and lt[1]:
                        av = av - (1 << a.w) if av >> (a.w - 1) else av
                        bv = bv - (1 << b.w) if bv >> (b.w - 1) else bv
                    res = {'==': av == bv, '!=': av != bv, '<': av < bv, '>': av > bv, '<=': av <= bv, '>=': av >= bv}[op]
                    return KB.const(w, 1 if res else 0)
                lt = type_info(n['l'].get('ty'))
                if lt and not lt[1] and op in ('<', '>=', '>', '<='):
                    # unsigned interval reasoning from the known bits
                    alo, ahi, blo, bhi = a.umin(), a.umax(), b.umin(), b.umax()
                    dec = None
                    if op in ('<', '>='):
                        dec = True if ahi < blo else (False if alo >= bhi else None)
                        if dec is not None and op == '>=':
                            dec = not dec
                    else:
                        dec = True if alo > bhi else (False if ahi <= blo else None)
                        if dec is not None and op == '<=':
                            dec = not dec
                    if dec is not None:
                        return KB.const(w, 1 if dec else 0)
                if lt and lt[1] and bv == 0 and op in ('<', '>=') and a.bit(a.w - 1) is not None:
                    neg = a.bit(a.w - 1) == 1
                    return KB.const(w, 1 if (neg if op == '<' else not neg) else 0)
                return KB.top(w)
            if op in ('&&', '||'):
                av, bv = a.value(), b.value()
                if op == '||' and ((av is not None and av) or (bv is not None and bv)):
                    return KB.const(w, 1)
                if op == '&&' and ((av is not None and not av) or (bv is not None and not bv)):
                    return KB.const(w, 0)
                if av is not None and bv is not None:
                    return KB.const(w, 1 if ((av and bv) if op == '&&' else (av or bv)) else 0)
                return KB.top(w)
            raise AnalysisBroken('known-bits: unsupported operator %s' % op)
        if k == 'Cond':
            c = self.ev(n['c']).value()
            if c is not None:
                return self.ev(n['t'] if c else n['f'])
            return self.ev(n['t']).join(self.ev(n['f']))
        if k == 'Call':
            return self.call(n)
        if k in ('Int', 'Bool'):
            w, _ = self.width_of(n)
            return KB.const(w, n['v'])
        raise AnalysisBroken('known-bits: unsupported expression kind %s: %s' % (k, astq.show(n)[:80]))

    def call(self, n):
        fn = n.get('fn')
        if fn in self.overrides:
            w, _ = self.width_of(n)
            return self.overrides[fn].resize(w, False)
        if fn and self.F.has_func(fn) and self.depth < 8:
            f = self.F.func(fn)
            ovs = self.F.overloads(fn) if hasattr(self.F, 'overloads') else [f]
            if len(ovs) > 1:
                # overloaded name: pick by arity (the resolved call lists default arguments explicitly), then by parameter types
                cand = [o for o in ovs if len(o['params']) == len(n.get('a', []))]
                if len(cand) > 1:
                    cand = [o for o in cand if all((type_info(p['ty']) or (None,))[0] == (type_info(a.get('ty')) or (None,))[0] for p, a in zip(o['params'], n['a']))]
                if len(cand) != 1:
                    w, _ = self.width_of(n)
                    return KB.top(w)
                f = cand[0]
            env = {}
            for p, a in zip(f['params'], n.get('a', [])):
                ti = type_info(p['ty'])
                if ti is not None:
                    env[p['id']] = self.ev(a).resize(ti[0], (type_info(a.get('ty')) or (0, False))[1])
            sub = KBEval(self.F, env, self.depth + 1, self.overrides)
            r = sub.run_body(f)
            self.ub += sub.ub
            if r is not None:
                return r
        w, _ = self.width_of(n)
        return KB.top(w)

    # ------------------------------------------------------------------ statements
    def run_body(self, f):
        rets = []
        self._exec(f['body'], rets)
        if not rets:
            return None
        r = rets[0]
        for x in rets[1:]:
            r = r.join(x)
        return r

    def assign(self, lhs, kb):
        self.env[self.key(lhs)] = kb

    def _exec(self, s, rets):
        if s is None:
            return
        k = s['k']
        if k == 'Compound':
            for x in s['s']:
                if self._exec(x, rets):
                    return True      # a return was executed on this (decided) path
        elif k == 'Decl':
            for d in s['d']:
                if 'init' in d and type_info(d.get('ty')) is not None:
                    w, sg = type_info(d['ty'])
                    v = self.ev(d['init'])
                    self.env[d['id']] = v.resize(w, (type_info(d['init'].get('ty')) or (0, False))[1])
        elif k == 'Return':
            if s.get('e') is not None:
                rets.append(self.ev(s['e']))
            return True
        elif k == 'Assign':
            if type_info(s['l'].get('ty')) is None:
                return
            lw = type_info(s['l'].get('ty'))
            v = self.ev(s['r'])
            self.assign(s['l'], v.resize(lw[0], (type_info(s['r'].get('ty')) or (0, False))[1]))
        elif k == 'CAssign':
            if type_info(s['l'].get('ty')) is None:
                return
            op = s['op'][:-1]
            fake = dict(k='Bin', op=op, l=s['l'], r=s['r'], ty=s.get('cty') or s.get('ty'))
            lw = type_info(s['l'].get('ty'))
            cw = type_info(fake['ty'])
            # computation type may be wider than the lhs: evaluate at computation width, truncate back
            a = self.ev(s['l'])
            b = self.ev(s['r'])
            if cw and a.w != cw[0]:
                a = a.resize(cw[0], lw[1] if lw else False)
            if op in ('<<', '>>'):
                cnt = b.value()
                if cnt is None:
                    r = KB.top(a.w)
                else:
                    r = a.shl(cnt) if op == '<<' else a.lshr(cnt)
            else:
                if b.w != a.w:
                    b = b.resize(a.w, (type_info(s['r'].get('ty')) or (0, False))[1])
                if op in ('*', '/', '%') and a.value() is not None and b.value() is not None and (op == '*' or b.value() != 0) and not (lw and lw[1]):
                    av, bv = a.value(), b.value()
                    r = KB.const(a.w, {'*': av * bv, '/': av // bv if bv else 0, '%': av % bv if bv else 0}[op])
                else:
                    r = {'&': lambda: a & b, '|': lambda: a | b, '^': lambda: a ^ b, '+': lambda: a.add(b), '-': lambda: a.sub(b)}.get(op, lambda: KB.top(a.w))()
            if lw and r.w != lw[0]:
                r = r.resize(lw[0], False)
            self.assign(s['l'], r)
        elif k == 'If':
            c = astq.val(s['c'])
            if c is None:
                try:
                    c = self.ev(s['c']).value()
                except AnalysisBroken:
                    c = None
            if c is not None:
                return self._exec(s['t'] if c else s.get('e'), rets)
            else:
                e1 = KBEval(self.F, self.env, self.depth, self.overrides)
                e2 = KBEval(self.F, self.env, self.depth, self.overrides)
                e1._exec(s['t'], rets)
                e2._exec(s.get('e'), rets)
                keys = set(e1.env) | set(e2.env)
                for key in keys:
                    a, b = e1.env.get(key), e2.env.get(key)
                    if a is not None and b is not None and a.w == b.w:
                        self.env[key] = a.join(b)
                    elif key in self.env:
                        del self.env[key]
        elif k in ('Call', 'Cast', 'Un', 'Bin', 'Null', 'For', 'While', 'Do'):
            pass
        else:
            raise AnalysisBroken('known-bits: unsupported statement %s' % k)
