"""Queries over the LLVM-IR facts produced by tools/rxir.cc (engine E2)."""
import re

from core import AnalysisBroken

PTR_PASS = {'bitcast', 'getelementptr', 'addrspacecast', 'inttoptr', 'ptrtoint', 'phi', 'select', 'freeze'}

# external functions: which pointer parameters they write through / read
EXT_WRITES = {
    'memcpy': [0], 'memmove': [0], 'memset': [0], 'free': [0], 'munmap': [0], 'mprotect': [], 'realloc': [0],
    'llvm.memcpy': [0], 'llvm.memmove': [0], 'llvm.memset': [0], 'strcpy': [0], 'strncpy': [0], 'posix_memalign': [0],
    'llvm.x86.sse.stmxcsr': [0], 'llvm.x86.sse.ldmxcsr': [], 'llvm.prefetch': [], 'fegetenv': [0], 'fesetenv': [],
    'llvm.x86.sse2.pause': [], 'llvm.lifetime.start': [], 'llvm.lifetime.end': [], 'llvm.dbg.value': [], 'llvm.dbg.declare': [],
    'memcmp': [], 'strlen': [], 'strcmp': [], 'strncmp': [], 'getenv': [], 'fprintf': [], 'printf': [], 'puts': [], 'fputs': [],
    'llvm.x86.aesni.aesenc': [], 'llvm.x86.aesni.aesdec': [], '__cxa_guard_acquire': [0], '__cxa_guard_release': [0], '__cxa_guard_abort': [0],
    '__cxa_atexit': [], 'llvm.x86.sse2.cvtpd2ps': [], 'llvm.va_start': [0], 'llvm.va_end': [0], 'getauxval': [], 'sysconf': [],
    'mmap': [], 'mmap64': [], 'perror': [], 'strerror': [], '__errno_location': [], '_ZdlPv': [0], '_ZdaPv': [0], '_ZdlPvm': [0],
    'llvm.stacksave': [], 'llvm.stackrestore': [], 'llvm.trap': [], 'llvm.assume': [], 'llvm.expect': [], 'llvm.objectsize': [],
    '__cxa_begin_catch': [], '__cxa_end_catch': [], '__cxa_allocate_exception': [], '__cxa_throw': [], '__cxa_free_exception': [0],
    '__cxa_rethrow': [], '__cxa_pure_virtual': [], 'llvm.eh.typeid.for': [], '__clang_call_terminate': [], '_Unwind_Resume': [],
    '__gxx_personality_v0': [], 'abort': [], 'llvm.x86.xgetbv': [], 'llvm.bswap': [], 'llvm.fshl': [], 'llvm.fshr': [], 'llvm.ctlz': [], 'llvm.cttz': [],
    'llvm.sqrt': [], 'llvm.fabs': [], 'llvm.x86.sse2.sqrt.pd': [], 'llvm.umul.with.overflow': [], 'llvm.experimental.noalias.scope.decl': [],
}


def ext_base(name):
    if name.startswith('llvm.'):
        parts = name.split('.')
        # strip type suffixes: llvm.memcpy.p0i8.p0i8.i64 -> llvm.memcpy
        for n in range(len(parts), 1, -1):
            cand = '.'.join(parts[:n])
            if cand in EXT_WRITES:
                return cand
        return '.'.join(parts[:2])
    return name


class Module:
    def __init__(self, m):
        self.m = m
        self.fn = {f['name']: f for f in m['functions']}
        self.glob = {g['name']: g for g in m['globals']}
        self.inst = {}      # fname -> {id: inst}
        for f in m['functions']:
            d = {}
            for b in f.get('blocks', []):
                for i in b['insts']:
                    i['_bb'] = b['id']
                    d[i['i']] = i
            self.inst[f['name']] = d
        self._addr_taken = None
        self._vt = None
        self._callees = {}
        self._wp = None

    # ------------------------------------------------------------------ basics
    def defined(self):
        return [f for f in self.m['functions'] if f['defined']]

    def insts(self, f):
        for b in f.get('blocks', []):
            for i in b['insts']:
                yield i

    def by_dem(self, pattern):
        rx = re.compile(pattern)
        return [f for f in self.m['functions'] if rx.search(f['dem'])]

    def one(self, name):
        if name not in self.fn:
            raise AnalysisBroken('IR function not found: %s' % name)
        return self.fn[name]

    # ------------------------------------------------------------------ pointer roots
    def roots(self, f, op, depth=0, _seen=None):
        """Set of roots an address operand may be derived from.
        root = ('g', name) | ('a', idx) | ('alloca', id) | ('call', id) | ('load', id) | ('null',) | ('const',) | ('other', id)"""
        if _seen is None:
            _seen = set()
        out = set()
        st = [op]
        insts = self.inst[f['name']]
        while st:
            o = st.pop()
            if 'g' in o:
                out.add(('g', o['g']))
            elif 'a' in o:
                out.add(('a', o['a']))
            elif 'null' in o:
                out.add(('null',))
            elif 'c' in o or 'k' in o or 'u' in o:
                out.add(('const',))
            elif 'f' in o:
                out.add(('f', o['f']))
            elif 'ce' in o:
                if o['ce'] in ('getelementptr', 'bitcast', 'addrspacecast', 'inttoptr', 'ptrtoint'):
                    st.append(o['ops'][0])
                else:
                    for x in o['ops']:
                        st.append(x)
            elif 'v' in o:
                if o['v'] in _seen:
                    continue
                _seen.add(o['v'])
                i = insts.get(o['v'])
                if i is None:
                    out.add(('other', o['v']))
                    continue
                opc = i['op']
                if opc in ('bitcast', 'getelementptr', 'addrspacecast', 'inttoptr', 'ptrtoint', 'freeze'):
                    st.append(i['ops'][0])
                elif opc == 'phi':
                    st.extend(i['ops'])
                elif opc == 'select':
                    st.extend(i['ops'][1:])
                elif opc == 'alloca':
                    out.add(('alloca', i['i']))
                elif opc == 'load':
                    out.add(('load', i['i']))
                elif opc in ('call', 'invoke'):
                    out.add(('call', i['i']))
                elif opc in ('add', 'sub', 'and', 'or', 'xor', 'mul', 'shl', 'lshr'):
                    # pointer arithmetic done on integers
                    st.extend(i['ops'])
                else:
                    out.add(('other', i['i']))
        return out

    def deep_roots(self, f, op, maxdepth=4):
        """Like roots() but looks through loads: returns (root, nloads) pairs, i.e. the storage the
        address was ultimately read from."""
        out = set()
        work = [(op, 0)]
        seen = set()
        insts = self.inst[f['name']]
        while work:
            o, d = work.pop()
            for r in self.roots(f, o):
                if r[0] == 'load' and d < maxdepth:
                    key = (r[1], d)
                    if key in seen:
                        continue
                    seen.add(key)
                    work.append((insts[r[1]]['ops'][0], d + 1))
                else:
                    out.add((r, d))
        return out

    # ------------------------------------------------------------------ writes
    def write_sites(self, f):
        """[(inst, address operand, kind)] for every instruction of f that writes memory through an
        explicit address: stores, atomics, memory intrinsics and known external writers."""
        out = []
        for i in self.insts(f):
            opc = i['op']
            if opc == 'store':
                out.append((i, i['ops'][1], 'store'))
            elif opc in ('atomicrmw', 'cmpxchg'):
                out.append((i, i['ops'][0], opc))
            elif opc in ('call', 'invoke') and 'callee' in i:
                base = ext_base(i['callee'])
                cf = self.fn.get(i['callee'])
                if cf is not None and cf['defined']:
                    continue
                if base in EXT_WRITES:
                    for idx in EXT_WRITES[base]:
                        if idx < len(i['ops']):
                            out.append((i, i['ops'][idx], base))
        return out

    # ------------------------------------------------------------------ call graph
    def addr_taken(self):
        if self._addr_taken is None:
            s = set()
            for g in self.m['globals']:
                for x in g.get('slots', []) or []:
                    if x and not x.startswith('@'):
                        s.add(x)

            def scan(o):
                if 'f' in o:
                    s.add(o['f'])
                elif 'ce' in o:
                    for x in o['ops']:
                        scan(x)
            for f in self.defined():
                for i in self.insts(f):
                    for o in i.get('ops', []):
                        scan(o)
            self._addr_taken = s
        return self._addr_taken

    def vtables(self):
        if self._vt is None:
            self._vt = [g for g in self.m['globals'] if g['name'].startswith('_ZTV') and g.get('slots')]
        return self._vt

    @staticmethod
    def _sig_tail(fty):
        # "void (%class.X*, i8*, i64)" -> ("void", ["i8*","i64"])
        m = re.match(r'^(.*?) \((.*)\)$', fty)
        if not m:
            return fty, []
        params = []
        depth = 0
        cur = ''
        for ch in m.group(2):
            if ch in '(<[{':
                depth += 1
            elif ch in ')>]}':
                depth -= 1
            if ch == ',' and depth == 0:
                params.append(cur.strip())
                cur = ''
            else:
                cur += ch
        if cur.strip():
            params.append(cur.strip())
        return m.group(1), params

    def vslot_of(self, f, i):
        """If instruction i of f is a virtual call, return the vtable slot index, else None."""
        ic = i.get('icallee')
        if not ic or 'v' not in ic:
            return None
        insts = self.inst[f['name']]
        ld = insts.get(ic['v'])
        if not ld or ld['op'] != 'load':
            return None
        a = ld['ops'][0]
        if 'v' not in a:
            return None
        g = insts.get(a['v'])
        slot = 0
        if g and g['op'] == 'getelementptr' and len(g['ops']) == 2 and 'c' in g['ops'][1]:
            slot = g['ops'][1]['c']
            base = g['ops'][0]
        elif g and g['op'] == 'load':
            base = a
        else:
            return None
        if 'v' not in base:
            return None
        vl = insts.get(base['v'])
        if not vl or vl['op'] != 'load':
            return None
        # vptr load: pointer operand is a bitcast of the object to T***
        if not vl['ty'].endswith('**'):
            return None
        return slot

    def resolve_call(self, f, i):
        """Possible callees of a call instruction: (list of function names, kind)
        kind in direct | virtual | fnptr | opaque"""
        if 'callee' in i:
            return [i['callee']], 'direct'
        slot = self.vslot_of(f, i)
        ret, params = self._sig_tail(i['fty'])
        if slot is not None:
            cands = set()
            for vt in self.vtables():
                sl = vt['slots']
                idx = slot + 2
                if idx < len(sl) and sl[idx] and not sl[idx].startswith('@'):
                    cf = self.fn.get(sl[idx])
                    if cf is None:
                        continue
                    r2, p2 = self._sig_tail(cf['ty'])
                    if r2 == ret and p2[1:] == params[1:]:
                        cands.add(sl[idx])
            if cands:
                return sorted(cands), 'virtual'
        cands = []
        for name in self.addr_taken():
            cf = self.fn.get(name)
            if cf is None:
                continue
            if cf['ty'] == i['fty']:
                cands.append(name)
            else:
                r2, p2 = self._sig_tail(cf['ty'])
                # member-function pointers: `this` type may be a base class
                if r2 == ret and len(p2) == len(params) and p2[1:] == params[1:] and p2 and params and p2[0].startswith('%') and params[0].startswith('%'):
                    cands.append(name)
        if cands:
            return sorted(cands), 'fnptr'
        return [], 'opaque'

    def callees(self, f):
        """[(inst, [callee names], kind)] for all calls of f."""
        k = f['name']
        if k not in self._callees:
            out = []
            for i in self.insts(f):
                if i['op'] in ('call', 'invoke'):
                    names, kind = self.resolve_call(f, i)
                    out.append((i, names, kind))
            self._callees[k] = out
        return self._callees[k]

    def reachable(self, entries, stop=None, edge_filter=None):
        """Functions reachable from the named entries; returns {name: (parent, call loc)}."""
        seen = {}
        work = []
        for e in entries:
            if e in self.fn:
                seen[e] = (None, None)
                work.append(e)
        while work:
            n = work.pop()
            f = self.fn[n]
            if not f['defined']:
                continue
            if stop and stop(n):
                continue
            for i, names, kind in self.callees(f):
                for c in names:
                    if edge_filter and not edge_filter(n, i, c, kind):
                        continue
                    if c not in seen:
                        seen[c] = (n, i.get('loc'))
                        work.append(c)
        return seen

    def path_to(self, reach, name):
        p = []
        while name is not None:
            par, loc = reach[name]
            p.append((name, loc))
            name = par
        return list(reversed(p))

    # ------------------------------------------------------------------ writes-through-parameter summaries
    def writes_param(self):
        """{function name: set of parameter indices the function may write through (transitively)}"""
        if self._wp is not None:
            return self._wp
        wp = {}
        for f in self.m['functions']:
            if not f['defined']:
                base = ext_base(f['name'])
                if base in EXT_WRITES:
                    wp[f['name']] = set(EXT_WRITES[base])
                else:
                    wp[f['name']] = None      # unknown
            else:
                wp[f['name']] = set()
        changed = True
        it = 0
        while changed and it < 50:
            changed = False
            it += 1
            for f in self.defined():
                cur = wp[f['name']]
                new = set(cur)
                for i, addr, kind in self.write_sites(f):
                    for r in self.roots(f, addr):
                        if r[0] == 'a':
                            new.add(r[1])
                for i, names, kind in self.callees(f):
                    for c in names:
                        s = wp.get(c)
                        cf = self.fn.get(c)
                        if s is None:
                            # unknown external: conservatively writes through every non-readonly pointer parameter
                            s = set()
                            if cf is not None:
                                for idx, a in enumerate(cf['args']):
                                    if a['ty'].endswith('*') and not a.get('readonly'):
                                        s.add(idx)
                        for idx in s:
                            if idx < len(i['ops']):
                                for r in self.roots(f, i['ops'][idx]):
                                    if r[0] == 'a':
                                        new.add(r[1])
                if new != cur:
                    wp[f['name']] = new
                    changed = True
        self._wp = wp
        return wp
