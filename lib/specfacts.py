"""Machine-readable statements of doc/specs.md (engine E4): pipe tables by caption, hex key blocks,
AES lane diagrams.  An unrecognised layout raises AnalysisBroken (exit 2), never a silent pass."""
import re

from core import AnalysisBroken


class SpecFacts:
    def __init__(self, path):
        self.path = path
        with open(path, encoding='utf-8') as fh:
            self.lines = fh.read().split('\n')
        self.tables = {}      # 'n.n.n' -> dict(caption, header, rows[list of dict], line)
        self.sections = {}    # heading number -> (start line idx, end line idx, title)
        self._parse_tables()
        self._parse_sections()

    def _parse_tables(self):
        i = 0
        L = self.lines
        while i < len(L):
            m = re.match(r'^\*Table (\d+(?:\.\d+)*)\s*[-:]?\s*(.*?)\*\s*$', L[i].strip())
            if m:
                num, cap = m.group(1), m.group(2)
                j = i + 1
                while j < len(L) and not L[j].lstrip().startswith('|'):
                    j += 1
                    if j - i > 4:
                        break
                if j >= len(L) or not L[j].lstrip().startswith('|'):
                    raise AnalysisBroken('spec: table %s has no pipe table after its caption (line %d)' % (num, i + 1))
                header = self._cells(L[j])
                rows = []
                k = j + 1
                while k < len(L) and L[k].lstrip().startswith('|'):
                    cells = self._cells(L[k])
                    if not all(re.match(r'^:?-*:?$', c) for c in cells):
                        row = {}
                        for ci, h in enumerate(header):
                            row[h] = cells[ci] if ci < len(cells) else ''
                        row['_line'] = k + 1
                        row['_cells'] = cells
                        rows.append(row)
                    k += 1
                if num in self.tables:
                    num2 = num + 'b'   # the spec numbers two tables 6.3.1/6.3.2 "Decoder configurations"
                    self.tables[num2] = dict(caption=cap, header=header, rows=rows, line=i + 1)
                else:
                    self.tables[num] = dict(caption=cap, header=header, rows=rows, line=i + 1)
                i = k
            else:
                i += 1

    @staticmethod
    def _cells(line):
        s = line.strip()
        if s.startswith('|'):
            s = s[1:]
        if s.endswith('|'):
            s = s[:-1]
        return [c.strip() for c in s.split('|')]

    def _parse_sections(self):
        heads = []
        for i, ln in enumerate(self.lines):
            m = re.match(r'^(#+)\s+(\d+(?:\.\d+)*)\.?\s+(.*)$', ln)
            if m:
                heads.append((i, len(m.group(1)), m.group(2), m.group(3)))
        for idx, (i, lvl, num, title) in enumerate(heads):
            end = len(self.lines)
            for (j, lvl2, _, _) in heads[idx + 1:]:
                if lvl2 <= lvl:
                    end = j
                    break
            self.sections.setdefault(num, (i, end, title))

    def table(self, num, header=None):
        t = self.tables.get(num)
        if t is None:
            raise AnalysisBroken('spec: Table %s not found in doc/specs.md' % num)
        if header is not None:
            if [h.replace('`', '') for h in t['header'][:len(header)]] != header:
                raise AnalysisBroken('spec: Table %s has header %s, expected %s' % (num, t['header'], header))
        return t

    def section_text(self, num):
        if num not in self.sections:
            raise AnalysisBroken('spec: section %s not found' % num)
        a, b, _ = self.sections[num]
        return self.lines[a:b], a + 1

    def hex_keys(self, secnum):
        """{name: bytes} for lines `name = hh hh ...` inside fenced blocks of a section."""
        lines, base = self.section_text(secnum)
        out = {}
        for off, ln in enumerate(lines):
            m = re.match(r'^\s*(\w+)\s*=\s*((?:[0-9a-fA-F]{2}\s+){15}[0-9a-fA-F]{2})\s*$', ln)
            if m:
                out[m.group(1)] = (bytes(int(x, 16) for x in m.group(2).split()), base + off)
        return out

    def lane_diagrams(self, secnum):
        """List of diagrams; each diagram is a list of rounds; each round is [(op, key)] x 4 lanes."""
        lines, base = self.section_text(secnum)
        diagrams = []
        cur = None
        i = 0
        infence = False
        while i < len(lines):
            ln = lines[i]
            if ln.strip().startswith('```'):
                infence = not infence
                if not infence and cur:
                    diagrams.append(cur)
                cur = [] if infence else None
                i += 1
                continue
            if infence:
                ops = re.findall(r'AES (encrypt|decrypt)', ln)
                if len(ops) == 4 and i + 1 < len(lines):
                    keys = re.findall(r'\((\w+)\)', lines[i + 1])
                    if len(keys) != 4:
                        raise AnalysisBroken('spec %s: lane diagram line %d has %d keys' % (secnum, base + i + 1, len(keys)))
                    cur.append(list(zip(['enc' if o == 'encrypt' else 'dec' for o in ops], keys)))
                    i += 2
                    continue
            i += 1
        return [d for d in diagrams if d]

    @staticmethod
    def code(cell):
        return cell.replace('`', '').strip()
