// Reproducer for the C03 finding (BIND-GUARD): randomx_vm_set_cache skips the re-bind when key and
// cache->memory are equal, although an interpreted light VM also captured the cache *object*.
// History: alloc A, init K, create VM on A, hash; release A; some allocation that reuses A's
// struct storage; alloc C (its 256 MiB buffer is mapped where A's was), init K; set_cache(vm, C); hash.
// Before the fix the VM keeps dereferencing the freed A (crash or garbage); after it, the hash is
// the same as a fresh VM's.
#include "../../../repo/src/randomx.h"
#include <cstdio>
#include <cstdlib>
#include <cstring>
#include <vector>
int main() {
	const char key[] = "history key";
	const char input[] = "input";
	unsigned char h1[32], h2[32];
	randomx_cache* A = randomx_alloc_cache(RANDOMX_FLAG_DEFAULT);
	randomx_init_cache(A, key, sizeof key);
	void* memA = randomx_get_cache_memory(A);
	randomx_vm* vm = randomx_create_vm(RANDOMX_FLAG_DEFAULT, A, nullptr);
	randomx_calculate_hash(vm, input, sizeof input, h1);
	randomx_release_cache(A);
	// grab the freed struct (and neighbours) and scribble over it
	std::vector<void*> hold;
	for (int i = 0; i < 64; ++i) { void* p = malloc(4000 + 16 * (i % 8)); memset(p, 0xAA, 4000); hold.push_back(p); }
	randomx_cache* C = randomx_alloc_cache(RANDOMX_FLAG_DEFAULT);
	randomx_init_cache(C, key, sizeof key);
	void* memC = randomx_get_cache_memory(C);
	printf("A=%p C=%p memA=%p memC=%p\n", (void*)A, (void*)C, memA, memC);
	if (memA != memC || (void*)A == (void*)C) { printf("SKIP: allocator did not reproduce the address pattern\n"); return 77; }
	randomx_vm_set_cache(vm, C);
	randomx_calculate_hash(vm, input, sizeof input, h2);
	if (memcmp(h1, h2, 32) != 0) { printf("FAIL: hash differs after re-binding to an equal cache\n"); return 1; }
	printf("OK\n");
	return 0;
}
