#!/bin/sh
# reproducer for the RVV IMUL_RCP literal displacement finding (RISC-V vector JIT code generator exercised on the x86-64 host).
#
#   usage:  WT=<built scratch copy of /repo> sh repro.sh 300 1   (300 IMUL_RCP instructions in one RandomX v2 program)
#
# Needs: the worktree built in $WT/_b (librandomx.a), g++, clang (with the RISC-V target), llvm-objcopy, llvm-nm.
# exit 0 = property holds, exit 1 = violated, exit 2 = harness problem.
#
# The RISC-V JIT cannot be *executed* here, but its code generator (src/jit_compiler_rv64_vector.cpp) is portable
# C++: the script cross-assembles the template code (src/jit_compiler_rv64_vector_static.S), embeds it as a data blob
# with the original symbol names/offsets, compiles the worktree's jit_compiler_rv64_vector.cpp natively and links
# repro.cpp, which decodes the generated RISC-V instructions and resolves what every IMUL_RCP really multiplies by.
set -e
WT=${WT:-/tmp/wt3_C18}
HERE=$(cd "$(dirname "$0")" && pwd)
TMP=$(mktemp -d /tmp/rvv_rcp_repro.XXXXXX)
trap 'rm -rf "$TMP"' EXIT
cd "$TMP"

OBJCOPY=$(command -v llvm-objcopy || command -v llvm-objcopy-14)
NM=$(command -v llvm-nm || command -v llvm-nm-14)

# clang 14 has no Zvkned assembler support: replace the vector AES instructions (4 bytes each, irrelevant for
# IMUL_RCP) by same-sized nops so that the layout of the template is unchanged.
sed -E 's/^[[:space:]]*vaes(em|dm|ef|df)\.v[vs][[:space:]].*$/\t.word 0x00000013/' \
	"$WT/src/jit_compiler_rv64_vector_static.S" > rv64v_static.S
clang --target=riscv64-linux-gnu -march=rv64gcv -I"$WT/src" -c rv64v_static.S -o rv64v_static.o || exit 2
"$OBJCOPY" -O binary --only-section=.text rv64v_static.o rv64v_text.bin || exit 2

{
	echo '.section .rodata'
	echo '.balign 64'
	echo 'rv64v_blob:'
	echo '.incbin "rv64v_text.bin"'
	"$NM" --defined-only --extern-only rv64v_static.o | while read addr type name; do
		echo ".globl $name"
		echo ".set $name, rv64v_blob + 0x$addr"
	done
	echo '.section .note.GNU-stack,"",@progbits'
} > rv64v_blob.S
gcc -c rv64v_blob.S -o rv64v_blob.o || exit 2

g++ -std=c++11 -O1 -I"$WT/src" -c "$WT/src/jit_compiler_rv64_vector.cpp" -o jit_rv64v.o || exit 2
g++ -std=c++11 -O1 -I"$WT/src" "$HERE/repro.cpp" jit_rv64v.o rv64v_blob.o "$WT/_b/librandomx.a" -lpthread -o demo_rv64v 2>/dev/null \
	|| g++ -std=c++11 -O1 -I"$WT/src" "$HERE/repro.cpp" jit_rv64v.o rv64v_blob.o "$WT/_b/librandomx.a" -lpthread -o demo_rv64v || exit 2

set +e
./demo_rv64v "$@"
rc=$?
[ $rc -gt 2 ] && { echo "demo crashed (exit code $rc) - counts as FAIL"; rc=1; }
exit $rc
