/*
  C18_7 demonstration: RISC-V (RVV) JIT, IMUL_RCP reciprocal literals of programs with many IMUL_RCP instructions.

  Do not build this file by hand - run the driver next to it:

      WT=/tmp/wt3_C18 sh /tmp/seeds3/C18/C18_7/demo.sh [numRcp [v2]]

  (the worktree must have been built first: cmake -S $WT -B $WT/_b -G Ninja && cmake --build $WT/_b).
  The driver cross-assembles src/jit_compiler_rv64_vector_static.S with clang --target=riscv64-linux-gnu
  (the four Zvkned AES mnemonics, which clang 14 does not know, are replaced by same-sized nops - they are irrelevant
  here), embeds the template code as a data blob, compiles the worktree's src/jit_compiler_rv64_vector.cpp (the code
  *generator* is portable C++) for this x86-64 host and links both with this file and $WT/_b/librandomx.a:

      g++ -std=c++11 -O1 -I$WT/src demo.cpp jit_rv64v.o rv64v_blob.o $WT/_b/librandomx.a -lpthread

  What is checked: generateProgramVectorRV64() compiles a program that contains `numRcp` (default 40) IMUL_RCP
  instructions with random non-power-of-two divisors (plus a few zero/power-of-two ones and 1-word INEG_R / IXOR_R
  fillers). The emitted RISC-V code is decoded and for every IMUL_RCP the 64-bit value that the emitted "mul" really
  multiplies by is resolved
    - "mul xD, xD, xN"                      -> literal slot that the static prologue loads into xN ("ld xN, off(x18)")
    - "fmv.x.d x5, fN; mul xD, xD, x5"      -> literal slot that the static prologue loads into fN ("fld fN, off(x18)")
    - "ld x5, off(x18); mul xD, xD, x5"     -> the 8 bytes at imul_rcp_literals + off (x18 = imul_rcp_literals)
  and compared with floor(2^(63+bitlength(d)) / d) (and with randomx_reciprocal / randomx_reciprocal_fast).

  exit 0 = OK, exit 1 = property violated.
*/
#include <cstdio>
#include <cstdlib>
#include <cstring>
#include <cstdint>
#include <vector>
#include "program.hpp"
#include "bytecode_machine.hpp"
#include "reciprocal.h"
#include "jit_compiler_rv64_vector.h"
#include "jit_compiler_rv64_vector_static.h"
#include "instruction_weights.hpp"

using namespace randomx;

#define INST_HANDLE(x) REPN(static_cast<uint8_t>(randomx::InstructionType::x), WT(x))
alignas(64) static const uint8_t instMap[256] = {
	INST_HANDLE(IADD_RS) INST_HANDLE(IADD_M) INST_HANDLE(ISUB_R) INST_HANDLE(ISUB_M) INST_HANDLE(IMUL_R) INST_HANDLE(IMUL_M)
	INST_HANDLE(IMULH_R) INST_HANDLE(IMULH_M) INST_HANDLE(ISMULH_R) INST_HANDLE(ISMULH_M) INST_HANDLE(IMUL_RCP) INST_HANDLE(INEG_R)
	INST_HANDLE(IXOR_R) INST_HANDLE(IXOR_M) INST_HANDLE(IROR_R) INST_HANDLE(IROL_R) INST_HANDLE(ISWAP_R) INST_HANDLE(FSWAP_R)
	INST_HANDLE(FADD_R) INST_HANDLE(FADD_M) INST_HANDLE(FSUB_R) INST_HANDLE(FSUB_M) INST_HANDLE(FSCAL_R) INST_HANDLE(FMUL_R)
	INST_HANDLE(FDIV_M) INST_HANDLE(FSQRT_R) INST_HANDLE(CBRANCH) INST_HANDLE(CFROUND) INST_HANDLE(ISTORE) INST_HANDLE(NOP)
};

static uint64_t rng_state = 0x9E3779B97F4A7C15ULL;
static uint64_t rnd() { //xorshift64*
	rng_state ^= rng_state >> 12; rng_state ^= rng_state << 25; rng_state ^= rng_state >> 27;
	return rng_state * 0x2545F4914F6CDD1DULL;
}
static uint64_t exactReciprocal(uint32_t d) {
	int bl = 32 - __builtin_clz(d);
	return (uint64_t)((((unsigned __int128)1) << (63 + bl)) / d);
}
static uint16_t rd16(const uint8_t* p) { uint16_t v; memcpy(&v, p, 2); return v; }
static uint32_t rd32(const uint8_t* p) { uint32_t v; memcpy(&v, p, 4); return v; }
static uint64_t rd64(const uint8_t* p) { uint64_t v; memcpy(&v, p, 8); return v; }

#define OFF(sym) ((size_t)((const uint8_t*)&(sym) - (const uint8_t*)&randomx_riscv64_vector_code_begin))

//the long form used beyond the reach of the 12-bit displacement: x5 = constant (li / lui / c.lui + addiw); c.add x5, x18; ld x5, 0(x5); mul
//returns the length of the sequence in bytes (0 = no match) and the constant as the displacement from x18
static int longForm(const uint8_t* p, uint32_t mulX5, int& byteOffset) {
	int n = 0;
	int64_t v = 0;
	bool have = false;
	uint16_t h = rd16(p);
	if ((h & 3) != 3) {
		if ((h & 0xEF83) == 0x6281) { //c.lui x5, nzimm
			int32_t imm = (((h >> 12) & 1) << 17) | (((h >> 2) & 31) << 12);
			if (imm & (1 << 17)) imm -= (1 << 18);
			v = imm; have = true; n += 2;
		}
	}
	else {
		uint32_t w = rd32(p);
		if ((w & 0xFFF) == 0x2B7) { v = (int32_t)(w & 0xFFFFF000); have = true; n += 4; }              //lui x5, imm
		else if ((w & 0x000FFFFF) == 0x00000293) { v = (int32_t)w >> 20; have = true; n += 4;           //li x5, imm (addi x5, x0, imm)
			goto tail; }
	}
	if (!have) return 0;
	{
		uint32_t w = rd32(p + n);
		if ((w & 0x000FFFFF) == 0x0002829B) { v = (int32_t)(v + ((int32_t)w >> 20)); n += 4; }          //addiw x5, x5, imm
	}
tail:
	if (rd16(p + n) != 0x92CA) return 0;       //c.add x5, x18
	n += 2;
	if (rd32(p + n) != 0x0002B283) return 0;   //ld x5, 0(x5)
	n += 4;
	if (rd32(p + n) != mulX5) return 0;
	n += 4;
	byteOffset = (int)v;
	return n;
}

int main(int argc, char** argv) {
	const int numRcp = argc > 1 ? atoi(argv[1]) : 40;
	const bool v2 = argc > 2 && atoi(argv[2]) != 0;
	const randomx_flags flags = (randomx_flags)(RANDOMX_FLAG_JIT | RANDOMX_FLAG_HARD_AES | (v2 ? RANDOMX_FLAG_V2 : 0));
	const unsigned progSize = Program::getSize(flags);
	if (numRcp + 4 > (int)progSize) { printf("numRcp too large for the program size\n"); return 2; }

	//private copy of the template code, like JitCompilerRV64::JitCompilerRV64() does
	const size_t codeSize = OFF(randomx_riscv64_vector_code_end);
	std::vector<uint8_t> bufv(codeSize + 64);
	uint8_t* buf = bufv.data();
	memcpy(buf, (const void*)&randomx_riscv64_vector_code_begin, codeSize);

	const size_t litOff = OFF(randomx_riscv64_vector_program_imul_rcp_literals);
	const size_t litSize = OFF(randomx_riscv64_vector_program_begin) - litOff;

	//which literal does the static prologue load into which register? (x18 = imul_rcp_literals)
	int slotOfX[32], slotOfF[32];
	for (int i = 0; i < 32; ++i) slotOfX[i] = slotOfF[i] = -1;
	int nx = 0, nf = 0;
	for (size_t pc = OFF(randomx_riscv64_vector_program_begin); pc < OFF(randomx_riscv64_vector_program_main_loop); ) {
		if ((rd16(buf + pc) & 3) != 3) { pc += 2; continue; }
		const uint32_t w = rd32(buf + pc);
		const int rd = (w >> 7) & 31, rs1 = (w >> 15) & 31, imm = (int32_t)w >> 20;
		if ((w & 0x707F) == 0x3003 && rs1 == 18) { slotOfX[rd] = imm; ++nx; }  //ld  xN, imm(x18)
		if ((w & 0x707F) == 0x3007 && rs1 == 18) { slotOfF[rd] = imm; ++nf; }  //fld fN, imm(x18)
		pc += 4;
	}
	printf("template: %d integer + %d FP literal registers, literal array of %zu entries\n", nx, nf, litSize / 8);
	if (nx != 6 || nf != 20) { printf("unexpected template layout\n"); return 2; }

	static Program prog;
	ProgramConfiguration pcfg;
	memset(&pcfg, 0, sizeof(pcfg));
	pcfg.readReg0 = 0; pcfg.readReg1 = 2; pcfg.readReg2 = 4; pcfg.readReg3 = 6;

	std::vector<int> kind(progSize, 0); //0 = filler, 1 = IMUL_RCP, 2 = IMUL_RCP that must be a no-op
	for (int k = 0; k < numRcp + 3; ) {
		unsigned pos = rnd() % progSize;
		if (!kind[pos]) { kind[pos] = (k < numRcp) ? 1 : 2; ++k; }
	}
	for (unsigned i = 0; i < progSize; ++i) {
		Instruction& ins = prog(i);
		ins.dst = rnd() % 8;
		ins.src = (ins.dst + 1 + rnd() % 7) % 8;
		ins.mod = 0;
		if (kind[i] == 1) {
			uint32_t d;
			do { d = (uint32_t)rnd(); } while ((d & (d - 1)) == 0);
			ins.opcode = ceil_IMUL_RCP - 1;
			ins.setImm32(d);
		}
		else if (kind[i] == 2) {
			ins.opcode = ceil_IMUL_RCP - 1;
			ins.setImm32((rnd() & 1) ? 0 : (1u << (rnd() % 32)));
		}
		else {
			ins.opcode = (rnd() & 1) ? ceil_INEG_R - 1 : ceil_IXOR_R - 1;
			ins.setImm32((uint32_t)rnd());
		}
	}

	generateProgramVectorRV64(buf, prog, pcfg, instMap, nullptr, 0, flags);

	int failures = 0, rcpIndex = 0;
	size_t pc = OFF(randomx_riscv64_vector_program_main_loop_instructions);
	for (unsigned i = 0; i < progSize; ++i) {
		const Instruction& ins = prog(i);
		const uint32_t dst = ins.dst % 8, src = ins.src % 8;
		if (kind[i] == 2) continue; //nothing may be emitted
		uint32_t w = rd32(buf + pc);
		if (kind[i] == 0) {
			const uint32_t expect = (ins.opcode == ceil_INEG_R - 1) ? (0x41400A33 + (dst << 7) + (dst << 20)) : (0x014A4A33 + (dst << 7) + (dst << 15) + (src << 20));
			if (w != expect) {
				printf("FAIL: instruction %u at code offset 0x%zx: unexpected code %08x (expected %08x) - decoder out of sync\n", i, pc, w, expect);
				return 1;
			}
			pc += 4;
			continue;
		}
		const uint32_t d = ins.getImm32();
		const uint32_t mulX5 = 0x025A0A33 + (dst << 7) + (dst << 15);
		int byteOffset;
		const char* how;
		char howbuf[64];
		if ((w & 0xFE0FFFFF) == (0x020A0A33 + (dst << 7) + (dst << 15)) && slotOfX[(w >> 20) & 31] >= 0) {
			byteOffset = slotOfX[(w >> 20) & 31];
			snprintf(howbuf, sizeof howbuf, "mul x%u,x%u,x%u", 20 + dst, 20 + dst, (w >> 20) & 31); how = howbuf;
			pc += 4;
		}
		else if ((w & 0xFFF07FFF) == 0xE20002D3 && slotOfF[(w >> 15) & 31] >= 0 && rd32(buf + pc + 4) == mulX5) {
			byteOffset = slotOfF[(w >> 15) & 31];
			snprintf(howbuf, sizeof howbuf, "fmv.x.d x5,f%u; mul", (w >> 15) & 31); how = howbuf;
			pc += 8;
		}
		else if ((w & 0x000FFFFF) == 0x00093283 && rd32(buf + pc + 4) == mulX5) {
			byteOffset = (int32_t)w >> 20;
			snprintf(howbuf, sizeof howbuf, "ld x5,%d(x18); mul", byteOffset); how = howbuf;
			pc += 8;
		}
		else if (int len = longForm(buf + pc, mulX5, byteOffset)) {
			snprintf(howbuf, sizeof howbuf, "li x5,%d; c.add x5,x18; ld x5,0(x5); mul", byteOffset); how = howbuf;
			pc += len;
		}
		else {
			printf("FAIL: IMUL_RCP no. %d (instruction %u, imm32=%u) at code offset 0x%zx: not a multiplication by a literal (found %08x)\n", rcpIndex, i, d, pc, w);
			return 1;
		}
		const uint64_t want = exactReciprocal(d);
		if (want != randomx_reciprocal(d) || want != randomx_reciprocal_fast(d)) {
			printf("FAIL: randomx_reciprocal(%u) is not exact\n", d);
			return 1;
		}
		if (byteOffset < 0 || (size_t)byteOffset + 8 > litSize) {
			printf("FAIL: IMUL_RCP no. %d (instruction %u, imm32=%u): [%s] reads outside the literal array (byte offset %d)\n", rcpIndex, i, d, how, byteOffset);
			++failures;
		}
		else {
			const uint64_t have = rd64(buf + litOff + byteOffset); //what an (unaligned) 64-bit load returns on a little-endian machine
			if (have != want) {
				if (failures < 5)
					printf("FAIL: IMUL_RCP no. %d (instruction %u, imm32=%u): [%s] multiplies by %llu (literal byte offset %d%s), expected floor(2^x/d) = %llu\n",
						rcpIndex, i, d, how, (unsigned long long)have, byteOffset, (byteOffset & 7) ? ", misaligned" : "", (unsigned long long)want);
				++failures;
			}
		}
		++rcpIndex;
	}
	if (failures) {
		printf("FAIL: %d of %d IMUL_RCP instructions of the program multiply by a wrong value\n", failures, rcpIndex);
		return 1;
	}
	printf("OK: program with %d IMUL_RCP instructions (%s, %u instructions): every IMUL_RCP multiplies by the exact reciprocal\n", rcpIndex, v2 ? "v2" : "v1", progSize);
	return 0;
}
