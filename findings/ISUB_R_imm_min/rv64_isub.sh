#!/bin/sh
# C20_3 demonstration: runs the code emitted by the scalar RV64GC JIT (src/jit_compiler_rv64.cpp + src/jit_compiler_rv64_static.S)
# inside a small RV64IMFDC emulator (rv64emu.hpp) on this x86-64 host and compares register file + scratchpad / hashes /
# dataset items with the library's bytecode interpreter (rvharness.cpp). Exit 0 = equal everywhere, non-zero = mismatch.
#
# Build + run (after building the library:  cmake -S /tmp/wt_C20 -B /tmp/wt_C20/_b -G Ninja && cmake --build /tmp/wt_C20/_b):
#     sh /tmp/seeds/C20/C20_3/demo.sh
# optional environment: WT=<worktree> (default /tmp/wt_C20), LIB=<path to librandomx.a> (default $WT/_b/librandomx.a)
# Scenarios run: dataset hash imm   ('dataset' and 'hash' are sanity checks that pass with and without the patch)
#
#   WT  = RandomX work tree (default /tmp/wt_C20), LIB = built librandomx.a (default $WT/_b/librandomx.a)
# Needs: clang with the riscv64 target (assembler only), llvm-objcopy, llvm-nm, g++.
set -e
WT=${WT:?set WT to a checkout with _b/librandomx.a built}
LIB=${LIB:-$WT/_b/librandomx.a}
HERE=$(cd "$(dirname "$0")" && pwd)
OUT=$(mktemp -d /tmp/c20demo.XXXXXX)
trap 'rm -rf "$OUT"' EXIT
# 1. assemble the hand-written RV64 runtime exactly as shipped (RV64GC, no Zba/Zbb) and take its .text bytes
clang --target=riscv64-linux-gnu -march=rv64gc -mno-relax -I"$WT/src" -c "$WT/src/jit_compiler_rv64_static.S" -o "$OUT/rv_static.o"
if llvm-objdump -r "$OUT/rv_static.o" | grep -q R_RISCV; then echo "unexpected relocations in rv_static.o"; exit 2; fi
llvm-objcopy -O binary -j .text "$OUT/rv_static.o" "$OUT/rv_static.bin"
# 2. wrap the bytes into a host object that defines the randomx_riscv64_* symbols at the right offsets
{
  echo '.section .rodata'; echo '.balign 64'; echo 'rvblob:'; echo ".incbin \"$OUT/rv_static.bin\""
  llvm-nm "$OUT/rv_static.o" | awk '$2=="T"{printf ".globl %s\n.set %s, rvblob+0x%s\n",$3,$3,$1}'
  echo '.section .note.GNU-stack,"",@progbits'
} > "$OUT/rvblob.S"
# 3. compile the (possibly patched) JIT compiler source for the host; only cpu.hpp is substituted
cp "$WT/src/jit_compiler_rv64.cpp" "$OUT/jit_compiler_rv64.cpp"
cp "$HERE/cpu_shim.hpp" "$OUT/cpu.hpp"
g++ -std=c++17 -O2 -w -I"$OUT" -I"$WT/src" -c "$OUT/jit_compiler_rv64.cpp" -o "$OUT/jit_rv64.o"
g++ -std=c++17 -O2 -w -frounding-math -I"$HERE" -I"$WT/src" -c "$HERE/rvharness.cpp" -o "$OUT/rvharness.o"
g++ -no-pie -o "$OUT/rvharness" "$OUT/rvharness.o" "$OUT/jit_rv64.o" "$OUT/rvblob.S" "$LIB" -lpthread 2>"$OUT/link.log" || { cat "$OUT/link.log"; exit 2; }
# 4. run
"$OUT/rvharness" dataset hash imm
