// Minimal RV64IMFDC + Zicsr(fcsr) user-mode emulator, just enough to run the code emitted by
// RandomX's scalar RISC-V JIT (src/jit_compiler_rv64.cpp + src/jit_compiler_rv64_static.S).
// Guest addresses are host addresses (flat, identity mapped). FP arithmetic is delegated to the
// host FPU (IEEE-754 binary64, correctly rounded + - * / sqrt) with the host rounding mode switched
// to the guest frm value before every arithmetic instruction.
#pragma once
#include <cstdint>
#include <cstring>
#include <cstdio>
#include <cstdlib>
#include <cfenv>
#include <cmath>
#include <stdexcept>
#include <string>

namespace rvemu {

struct Trap : std::runtime_error {
	explicit Trap(const std::string& s) : std::runtime_error(s) {}
};

struct Cpu {
	uint64_t x[32];
	uint64_t f[32];
	uint64_t pc;
	uint32_t frm = 0;
	uint32_t fflags = 0;
	uint64_t icount = 0;
	uint64_t ilimit = 0;
	int hostRm = -1;

	static constexpr uint64_t RETURN_MAGIC = 0x7fff0000deadbee0ull;

	Cpu() { memset(x, 0, sizeof x); memset(f, 0, sizeof f); pc = 0; }

	template<typename T> static T ld(uint64_t a) { T v; memcpy(&v, (const void*)(uintptr_t)a, sizeof v); return v; }
	template<typename T> static void st(uint64_t a, T v) { memcpy((void*)(uintptr_t)a, &v, sizeof v); }

	static int64_t sext(uint64_t v, int bits) { return (int64_t)(v << (64 - bits)) >> (64 - bits); }

	void setHostRounding(unsigned rm) {
		if (rm == 7) rm = frm;
		if ((int)rm == hostRm) return;
		int m;
		switch (rm) {
		case 0: m = FE_TONEAREST; break;
		case 1: m = FE_TOWARDZERO; break;
		case 2: m = FE_DOWNWARD; break;
		case 3: m = FE_UPWARD; break;
		default: throw Trap("unsupported rounding mode " + std::to_string(rm));
		}
		fesetround(m);
		hostRm = rm;
	}

	static double asD(uint64_t b) { double d; memcpy(&d, &b, 8); return d; }
	static uint64_t asU(double d) { uint64_t b; memcpy(&b, &d, 8); return b; }

	uint64_t csrRead(uint32_t csr) {
		switch (csr) {
		case 1: return fflags;
		case 2: return frm;
		case 3: return (frm << 5) | fflags;
		default: throw Trap("unsupported CSR read " + std::to_string(csr));
		}
	}
	void csrWrite(uint32_t csr, uint64_t v) {
		switch (csr) {
		case 1: fflags = v & 31; break;
		case 2: frm = v & 7; break;
		case 3: fflags = v & 31; frm = (v >> 5) & 7; break;
		default: throw Trap("unsupported CSR write " + std::to_string(csr));
		}
	}

	[[noreturn]] void illegal(uint32_t insn) {
		char buf[128];
		snprintf(buf, sizeof buf, "illegal/unsupported instruction 0x%08x at pc=0x%llx", insn, (unsigned long long)pc);
		throw Trap(buf);
	}

	void wr(unsigned rd, uint64_t v) { if (rd) x[rd] = v; }

	void step() {
		uint16_t lo = ld<uint16_t>(pc);
		if ((lo & 3) != 3) { stepC(lo); return; }
		uint32_t insn = ld<uint32_t>(pc);
		uint64_t npc = pc + 4;
		unsigned opc = insn & 0x7f, rd = (insn >> 7) & 31, f3 = (insn >> 12) & 7, rs1 = (insn >> 15) & 31, rs2 = (insn >> 20) & 31, f7 = insn >> 25;
		int64_t immI = (int32_t)insn >> 20;
		int64_t immS = (int64_t)(((int32_t)insn >> 25) * 32) | (int64_t)rd;
		switch (opc) {
		case 0x37: wr(rd, (int64_t)(int32_t)(insn & 0xfffff000)); break;
		case 0x17: wr(rd, pc + (int64_t)(int32_t)(insn & 0xfffff000)); break;
		case 0x6f: {
			int64_t imm = (int64_t)((int32_t)insn >> 31) * (1 << 20) + (int64_t)((insn & 0xff000) | ((insn >> 9) & 0x800) | ((insn >> 20) & 0x7fe));
			wr(rd, npc); npc = pc + imm; break;
		}
		case 0x67: {
			if (f3 != 0) illegal(insn);
			uint64_t t = (x[rs1] + immI) & ~1ull; wr(rd, npc); npc = t; break;
		}
		case 0x63: {
			int64_t imm = (int64_t)((int32_t)insn >> 31) * (1 << 12) + (int64_t)(((insn << 4) & 0x800) | ((insn >> 20) & 0x7e0) | ((insn >> 7) & 0x1e));
			uint64_t a = x[rs1], b = x[rs2]; bool t;
			switch (f3) {
			case 0: t = a == b; break; case 1: t = a != b; break;
			case 4: t = (int64_t)a < (int64_t)b; break; case 5: t = (int64_t)a >= (int64_t)b; break;
			case 6: t = a < b; break; case 7: t = a >= b; break;
			default: illegal(insn);
			}
			if (t) npc = pc + imm; break;
		}
		case 0x03: {
			uint64_t a = x[rs1] + immI; uint64_t v;
			switch (f3) {
			case 0: v = (int64_t)ld<int8_t>(a); break; case 1: v = (int64_t)ld<int16_t>(a); break;
			case 2: v = (int64_t)ld<int32_t>(a); break; case 3: v = ld<uint64_t>(a); break;
			case 4: v = ld<uint8_t>(a); break; case 5: v = ld<uint16_t>(a); break; case 6: v = ld<uint32_t>(a); break;
			default: illegal(insn);
			}
			wr(rd, v); break;
		}
		case 0x23: {
			uint64_t a = x[rs1] + immS;
			switch (f3) {
			case 0: st<uint8_t>(a, x[rs2]); break; case 1: st<uint16_t>(a, x[rs2]); break;
			case 2: st<uint32_t>(a, x[rs2]); break; case 3: st<uint64_t>(a, x[rs2]); break;
			default: illegal(insn);
			}
			break;
		}
		case 0x13: {
			uint64_t a = x[rs1]; unsigned sh = (insn >> 20) & 63; uint64_t v;
			switch (f3) {
			case 0: v = a + immI; break;
			case 1: if ((insn >> 26) != 0) illegal(insn); v = a << sh; break;
			case 2: v = (int64_t)a < immI; break;
			case 3: v = a < (uint64_t)immI; break;
			case 4: v = a ^ immI; break;
			case 5: if ((insn >> 26) == 0) v = a >> sh; else if ((insn >> 26) == 0x10) v = (int64_t)a >> sh; else illegal(insn); break;
			case 6: v = a | immI; break;
			case 7: v = a & immI; break;
			}
			wr(rd, v); break;
		}
		case 0x1b: {
			uint32_t a = x[rs1]; unsigned sh = rs2; int32_t v;
			switch (f3) {
			case 0: v = a + (uint32_t)immI; break;
			case 1: if (f7 != 0) illegal(insn); v = a << sh; break;
			case 5: if (f7 == 0) v = a >> sh; else if (f7 == 0x20) v = (int32_t)a >> sh; else illegal(insn); break;
			default: illegal(insn);
			}
			wr(rd, (int64_t)v); break;
		}
		case 0x33: {
			uint64_t a = x[rs1], b = x[rs2], v;
			if (f7 == 0x00) {
				switch (f3) {
				case 0: v = a + b; break; case 1: v = a << (b & 63); break;
				case 2: v = (int64_t)a < (int64_t)b; break; case 3: v = a < b; break;
				case 4: v = a ^ b; break; case 5: v = a >> (b & 63); break;
				case 6: v = a | b; break; case 7: v = a & b; break;
				}
			}
			else if (f7 == 0x20) {
				if (f3 == 0) v = a - b; else if (f3 == 5) v = (int64_t)a >> (b & 63); else illegal(insn);
			}
			else if (f7 == 0x01) {
				switch (f3) {
				case 0: v = a * b; break;
				case 1: v = (uint64_t)(((__int128)(int64_t)a * (__int128)(int64_t)b) >> 64); break;
				case 2: v = (uint64_t)(((__int128)(int64_t)a * (__int128)(unsigned __int128)b) >> 64); break;
				case 3: v = (uint64_t)(((unsigned __int128)a * (unsigned __int128)b) >> 64); break;
				case 4: v = b == 0 ? ~0ull : ((int64_t)a == INT64_MIN && (int64_t)b == -1) ? a : (uint64_t)((int64_t)a / (int64_t)b); break;
				case 5: v = b == 0 ? ~0ull : a / b; break;
				case 6: v = b == 0 ? a : ((int64_t)a == INT64_MIN && (int64_t)b == -1) ? 0 : (uint64_t)((int64_t)a % (int64_t)b); break;
				case 7: v = b == 0 ? a : a % b; break;
				}
			}
			else illegal(insn);
			wr(rd, v); break;
		}
		case 0x3b: {
			uint32_t a = x[rs1], b = x[rs2]; int32_t v;
			if (f7 == 0x00) {
				if (f3 == 0) v = a + b; else if (f3 == 1) v = a << (b & 31); else if (f3 == 5) v = a >> (b & 31); else illegal(insn);
			}
			else if (f7 == 0x20) {
				if (f3 == 0) v = a - b; else if (f3 == 5) v = (int32_t)a >> (b & 31); else illegal(insn);
			}
			else if (f7 == 0x01 && f3 == 0) v = a * b;
			else illegal(insn);
			wr(rd, (int64_t)v); break;
		}
		case 0x07: {
			uint64_t a = x[rs1] + immI;
			if (f3 == 3) f[rd] = ld<uint64_t>(a); else illegal(insn);
			break;
		}
		case 0x27: {
			uint64_t a = x[rs1] + immS;
			if (f3 == 3) st<uint64_t>(a, f[rs2]); else illegal(insn);
			break;
		}
		case 0x53: {
			switch (f7) {
			case 0x01: case 0x05: case 0x09: case 0x0d: {
				setHostRounding(f3);
				volatile double a = asD(f[rs1]), b = asD(f[rs2]); volatile double r;
				if (f7 == 0x01) r = a + b; else if (f7 == 0x05) r = a - b; else if (f7 == 0x09) r = a * b; else r = a / b;
				f[rd] = asU(r); break;
			}
			case 0x2d: {
				if (rs2 != 0) illegal(insn);
				setHostRounding(f3);
				volatile double a = asD(f[rs1]); volatile double r = __builtin_sqrt(a);
				f[rd] = asU(r); break;
			}
			case 0x11: {
				uint64_t a = f[rs1], b = f[rs2], s = 1ull << 63;
				if (f3 == 0) f[rd] = (a & ~s) | (b & s);
				else if (f3 == 1) f[rd] = (a & ~s) | (~b & s);
				else if (f3 == 2) f[rd] = a ^ (b & s);
				else illegal(insn);
				break;
			}
			case 0x71: if (f3 != 0 || rs2 != 0) illegal(insn); wr(rd, f[rs1]); break;
			case 0x79: if (f3 != 0 || rs2 != 0) illegal(insn); f[rd] = x[rs1]; break;
			case 0x69: {
				double r;
				if (rs2 == 0) r = (double)(int32_t)x[rs1];          //fcvt.d.w (exact)
				else if (rs2 == 1) r = (double)(uint32_t)x[rs1];    //fcvt.d.wu (exact)
				else { setHostRounding(f3); volatile double t = rs2 == 2 ? (double)(int64_t)x[rs1] : (double)x[rs1]; r = t; if (rs2 > 3) illegal(insn); }
				f[rd] = asU(r); break;
			}
			default: illegal(insn);
			}
			break;
		}
		case 0x73: {
			uint32_t csr = insn >> 20;
			if (f3 == 0) illegal(insn);
			uint64_t src = (f3 & 4) ? rs1 : x[rs1];
			uint64_t old = 0;
			bool doRead = !((f3 & 3) == 1 && rd == 0);
			if (doRead) old = csrRead(csr);
			switch (f3 & 3) {
			case 1: csrWrite(csr, src); break;
			case 2: if (rs1 != 0) csrWrite(csr, old | src); break;
			case 3: if (rs1 != 0) csrWrite(csr, old & ~src); break;
			default: illegal(insn);
			}
			wr(rd, old); break;
		}
		case 0x0f: break; //fence
		default: illegal(insn);
		}
		pc = npc;
	}

	void stepC(uint16_t c) {
		uint64_t npc = pc + 2;
		unsigned op = c & 3, f3 = c >> 13;
		unsigned rdp = 8 + ((c >> 2) & 7), rs1p = 8 + ((c >> 7) & 7);
		unsigned rd = (c >> 7) & 31, rs2 = (c >> 2) & 31;
		int64_t imm6 = sext(((c >> 7) & 0x20) | ((c >> 2) & 0x1f), 6);
		if (c == 0) illegal(c);
		if (op == 0) {
			unsigned uimmD = ((c >> 7) & 0x38) | ((c << 1) & 0xc0);               //ld/sd/fld/fsd
			unsigned uimmW = ((c >> 7) & 0x38) | ((c >> 4) & 0x4) | ((c << 1) & 0x40); //lw/sw
			switch (f3) {
			case 0: {
				unsigned nz = ((c >> 7) & 0x30) | ((c >> 1) & 0x3c0) | ((c >> 4) & 0x4) | ((c >> 2) & 0x8);
				if (nz == 0) illegal(c);
				x[rdp] = x[2] + nz; break;
			}
			case 1: f[rdp] = ld<uint64_t>(x[rs1p] + uimmD); break;
			case 2: x[rdp] = (int64_t)ld<int32_t>(x[rs1p] + uimmW); break;
			case 3: x[rdp] = ld<uint64_t>(x[rs1p] + uimmD); break;
			case 5: st<uint64_t>(x[rs1p] + uimmD, f[rdp]); break;
			case 6: st<uint32_t>(x[rs1p] + uimmW, x[rdp]); break;
			case 7: st<uint64_t>(x[rs1p] + uimmD, x[rdp]); break;
			default: illegal(c);
			}
		}
		else if (op == 1) {
			switch (f3) {
			case 0: wr(rd, x[rd] + imm6); break; //c.addi / c.nop
			case 1: if (rd == 0) illegal(c); x[rd] = (int64_t)(int32_t)((uint32_t)x[rd] + (uint32_t)imm6); break; //c.addiw
			case 2: wr(rd, imm6); break; //c.li
			case 3:
				if (rd == 2) {
					int64_t imm = sext(((c >> 3) & 0x200) | ((c >> 2) & 0x10) | ((c << 1) & 0x40) | ((c << 4) & 0x180) | ((c << 3) & 0x20), 10);
					if (imm == 0) illegal(c);
					x[2] += imm;
				}
				else {
					if (imm6 == 0) illegal(c); //reserved
					wr(rd, imm6 << 12);
				}
				break;
			case 4: {
				unsigned sub = (c >> 10) & 3;
				unsigned sh = ((c >> 7) & 0x20) | ((c >> 2) & 0x1f);
				if (sub == 0) x[rs1p] >>= sh;
				else if (sub == 1) x[rs1p] = (int64_t)x[rs1p] >> sh;
				else if (sub == 2) x[rs1p] &= imm6;
				else {
					unsigned k = ((c >> 10) & 4) | ((c >> 5) & 3);
					uint64_t a = x[rs1p], b = x[rdp];
					switch (k) {
					case 0: a = a - b; break; case 1: a = a ^ b; break; case 2: a = a | b; break; case 3: a = a & b; break;
					case 4: a = (int64_t)(int32_t)((uint32_t)a - (uint32_t)b); break;
					case 5: a = (int64_t)(int32_t)((uint32_t)a + (uint32_t)b); break;
					default: illegal(c);
					}
					x[rs1p] = a;
				}
				break;
			}
			case 5: {
				int64_t imm = sext(((c >> 1) & 0x800) | ((c >> 7) & 0x10) | ((c >> 1) & 0x300) | ((c << 2) & 0x400) | ((c >> 1) & 0x40) | ((c << 1) & 0x80) | ((c >> 2) & 0xe) | ((c << 3) & 0x20), 12);
				npc = pc + imm; break;
			}
			case 6: case 7: {
				int64_t imm = sext(((c >> 4) & 0x100) | ((c >> 7) & 0x18) | ((c << 1) & 0xc0) | ((c >> 2) & 0x6) | ((c << 3) & 0x20), 9);
				bool z = x[rs1p] == 0;
				if ((f3 == 6) == z) npc = pc + imm;
				break;
			}
			}
		}
		else { //op == 2
			switch (f3) {
			case 0: {
				unsigned sh = ((c >> 7) & 0x20) | ((c >> 2) & 0x1f);
				wr(rd, x[rd] << sh); break;
			}
			case 1: f[rd] = ld<uint64_t>(x[2] + (((c >> 7) & 0x20) | ((c >> 2) & 0x18) | ((c << 4) & 0x1c0))); break;
			case 2: if (rd == 0) illegal(c); x[rd] = (int64_t)ld<int32_t>(x[2] + (((c >> 7) & 0x20) | ((c >> 2) & 0x1c) | ((c << 4) & 0xc0))); break;
			case 3: if (rd == 0) illegal(c); x[rd] = ld<uint64_t>(x[2] + (((c >> 7) & 0x20) | ((c >> 2) & 0x18) | ((c << 4) & 0x1c0))); break;
			case 4:
				if (!(c & 0x1000)) {
					if (rs2 == 0) { if (rd == 0) illegal(c); npc = x[rd] & ~1ull; } //c.jr
					else wr(rd, x[rs2]); //c.mv
				}
				else {
					if (rs2 == 0) {
						if (rd == 0) illegal(c); //c.ebreak
						uint64_t t = x[rd] & ~1ull; x[1] = npc; npc = t; //c.jalr
					}
					else wr(rd, x[rd] + x[rs2]); //c.add
				}
				break;
			case 5: st<uint64_t>(x[2] + (((c >> 7) & 0x38) | ((c >> 1) & 0x1c0)), f[rs2]); break;
			case 6: st<uint32_t>(x[2] + (((c >> 7) & 0x3c) | ((c >> 1) & 0xc0)), x[rs2]); break;
			case 7: st<uint64_t>(x[2] + (((c >> 7) & 0x38) | ((c >> 1) & 0x1c0)), x[rs2]); break;
			}
		}
		pc = npc;
	}

	//call a guest function with up to 4 integer arguments (standard calling convention)
	void call(const void* fn, uint64_t a0, uint64_t a1, uint64_t a2, uint64_t a3, uint8_t* stackTop, uint64_t maxInsns) {
		x[1] = RETURN_MAGIC;
		x[2] = (uint64_t)(uintptr_t)stackTop;
		x[10] = a0; x[11] = a1; x[12] = a2; x[13] = a3;
		pc = (uint64_t)(uintptr_t)fn;
		hostRm = -1;
		uint64_t end = icount + maxInsns;
		while (pc != RETURN_MAGIC) {
			if (icount++ >= end) throw Trap("instruction limit exceeded (runaway guest code)");
			step();
		}
		fesetround(FE_TONEAREST);
		hostRm = -1;
	}
};

} // namespace rvemu
