#!/bin/sh
# Demonstration driver for seed C19_1 (property C19: ARM64 JIT == interpreter).
#
# Usage:   sh demo.sh            (worktree defaults to /tmp/wt_C19, override with WT=<path>)
# Needs:   <WT>/_b/librandomx.a already built (cmake --build), clang with the AArch64 target,
#          llvm-objcopy, llvm-nm, g++.
#
# The ARM64 back-end cannot run on this x86-64 host, so the demo
#   1. assembles src/jit_compiler_a64_static.S for aarch64 and wraps the raw .text bytes in a host
#      object that exports the randomx_*_aarch64 labels at their true offsets,
#   2. compiles src/jit_compiler_a64.cpp (the code generator itself is portable C++) for the host,
#   3. lets a64_isub.cpp drive the generator and executes the emitted AArch64 words with a small
#      AArch64 interpreter, comparing the result against the library's own interpreter
#      (linked from librandomx.a).
# Exit status 0 = JIT and interpreter agree, non-zero = they differ.
set -e
WT=${WT:?set WT to a checkout of tevador/RandomX with _b/librandomx.a built}
HERE=$(cd "$(dirname "$0")" && pwd)
T=$(mktemp -d)
trap 'rm -rf "$T"' EXIT

clang --target=aarch64-linux-gnu -c -I"$WT/src" "$WT/src/jit_compiler_a64_static.S" -o "$T/a64.o"
llvm-objcopy -O binary -j .text "$T/a64.o" "$T/a64.bin"
{
	echo '	.data'
	echo '	.balign 64'
	echo 'a64_blob:'
	echo "	.incbin \"$T/a64.bin\""
	llvm-nm "$T/a64.o" | awk '$2 ~ /^[Tt]$/ && $3 ~ /^randomx_/ { printf "\t.globl %s\n\t.set %s, a64_blob + 0x%s\n", $3, $3, $1 }'
	echo '	.section .note.GNU-stack,"",@progbits'
} > "$T/blob.S"
gcc -c "$T/blob.S" -o "$T/blob.o"

g++ -std=c++11 -O1 -w -I"$WT/src" "$HERE/a64_isub.cpp" "$T/blob.o" "$WT/_b/librandomx.a" -lpthread -o "$T/demo"
"$T/demo"
