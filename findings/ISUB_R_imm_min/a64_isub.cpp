// Seed C19_1 demo. Build and run with:   sh demo.sh      (see demo.sh for the exact steps; in short:
//   clang --target=aarch64-linux-gnu -c -I<wt>/src <wt>/src/jit_compiler_a64_static.S -o a64.o
//   llvm-objcopy -O binary -j .text a64.o a64.bin ; wrap a64.bin + its symbols into blob.o (host object)
//   g++ -std=c++11 -O1 -w -I<wt>/src demo.cpp blob.o <wt>/_b/librandomx.a -lpthread -o demo && ./demo )
//
// Checks memory-operand instructions whose displacement is zero after masking: the emitted AArch64
// code must compute the address from the *source register*, like the interpreter does.
// ---------------------------------------------------------------------------
// Minimal AArch64 interpreter: just the integer subset that JitCompilerA64 and
// randomx_calc_dataset_item_aarch64 use. Addresses are host addresses (the
// emitted code is position independent), so loads/stores go straight to host
// memory. Any instruction word that is not understood aborts the run.
// ---------------------------------------------------------------------------
#include <cstdint>
#include <cstdio>
#include <cstdlib>
#include <cstring>

struct A64 {
	uint64_t x[32] = {};      // x[31] is SP (never XZR here; XZR handled on decode)
	const uint8_t* vlit = nullptr; // memory image of v0..v15 (16 bytes each)
	bool n = 0, z = 0, c = 0, v = 0;
	uint64_t steps = 0, takenBranches = 0;

	static uint64_t ror64(uint64_t a, unsigned r) { r &= 63; return r ? (a >> r) | (a << (64 - r)) : a; }
	static uint64_t ones(unsigned nbits) { return nbits >= 64 ? ~0ULL : ((1ULL << nbits) - 1); }

	// DecodeBitMasks for logical immediates (64-bit datasize)
	static uint64_t bitmask64(unsigned N, unsigned immr, unsigned imms) {
		unsigned comb = (N << 6) | (~imms & 0x3F);
		int len = -1;
		for (int i = 6; i >= 0; --i) if (comb & (1u << i)) { len = i; break; }
		if (len < 1) { fprintf(stderr, "bad bitmask immediate\n"); exit(3); }
		unsigned esize = 1u << len;
		unsigned levels = esize - 1;
		unsigned S = imms & levels, R = immr & levels;
		uint64_t welem = ones(S + 1);
		uint64_t elem = (esize == 64) ? ror64(welem, R)
			: (((welem >> R) | (welem << (esize - R))) & ones(esize));
		if (R == 0) elem = welem;
		uint64_t res = 0;
		for (unsigned i = 0; i < 64; i += esize) res |= elem << i;
		return res;
	}

	uint64_t rz(unsigned r) const { return r == 31 ? 0 : x[r]; }   // register or XZR
	void wz(unsigned r, uint64_t val) { if (r != 31) x[r] = val; }

	static uint64_t shifted(uint64_t val, unsigned type, unsigned amt) {
		switch (type) {
		case 0: return val << amt;
		case 1: return val >> amt;
		case 2: return (uint64_t)((int64_t)val >> amt);
		default: return ror64(val, amt);
		}
	}

	// Runs from pc until pc == stop (or a RET when stop == nullptr). Returns final pc.
	const uint8_t* run(const uint8_t* pc, const uint8_t* stop, uint64_t maxSteps = 10000000) {
		for (;;) {
			if (pc == stop) return pc;
			if (++steps > maxSteps) { fprintf(stderr, "emulator: step limit\n"); exit(3); }
			uint32_t w; memcpy(&w, pc, 4);
			const unsigned rd = w & 31, rn = (w >> 5) & 31, rm = (w >> 16) & 31, ra = (w >> 10) & 31;
			const uint8_t* next = pc + 4;

			if ((w & 0xBF200000) == 0x8B000000) {                           // ADD/SUB (shifted register), 64-bit
				uint64_t op2 = shifted(rz(rm), (w >> 22) & 3, (w >> 10) & 63);
				wz(rd, (w & 0x40000000) ? rz(rn) - op2 : rz(rn) + op2);
			}
			else if ((w & 0x1F000000) == 0x0A000000) {                      // logical (shifted register)
				bool sf = w >> 31;
				uint64_t op2 = shifted(rz(rm), (w >> 22) & 3, (w >> 10) & 63);
				if (w & 0x00200000) op2 = ~op2;
				uint64_t a = rz(rn), r;
				switch ((w >> 29) & 3) { case 0: r = a & op2; break; case 1: r = a | op2; break; case 2: r = a ^ op2; break;
					default: r = a & op2; z = (sf ? r : (uint32_t)r) == 0; n = sf ? (r >> 63) : ((r >> 31) & 1); c = v = 0; }
				if (!sf) { if (((w >> 22) & 3) || ((w >> 10) & 63)) { fprintf(stderr, "32-bit shifted logical unsupported\n"); exit(3); } r = (uint32_t)r; }
				wz(rd, r);
			}
			else if ((w & 0xFFE08000) == 0x9B000000) {                      // MADD
				wz(rd, rz(ra) + rz(rn) * rz(rm));
			}
			else if ((w & 0xFFE08000) == 0x9BC00000) {                      // UMULH
				wz(rd, (uint64_t)(((unsigned __int128)rz(rn) * rz(rm)) >> 64));
			}
			else if ((w & 0xFFE08000) == 0x9B400000) {                      // SMULH
				wz(rd, (uint64_t)(((__int128)(int64_t)rz(rn) * (int64_t)rz(rm)) >> 64));
			}
			else if ((w & 0xFF800000) == 0xD2800000) {                      // MOVZ
				wz(rd, (uint64_t)((w >> 5) & 0xFFFF) << (16 * ((w >> 21) & 3)));
			}
			else if ((w & 0xFF800000) == 0x92800000) {                      // MOVN
				wz(rd, ~((uint64_t)((w >> 5) & 0xFFFF) << (16 * ((w >> 21) & 3))));
			}
			else if ((w & 0xFF800000) == 0xF2800000) {                      // MOVK
				unsigned sh = 16 * ((w >> 21) & 3);
				wz(rd, (rz(rd) & ~(0xFFFFULL << sh)) | ((uint64_t)((w >> 5) & 0xFFFF) << sh));
			}
			else if ((w & 0xBF800000) == 0x91000000) {                      // ADD/SUB (immediate), 64-bit; reg 31 = SP
				uint64_t imm = (w >> 10) & 0xFFF; if (w & 0x00400000) imm <<= 12;
				x[rd] = (w & 0x40000000) ? x[rn] - imm : x[rn] + imm;
			}
			else if ((w & 0xFF000000) == 0x58000000) {                      // LDR (literal), 64-bit
				int64_t off = ((int32_t)(w << 8) >> 13) * 4;
				uint64_t val; memcpy(&val, pc + off, 8); wz(rd, val);
			}
			else if ((w & 0xFFE0FC00) == 0x9AC02C00) {                      // RORV
				wz(rd, ror64(rz(rn), rz(rm) & 63));
			}
			else if ((w & 0xFFE00000) == 0x93C00000) {                      // EXTR
				unsigned lsb = (w >> 10) & 63;
				wz(rd, lsb ? (rz(rm) >> lsb) | (rz(rn) << (64 - lsb)) : rz(rm));
			}
			else if ((w & 0xFF800000) == 0x92000000) {                      // AND (immediate), 64-bit
				x[rd] = rz(rn) & bitmask64((w >> 22) & 1, (w >> 16) & 63, (w >> 10) & 63);
			}
			else if ((w & 0xFF800000) == 0xF2000000) {                      // ANDS (immediate), 64-bit
				uint64_t r = rz(rn) & bitmask64((w >> 22) & 1, (w >> 16) & 63, (w >> 10) & 63);
				z = r == 0; n = r >> 63; c = v = 0; wz(rd, r);
			}
			else if ((w & 0xFFA0EC00) == 0xF8206800) {                      // LDR/STR (register, LSL), 64-bit
				uint8_t* addr = (uint8_t*)(x[rn] + (rz(rm) << ((w & 0x1000) ? 3 : 0)));
				if (w & 0x00400000) { uint64_t val; memcpy(&val, addr, 8); wz(rd, val); }
				else { uint64_t val = rz(rd); memcpy(addr, &val, 8); }
			}
			else if ((w & 0xFFE7FC00) == 0x0E043C00) {                      // UMOV Wd, Vn.S[i]
				uint32_t val; memcpy(&val, vlit + 16 * rn + 4 * ((w >> 19) & 3), 4); wz(rd, val);
			}
			else if ((w & 0xFFE7FC00) == 0x4E042C00) {                      // SMOV Xd, Vn.S[i]
				int32_t val; memcpy(&val, vlit + 16 * rn + 4 * ((w >> 19) & 3), 4); wz(rd, (uint64_t)(int64_t)val);
			}
			else if ((w & 0xFF000010) == 0x54000000) {                      // B.cond
				bool t;
				switch (w & 15) { case 0: t = z; break; case 1: t = !z; break; default: fprintf(stderr, "cond unsupported\n"); exit(3); }
				if (t) { next = pc + ((int32_t)(w << 8) >> 13) * 4; ++takenBranches; }
			}
			else if ((w & 0xFC000000) == 0x14000000) {                      // B
				next = pc + ((int32_t)(w << 6) >> 6) * 4;
			}
			else if ((w & 0xFFC00000) == 0xA9000000 || (w & 0xFFC00000) == 0xA9400000) { // STP/LDP (signed offset), 64-bit
				int64_t off = ((int32_t)(w << 10) >> 25) * 8;
				uint64_t* addr = (uint64_t*)(x[rn] + off);
				unsigned rt2 = (w >> 10) & 31;
				if (w & 0x00400000) { uint64_t a, b; memcpy(&a, addr, 8); memcpy(&b, addr + 1, 8); wz(rd, a); wz(rt2, b); }
				else { uint64_t a = rz(rd), b = rz(rt2); memcpy(addr, &a, 8); memcpy(addr + 1, &b, 8); }
			}
			else if ((w & 0xFFC00000) == 0xF9800000) {                      // PRFM (immediate)
			}
			else if (w == 0xD65F03C0) {                                     // RET
				if (stop == nullptr) return pc;
				fprintf(stderr, "unexpected ret\n"); exit(3);
			}
			else {
				fprintf(stderr, "emulator: unsupported instruction %08x\n", w);
				exit(3);
			}
			pc = next;
		}
	}
};
// ---------------------------------------------------------------------------
// Differential harness: JitCompilerA64 (host-compiled, emitted AArch64 code run
// by the mini interpreter above) versus randomx::BytecodeMachine (the library's
// reference interpreter) on one pass over an integer-only program.
// ---------------------------------------------------------------------------
namespace randomx { class JitCompilerA64; }
#include "jit_compiler_a64.cpp"          // found through -I<wt>/src ; gives access to PrologueSize etc.
#include "bytecode_machine.hpp"
#include <vector>

using namespace randomx;

static uint64_t rng_state = 0x9E3779B97F4A7C15ULL;
static uint64_t rnd() { rng_state ^= rng_state << 13; rng_state ^= rng_state >> 7; rng_state ^= rng_state << 17; return rng_state; }

static void setInstr(Program& p, int i, int opcode, int dst, int src, int mod, uint32_t imm) {
	Instruction& in = p(i);
	in.opcode = (uint8_t)opcode; in.dst = (uint8_t)dst; in.src = (uint8_t)src; in.setMod((uint8_t)mod); in.setImm32(imm);
}

// first opcode byte of each instruction class
enum : int {
	OP_IADD_RS = ceil_NULL, OP_IADD_M = ceil_IADD_RS, OP_ISUB_R = ceil_IADD_M, OP_ISUB_M = ceil_ISUB_R, OP_IMUL_R = ceil_ISUB_M,
	OP_IMUL_M = ceil_IMUL_R, OP_IMUL_RCP = ceil_ISMULH_M, OP_IXOR_R = ceil_INEG_R, OP_IXOR_M = ceil_IXOR_R, OP_ISWAP_R = ceil_IROL_R,
	OP_CBRANCH = ceil_FSQRT_R, OP_ISTORE = ceil_CFROUND
};

static void fillNops(Program& p) {
	memset((void*)&p, 0, sizeof(p));
	for (int i = 0; i < RANDOMX_PROGRAM_MAX_SIZE; ++i)
		setInstr(p, i, OP_ISWAP_R, 0, 0, 0, 0);   // ISWAP_R r0, r0 is a NOP in both back-ends
}

// returns true when JIT output == interpreter output
static bool differential(Program& prog, const uint64_t rInit[8], const char* name, randomx_flags flags = RANDOMX_FLAG_DEFAULT) {
	const size_t spSize = RANDOMX_SCRATCHPAD_L3;
	std::vector<uint8_t> spJit(spSize + 64), spInt;
	for (size_t i = 0; i < spSize; i += 8) { uint64_t v = rnd(); memcpy(&spJit[i], &v, 8); }
	spInt = spJit;

	ProgramConfiguration config;
	config.eMask[0] = config.eMask[1] = 0;
	config.readReg0 = 0; config.readReg1 = 2; config.readReg2 = 4; config.readReg3 = 6;

	// --- reference interpreter
	Program progInt; memcpy((void*)&progInt, (void*)&prog, sizeof(Program));
	NativeRegisterFile nreg;
	memcpy(nreg.r, rInit, sizeof(nreg.r));
	static InstructionByteCode bytecode[RANDOMX_PROGRAM_MAX_SIZE];
	BytecodeMachine bm;
	bm.compileProgram(progInt, bytecode, nreg, flags);
	BytecodeMachine::executeBytecode(bytecode, spInt.data(), config, flags);

	// --- ARM64 JIT
	Program progJit; memcpy((void*)&progJit, (void*)&prog, sizeof(Program));
	JitCompilerA64 jit;
	jit.setFlags(flags);
	jit.generateProgram(progJit, config);
	uint8_t* code = jit.getCode();

	A64 cpu;
	static const unsigned intRegMap[8] = { 4, 5, 6, 7, 12, 13, 14, 15 };
	for (int i = 0; i < 8; ++i) cpu.x[intRegMap[i]] = rInit[i];
	cpu.x[2] = (uint64_t)spJit.data();
	// what the prologue of randomx_program_aarch64 does: "ldr x0, literal_x0" ... "ldr q15, literal_v15"
	static const unsigned litRegs[12] = { 0, 11, 21, 22, 23, 24, 25, 26, 27, 28, 29, 30 };
	for (int i = 0; i < 12; ++i) memcpy(&cpu.x[litRegs[i]], code + ImulRcpLiteralsEnd - 96 + 8 * i, 8);
	cpu.vlit = code + ImulRcpLiteralsEnd;
	const size_t endOff = (uint8_t*)randomx_program_aarch64_vm_instructions_end - (uint8_t*)randomx_program_aarch64;
	cpu.run(code + PrologueSize, code + endOff);

	bool ok = true;
	for (int i = 0; i < 8; ++i) {
		if (cpu.x[intRegMap[i]] != nreg.r[i]) {
			printf("  [%s] r%d differs: a64-jit=%016llx interpreter=%016llx\n", name, i, (unsigned long long)cpu.x[intRegMap[i]], (unsigned long long)nreg.r[i]);
			ok = false;
		}
	}
	if (memcmp(spJit.data(), spInt.data(), spSize) != 0) {
		for (size_t i = 0; i < spSize; i += 8) if (memcmp(&spJit[i], &spInt[i], 8)) { printf("  [%s] scratchpad differs at offset 0x%zx\n", name, i); break; }
		ok = false;
	}
	printf("%s: %s (a64 instructions executed: %llu, branches taken: %llu)\n", name, ok ? "match" : "MISMATCH", (unsigned long long)cpu.steps, (unsigned long long)cpu.takenBranches);
	return ok;
}
int main() {
	// ISUB_R with src == dst subtracts the sign-extended imm32 (spec 5.2.3). Sweep corner immediates including 0x80000000.
	uint64_t r[8];
	bool ok = true;
	const uint32_t imms[] = { 0, 1, 0x7ff, 0x1000, 0xffffff, 0x1000000, 0x7fffffff, 0x80000000u, 0x80000001u, 0xfffff000u, 0xffffffffu, 0x12345678, 0xedcba988u };
	for (unsigned k = 0; k < sizeof(imms) / sizeof(imms[0]); ++k) {
		Program p; fillNops(p);
		setInstr(p, 0, OP_ISUB_R, 2, 2, 0, imms[k]);     // r2 -= signExtend(imm32)
		setInstr(p, 1, OP_ISUB_R, 5, 5, 0, imms[k]);
		setInstr(p, 2, OP_ISUB_R, 3, 4, 0, imms[k]);     // register form (control)
		for (auto& v : r) v = rnd();
		char name[64]; snprintf(name, sizeof name, "ISUB_R src==dst imm32=0x%08x", imms[k]);
		ok &= differential(p, r, name);
	}
	if (!ok) { printf("FAIL: ARM64 JIT output differs from the interpreter\n"); return 1; }
	printf("PASS\n");
	return 0;
}
