/*
Reproducer (triage only, never run by a registered check): RV64 *vector* JIT (src/jit_compiler_rv64_vector.cpp), ISUB_R with
src == dst and imm32 = 0x80000000.

  specification / interpreter:  r[dst] -= signExtend(imm32)         -> r + 2^31
  generated code:               x5 = signExtend(-imm32) ; add       -> r - 2^31   (before the fix)

Build and run on the x86-64 host (the code generator is compiled for the host, the integer code it emits is executed by the
small RV64 interpreter below, which comes from the demonstration harness of seeded change C07_5):

  cmake -S <tree> -B <build> -G Ninja && cmake --build <build>
  g++ -O1 -std=c++11 -I<tree>/src rvv_isub.cpp <build>/librandomx.a -lpthread -o rvv_isub && ./rvv_isub

exit 0 = JIT result equals the specified result for every immediate tried, 1 = mismatch.
*/
#include <cstdio>
#include <cstdlib>
#include <cstdint>
#include <cstring>
#include <vector>

//---------------------------------------------------------------------------------------
// zero-filled stand-in for src/jit_compiler_rv64_vector_static.S (layout only)
//---------------------------------------------------------------------------------------
#define STUB(name, size) ".globl " #name "\n" #name ":\n.space " #size "\n"
asm(
	".data\n"
	".balign 16\n"
	".globl randomx_riscv64_vector_code_begin\nrandomx_riscv64_vector_code_begin:\n"
	STUB(randomx_riscv64_vector_sshash_begin, 16)
	STUB(randomx_riscv64_vector_sshash_imul_rcp_literals, 4096)
	STUB(randomx_riscv64_vector_sshash_dataset_init, 64)
	STUB(randomx_riscv64_vector_sshash_cache_prefetch, 16)
	STUB(randomx_riscv64_vector_sshash_generated_instructions, 16)
	STUB(randomx_riscv64_vector_sshash_generated_instructions_end, 16)
	STUB(randomx_riscv64_vector_sshash_xor, 16)
	STUB(randomx_riscv64_vector_sshash_end, 16)
	STUB(randomx_riscv64_vector_program_params, 128)
	STUB(randomx_riscv64_vector_program_imul_rcp_literals, 4096)
	STUB(randomx_riscv64_vector_program_begin, 16)
	STUB(randomx_riscv64_vector_program_v2_soft_aes_init, 16)
	STUB(randomx_riscv64_vector_program_main_loop, 16)
	STUB(randomx_riscv64_vector_program_main_loop_spaddr_xor, 32)
	STUB(randomx_riscv64_vector_program_scratchpad_prefetch, 32)
	STUB(randomx_riscv64_vector_program_main_loop_instructions, 65536)
	STUB(randomx_riscv64_vector_program_main_loop_instructions_end, 16)
	STUB(randomx_riscv64_vector_program_main_loop_mx_xor, 32)
	STUB(randomx_riscv64_vector_program_main_loop_fe_mix, 16)
	STUB(randomx_riscv64_vector_program_main_loop_light_mode_data, 32)
	STUB(randomx_riscv64_vector_program_main_loop_instructions_end_light_mode, 16)
	STUB(randomx_riscv64_vector_program_main_loop_mx_xor_light_mode, 32)
	STUB(randomx_riscv64_vector_program_main_loop_fe_mix_v1, 16)
	STUB(randomx_riscv64_vector_program_main_loop_fe_mix_v2_soft_aes, 16)
	STUB(randomx_riscv64_vector_program_end, 16)
	STUB(randomx_riscv64_vector_code_end, 16)
	".text\n"
);

#include "jit_compiler_rv64_vector.cpp"
#undef emit16
#undef emit32
#undef emit64
#include "bytecode_machine.hpp" //ceil_* opcode boundaries
#include "instruction_weights.hpp"

#define INST_HANDLE(x) REPN(static_cast<uint8_t>(randomx::InstructionType::x), WT(x))
alignas(64) static const uint8_t instMap[256] = {
	INST_HANDLE(IADD_RS) INST_HANDLE(IADD_M) INST_HANDLE(ISUB_R) INST_HANDLE(ISUB_M) INST_HANDLE(IMUL_R)
	INST_HANDLE(IMUL_M) INST_HANDLE(IMULH_R) INST_HANDLE(IMULH_M) INST_HANDLE(ISMULH_R) INST_HANDLE(ISMULH_M)
	INST_HANDLE(IMUL_RCP) INST_HANDLE(INEG_R) INST_HANDLE(IXOR_R) INST_HANDLE(IXOR_M) INST_HANDLE(IROR_R)
	INST_HANDLE(IROL_R) INST_HANDLE(ISWAP_R) INST_HANDLE(FSWAP_R) INST_HANDLE(FADD_R) INST_HANDLE(FADD_M)
	INST_HANDLE(FSUB_R) INST_HANDLE(FSUB_M) INST_HANDLE(FSCAL_R) INST_HANDLE(FMUL_R) INST_HANDLE(FDIV_M)
	INST_HANDLE(FSQRT_R) INST_HANDLE(CBRANCH) INST_HANDLE(CFROUND) INST_HANDLE(ISTORE) INST_HANDLE(NOP)
};
#undef INST_HANDLE

//---------------------------------------------------------------------------------------
// minimal RV64 (I, M, C subsets) interpreter - integer register-to-register code only
//---------------------------------------------------------------------------------------
struct Rv64 {
	uint64_t x[32];
	const uint8_t* code;
	int64_t pc;
	uint64_t steps;

	static int64_t sext(uint64_t v, int bits) { return (int64_t)(v << (64 - bits)) >> (64 - bits); }
	void wr(int rd, uint64_t v) { if (rd != 0) x[rd] = v; }
	static uint64_t mulhu(uint64_t a, uint64_t b) { return (uint64_t)(((unsigned __int128)a * b) >> 64); }
	static uint64_t mulh(int64_t a, int64_t b) { return (uint64_t)(((__int128)a * b) >> 64); }

	bool fail(uint32_t insn) {
		printf("  [rv64] unsupported instruction %08x at code offset %lld\n", insn, (long long)pc);
		exit(2);
		return false;
	}

	void step() {
		uint16_t lo;
		memcpy(&lo, code + pc, 2);
		steps++;
		if ((lo & 3) != 3) { //compressed
			const int f3 = lo >> 13;
			const int q = lo & 3;
			const int rdf = (lo >> 7) & 31;
			const int rs2f = (lo >> 2) & 31;
			const int rp1 = 8 + ((lo >> 7) & 7);
			const int rp2 = 8 + ((lo >> 2) & 7);
			const int64_t imm6 = sext((((lo >> 12) & 1) << 5) | ((lo >> 2) & 31), 6);
			if (q == 1) {
				switch (f3) {
				case 0: wr(rdf, x[rdf] + imm6); pc += 2; return; //c.addi / c.nop
				case 1: wr(rdf, (uint64_t)(int64_t)(int32_t)(x[rdf] + imm6)); pc += 2; return; //c.addiw
				case 2: wr(rdf, imm6); pc += 2; return; //c.li
				case 3:
					if (rdf == 2) fail(lo);
					wr(rdf, (uint64_t)(imm6 << 12)); pc += 2; return; //c.lui
				case 4: {
					const int sub = (lo >> 10) & 3;
					const int sh = (((lo >> 12) & 1) << 5) | ((lo >> 2) & 31);
					if (sub == 0) { x[rp1] >>= sh; pc += 2; return; } //c.srli
					if (sub == 1) { x[rp1] = (uint64_t)((int64_t)x[rp1] >> sh); pc += 2; return; } //c.srai
					if (sub == 2) { x[rp1] &= (uint64_t)imm6; pc += 2; return; } //c.andi
					const int op = ((lo >> 12) & 1) * 4 + ((lo >> 5) & 3);
					switch (op) {
					case 0: x[rp1] -= x[rp2]; break; //c.sub
					case 1: x[rp1] ^= x[rp2]; break; //c.xor
					case 2: x[rp1] |= x[rp2]; break; //c.or
					case 3: x[rp1] &= x[rp2]; break; //c.and
					default: fail(lo);
					}
					pc += 2; return;
				}
				case 5: { //c.j
					const uint64_t o = (((lo >> 12) & 1) << 11) | (((lo >> 11) & 1) << 4) | (((lo >> 9) & 3) << 8) | (((lo >> 8) & 1) << 10)
						| (((lo >> 7) & 1) << 6) | (((lo >> 6) & 1) << 7) | (((lo >> 3) & 7) << 1) | (((lo >> 2) & 1) << 5);
					pc += sext(o, 12); return;
				}
				case 6: case 7: { //c.beqz / c.bnez
					const uint64_t o = (((lo >> 12) & 1) << 8) | (((lo >> 10) & 3) << 3) | (((lo >> 5) & 3) << 6) | (((lo >> 3) & 3) << 1) | (((lo >> 2) & 1) << 5);
					const bool z = x[rp1] == 0;
					if ((f3 == 6) ? z : !z) pc += sext(o, 9); else pc += 2;
					return;
				}
				}
			}
			if (q == 2) {
				if (f3 == 0) { wr(rdf, x[rdf] << ((((lo >> 12) & 1) << 5) | rs2f)); pc += 2; return; } //c.slli
				if (f3 == 4) {
					if (rs2f == 0) fail(lo); //c.jr / c.jalr / c.ebreak
					if ((lo >> 12) & 1) wr(rdf, x[rdf] + x[rs2f]); //c.add
					else wr(rdf, x[rs2f]); //c.mv
					pc += 2; return;
				}
			}
			fail(lo);
			return;
		}
		uint32_t in;
		memcpy(&in, code + pc, 4);
		const int opc = in & 0x7f;
		const int rd = (in >> 7) & 31;
		const int f3 = (in >> 12) & 7;
		const int rs1 = (in >> 15) & 31;
		const int rs2 = (in >> 20) & 31;
		const int f7 = in >> 25;
		const int64_t immI = sext(in >> 20, 12);
		switch (opc) {
		case 0x37: wr(rd, (uint64_t)(int64_t)(int32_t)(in & 0xfffff000)); pc += 4; return; //lui
		case 0x13:
			switch (f3) {
			case 0: wr(rd, x[rs1] + immI); break; //addi
			case 1: if ((in >> 26) != 0) fail(in); wr(rd, x[rs1] << ((in >> 20) & 63)); break; //slli
			case 4: wr(rd, x[rs1] ^ (uint64_t)immI); break;
			case 5:
				if ((in >> 26) == 0) wr(rd, x[rs1] >> ((in >> 20) & 63)); //srli
				else if ((in >> 26) == 0x10) wr(rd, (uint64_t)((int64_t)x[rs1] >> ((in >> 20) & 63))); //srai
				else fail(in); //rori etc.
				break;
			case 6: wr(rd, x[rs1] | (uint64_t)immI); break;
			case 7: wr(rd, x[rs1] & (uint64_t)immI); break;
			default: fail(in);
			}
			pc += 4; return;
		case 0x1b:
			if (f3 != 0) fail(in);
			wr(rd, (uint64_t)(int64_t)(int32_t)(x[rs1] + immI)); pc += 4; return; //addiw
		case 0x33: {
			const uint64_t a = x[rs1], b = x[rs2];
			uint64_t r = 0;
			if (f7 == 0) {
				switch (f3) {
				case 0: r = a + b; break;
				case 1: r = a << (b & 63); break;
				case 4: r = a ^ b; break;
				case 5: r = a >> (b & 63); break;
				case 6: r = a | b; break;
				case 7: r = a & b; break;
				default: fail(in);
				}
			}
			else if (f7 == 0x20) {
				if (f3 == 0) r = a - b;
				else if (f3 == 5) r = (uint64_t)((int64_t)a >> (b & 63));
				else fail(in);
			}
			else if (f7 == 1) {
				if (f3 == 0) r = a * b;
				else if (f3 == 1) r = mulh((int64_t)a, (int64_t)b);
				else if (f3 == 3) r = mulhu(a, b);
				else fail(in);
			}
			else fail(in);
			wr(rd, r); pc += 4; return;
		}
		case 0x63: { //branches
			const uint64_t o = ((uint64_t)(in >> 31) << 12) | (((in >> 7) & 1) << 11) | (((in >> 25) & 63) << 5) | (((in >> 8) & 15) << 1);
			bool t;
			if (f3 == 0) t = x[rs1] == x[rs2]; //beq
			else if (f3 == 1) t = x[rs1] != x[rs2]; //bne
			else { fail(in); t = false; }
			if (t) pc += sext(o, 13); else pc += 4;
			return;
		}
		case 0x6f: { //jal
			const uint64_t o = ((uint64_t)(in >> 31) << 20) | (((in >> 12) & 255) << 12) | (((in >> 20) & 1) << 11) | (((in >> 21) & 1023) << 1);
			wr(rd, (uint64_t)(pc + 4));
			pc += sext(o, 21);
			return;
		}
		case 0x73: pc += 4; return; //csr access (rounding mode) - irrelevant here
		default: fail(in);
		}
	}
};

//---------------------------------------------------------------------------------------

using namespace randomx;

static Instruction makeInstr(int opcode, int dst, int src, int mod, uint32_t imm) {
	Instruction in;
	in.opcode = (uint8_t)opcode;
	in.dst = (uint8_t)dst;
	in.src = (uint8_t)src;
	in.setMod((uint8_t)mod);
	in.setImm32(imm);
	return in;
}

int main() {
	const uint32_t imms[] = { 1, 0x7fffffff, 0xffffffff, 0x80000001, 0x12345678, 0xfedcba98, 0x80000000 };
	int bad = 0;
	for (uint32_t imm : imms) {
		alignas(64) static Program prog; //zero-initialized
		memset(&prog, 0, sizeof(prog));
		ProgramConfiguration pcfg;
		memset(&pcfg, 0, sizeof(pcfg));
		pcfg.readReg0 = 0; pcfg.readReg1 = 2; pcfg.readReg2 = 4; pcfg.readReg3 = 6;
		for (int i = 0; i < RANDOMX_PROGRAM_SIZE_V1; ++i)
			prog(i) = makeInstr(ceil_IMULH_R - 1, 1, 2, 0, 0); //IMULH_R r1, r2 (filler)
		prog(0) = makeInstr(ceil_ISUB_R - 1, 2, 2, 0, imm);    //ISUB_R r2, r2 -> r2 -= sext(imm32)
		const size_t bufSize = DIST(randomx_riscv64_vector_code_begin, randomx_riscv64_vector_code_end);
		uint8_t* buf = (uint8_t*)calloc(1, bufSize);
		generateProgramVectorRV64(buf, prog, pcfg, instMap, nullptr, 0, RANDOMX_FLAG_DEFAULT);
		const int64_t start = DIST(randomx_riscv64_vector_code_begin, randomx_riscv64_vector_program_main_loop_instructions);
		Rv64 cpu;
		memset(&cpu, 0, sizeof(cpu));
		cpu.code = buf;
		cpu.pc = start;
		const uint64_t r2 = 0x0123456789abcdefULL;
		cpu.x[22] = r2;
		//execute until the first filler instruction (mulhu x21, x21, x22) is reached
		for (int n = 0; n < 8; ++n) {
			uint32_t in;
			memcpy(&in, buf + cpu.pc, 4);
			if ((in & 0xfe00707f) == 0x02003033) break; //mulhu
			cpu.step();
		}
		const uint64_t expect = r2 - (uint64_t)(int64_t)(int32_t)imm;
		const bool ok = cpu.x[22] == expect;
		printf("ISUB_R r2, r2, imm32 = %08x : jit %016llx  specified %016llx  %s\n", imm, (unsigned long long)cpu.x[22], (unsigned long long)expect, ok ? "ok" : "MISMATCH");
		bad += !ok;
		free(buf);
	}
	return bad ? 1 : 0;
}
