// Differential harness: RandomX scalar RV64GC JIT (executed in the rv64emu.hpp emulator) vs. the
// portable bytecode interpreter of the same library. Built and driven by demo.sh (see there).
//
// usage: rvharness <scenario>...     scenarios: dataset hash cbranch rcp imm
// exit code 0 = JIT output equals interpreter output in all requested scenarios, 1 = mismatch/trap.
#include <cstdint>
#include <cstring>
#include <cstdio>
#include <cstdlib>
#include <vector>
#include <string>
#include <array>
#include <new>
#include <iostream>
#include <sstream>
#include <stdexcept>

//InterpretedVm::execute() is private; the harness needs it to run a hand-made program buffer
#define private protected
#include "vm_interpreted_light.hpp"
#undef private
#include "randomx.h"
#include "dataset.hpp"
#include "program.hpp"
#include "blake2/blake2.h"
#include "jit_compiler_rv64.hpp"
#include "jit_compiler_rv64_vector_static.h"
#include "jit_compiler_rv64_vector.h"
#include "rv64emu.hpp"

// ---- stubs for the vector (RVV) back-end, never used: the shim cpu.hpp reports "no RVV" ----
extern "C" {
	void randomx_riscv64_vector_code_begin() {}
	void randomx_riscv64_vector_code_end() {}
	void randomx_riscv64_vector_program_begin() {}
	void randomx_riscv64_vector_sshash_dataset_init(struct randomx_cache*, uint8_t*, uint32_t, uint32_t) {}
}
namespace randomx {
	void* generateDatasetInitVectorRV64(uint8_t*, SuperscalarProgramList&, std::vector<uint64_t>&) { abort(); }
	void* generateProgramVectorRV64(uint8_t*, Program&, ProgramConfiguration&, const uint8_t(&)[256], void*, uint32_t, randomx_flags) { abort(); }
}

using namespace randomx;

static rvemu::Cpu g_cpu;
static std::vector<uint8_t> g_stack(1 << 20);
static uint8_t* stackTop() { return g_stack.data() + g_stack.size() - 256; }

static int g_failures = 0;
#define CHECK(cond, ...) do { if (!(cond)) { printf("  MISMATCH: " __VA_ARGS__); printf("\n"); g_failures++; } } while (0)

using Alloc = AlignedAllocator<CacheLineSize>;

// Light-mode VM that compiles with JitCompilerRV64 and runs the result in the emulator.
// Mirrors CompiledLightVm<Alloc, true, false> (src/vm_compiled_light.cpp, src/vm_compiled.cpp).
class EmuLightVm : public VmBase<Alloc, true> {
public:
	explicit EmuLightVm(randomx_flags flags) : VmBase<Alloc, true>(flags) {
		compiler.enableAll();
		compiler.setFlags(flags);
	}
	void setCache(randomx_cache* cache) override {
		cachePtr = cache;
		mem.memory = cache->memory;
		compiler.generateSuperscalarHash(cache->programs, cache->reciprocalCache);
	}
	void run(void* seed) override {
		VmBase<Alloc, true>::generateProgram(seed);
		compileAndExecute();
	}
	void runCrafted(const void* programBytes) {
		memcpy((void*)&program, programBytes, sizeof(Program));
		compileAndExecute();
	}
	void datasetInit(uint8_t* out, uint32_t startItem, uint32_t endItem) {
		g_cpu.call((const void*)compiler.getDatasetInitFunc(), (uint64_t)(uintptr_t)cachePtr, (uint64_t)(uintptr_t)out, startItem, endItem, stackTop(), 1ull << 32);
	}
	uint8_t* spad() { return scratchpad; }
	JitCompilerRV64 compiler;
private:
	void compileAndExecute() {
		randomx_vm::initialize();
		compiler.generateProgramLight(program, config, datasetOffset);
		memcpy(reg.f, config.eMask, sizeof(config.eMask)); //as CompiledVm::execute() does on riscv
		g_cpu.call((const void*)compiler.getProgramFunc(), (uint64_t)(uintptr_t)&reg, (uint64_t)(uintptr_t)&mem, (uint64_t)(uintptr_t)scratchpad, RANDOMX_PROGRAM_ITERATIONS, stackTop(), 1ull << 33);
	}
};

class RefLightVm : public InterpretedLightVm<Alloc, true> {
public:
	explicit RefLightVm(randomx_flags flags) : InterpretedLightVm<Alloc, true>(flags) {}
	void runCrafted(const void* programBytes) {
		memcpy((void*)&program, programBytes, sizeof(Program));
		randomx_vm::initialize();
		execute();
	}
	uint8_t* spad() { return scratchpad; }
};

static void hashWith(randomx_vm* vm, bool emulated, const void* input, size_t size, void* out) {
	alignas(16) uint64_t tempHash[8];
	blake2b(tempHash, sizeof(tempHash), input, size, nullptr, 0);
	vm->initScratchpad(&tempHash);
	if (emulated) g_cpu.frm = 0; else vm->resetRoundingMode();
	for (int chain = 0; chain < RANDOMX_PROGRAM_COUNT - 1; ++chain) {
		vm->run(&tempHash);
		blake2b(tempHash, sizeof(tempHash), vm->getRegisterFile(), sizeof(RegisterFile), nullptr, 0);
	}
	vm->run(&tempHash);
	vm->getFinalResult(out, RANDOMX_HASH_SIZE);
}

static std::string hex(const void* p, size_t n) {
	static const char* d = "0123456789abcdef";
	std::string s;
	for (size_t i = 0; i < n; ++i) { s += d[((const uint8_t*)p)[i] >> 4]; s += d[((const uint8_t*)p)[i] & 15]; }
	return s;
}

// ---------------- program crafting helpers ----------------
static uint8_t opcodeOf(InstructionType t) {
	for (int i = 0; i < 256; ++i)
		if (JitCompilerRV64::instMap[i] == (uint8_t)t) return (uint8_t)i;
	abort();
}

struct ProgBuf {
	alignas(64) uint8_t bytes[sizeof(Program)];
	uint64_t rng = 0x9e3779b97f4a7c15ull;
	uint64_t next() { rng ^= rng << 13; rng ^= rng >> 7; rng ^= rng << 17; return rng; }
	explicit ProgBuf(uint64_t seed) {
		rng ^= seed * 0x2545f4914f6cdd1dull;
		for (size_t i = 0; i < sizeof(bytes); i += 8) { uint64_t v = next(); memcpy(bytes + i, &v, 8); }
	}
	void set(int idx, InstructionType t, int dst, int src, int mod, uint32_t imm) {
		uint8_t* p = bytes + 128 + 8 * idx;
		p[0] = opcodeOf(t); p[1] = dst; p[2] = src; p[3] = mod; memcpy(p + 4, &imm, 4);
	}
	//replace every CBRANCH in [from, to) by a harmless IADD_RS so that branch structure is fully controlled
	void dropBranches(int from, int to) {
		for (int i = from; i < to; ++i) {
			uint8_t* p = bytes + 128 + 8 * i;
			if (JitCompilerRV64::instMap[p[0]] == (uint8_t)InstructionType::CBRANCH) p[0] = opcodeOf(InstructionType::IADD_RS);
		}
	}
};

static bool runCraftedBoth(randomx_cache* cache, randomx_flags flags, const ProgBuf& pb, const char* what) {
	RefLightVm* ref = new RefLightVm(flags);
	EmuLightVm* emu = new EmuLightVm(flags);
	ref->setCache(cache); emu->setCache(cache);
	ref->allocate(); emu->allocate();
	//note: initScratchpad() advances the seed in place, so each VM gets its own copy
	alignas(16) uint64_t seed1[8] = { 1, 2, 3, 4, 5, 6, 7, 8 };
	alignas(16) uint64_t seed2[8] = { 1, 2, 3, 4, 5, 6, 7, 8 };
	ref->initScratchpad(seed1); emu->initScratchpad(seed2);
	ref->resetRoundingMode();
	ref->runCrafted(pb.bytes);
	ref->resetRoundingMode();
	g_cpu.frm = 0;
	bool ok = true;
	try {
		emu->runCrafted(pb.bytes);
	}
	catch (const rvemu::Trap& t) {
		printf("  MISMATCH: %s: emulated JIT code trapped: %s\n", what, t.what());
		g_failures++; ok = false;
	}
	if (ok) {
		bool regsEq = memcmp(ref->getRegisterFile(), emu->getRegisterFile(), sizeof(RegisterFile)) == 0;
		bool spadEq = memcmp(ref->spad(), emu->spad(), ScratchpadSize) == 0;
		if (!regsEq || !spadEq) {
			printf("  MISMATCH: %s: register file %s, scratchpad %s\n", what, regsEq ? "equal" : "DIFFERS", spadEq ? "equal" : "DIFFERS");
			if (!regsEq) {
				const uint64_t* a = (const uint64_t*)ref->getRegisterFile(); const uint64_t* b = (const uint64_t*)emu->getRegisterFile();
				for (int i = 0; i < 32; ++i) if (a[i] != b[i]) printf("    reg qword %2d: interpreter %016llx  rv64 jit %016llx\n", i, (unsigned long long)a[i], (unsigned long long)b[i]);
			}
			g_failures++; ok = false;
		}
		else printf("  ok: %s (%s)\n", what, (flags & RANDOMX_FLAG_V2) ? "v2" : "v1");
	}
	delete ref; delete emu;
	return ok;
}

// ---------------- scenarios ----------------
static void scenarioDataset(randomx_cache* cache) {
	printf("[dataset] emitted SuperscalarHash/dataset-init code vs initDatasetItem\n");
	EmuLightVm* emu = new EmuLightVm(RANDOMX_FLAG_DEFAULT);
	emu->setCache(cache);
	const uint32_t starts[] = { 0, 1000, 4194300, 34078700 };
	for (uint32_t s : starts) {
		const uint32_t n = 19;
		std::vector<uint8_t> a(n * 64), b(n * 64, 0xcc);
		for (uint32_t i = 0; i < n; ++i) initDatasetItem(cache, a.data() + 64 * i, s + i);
		try { emu->datasetInit(b.data(), s, s + n); }
		catch (const rvemu::Trap& t) { CHECK(false, "dataset init trapped: %s", t.what()); continue; }
		CHECK(a == b, "dataset items %u..%u differ", s, s + n - 1);
		if (a == b) printf("  ok: items %u..%u\n", s, s + n - 1);
	}
	delete emu;
}

static void scenarioHash(randomx_cache* cache) {
	printf("[hash] full light-mode hashes, emulated RV64 JIT vs interpreter\n");
	for (int v2 = 0; v2 < 2; ++v2) {
		randomx_flags flags = v2 ? RANDOMX_FLAG_V2 : RANDOMX_FLAG_DEFAULT;
		randomx_vm* ref = randomx_create_vm(flags, cache, nullptr);
		EmuLightVm* emu = new EmuLightVm(flags);
		emu->setCache(cache);
		emu->allocate();
		const char* inputs[] = { "This is a test", "Lorem ipsum dolor sit amet" };
		for (const char* in : inputs) {
			uint8_t h1[32], h2[32];
			randomx_calculate_hash(ref, in, strlen(in), h1);
			try { hashWith(emu, true, in, strlen(in), h2); }
			catch (const rvemu::Trap& t) { CHECK(false, "hash trapped: %s", t.what()); continue; }
			CHECK(memcmp(h1, h2, 32) == 0, "hash(%s) %s: interpreter %s, rv64 jit %s", in, v2 ? "v2" : "v1", hex(h1, 32).c_str(), hex(h2, 32).c_str());
			if (memcmp(h1, h2, 32) == 0) printf("  ok: %s \"%s\" -> %s\n", v2 ? "v2" : "v1", in, hex(h1, 32).c_str());
		}
		randomx_destroy_vm(ref);
		delete emu;
	}
}

// A long stretch of code without any CBRANCH, then one CBRANCH whose register was never written:
// its jump target is instruction 0, more than 4 KiB of machine code behind the branch.
static void scenarioCbranch(randomx_cache* cache) {
	printf("[cbranch] backward CBRANCH spanning more than 4 KiB of emitted code\n");
	for (int v2 = 0; v2 < 2; ++v2) {
		randomx_flags flags = v2 ? RANDOMX_FLAG_V2 : RANDOMX_FLAG_DEFAULT;
		ProgBuf pb(11 + v2);
		const int n = 190; //190 x (FADD_M|FSUB_M ~ 32 bytes) ~ 6 KiB
		for (int i = 0; i < n; ++i) {
			uint64_t r = pb.next();
			pb.set(i, (r & 1) ? InstructionType::FADD_M : InstructionType::FSUB_M, (r >> 1) & 7, (r >> 4) & 7, (r >> 8) & 255, (uint32_t)(r >> 32));
		}
		//r3 is never a destination in [0, n) -> target = instruction 0
		pb.set(n, InstructionType::CBRANCH, 3, 0, 0x00, 0x00010000u);
		pb.dropBranches(n + 1, RANDOMX_PROGRAM_MAX_SIZE);
		runCraftedBoth(cache, flags, pb, "long-range CBRANCH program");
	}
}

// More IMUL_RCP instructions than fit into the positive-offset half of the literal pool.
static void scenarioRcp(randomx_cache* cache) {
	printf("[rcp] program with more than 238 IMUL_RCP instructions\n");
	for (int v2 = 0; v2 < 2; ++v2) {
		randomx_flags flags = v2 ? RANDOMX_FLAG_V2 : RANDOMX_FLAG_DEFAULT;
		ProgBuf pb(21 + v2);
		const int n = Program::getSize(flags);
		for (int i = 0; i < n; ++i) {
			uint32_t imm = (uint32_t)pb.next() | 3; //never zero / a power of two
			if ((imm & (imm - 1)) == 0) imm = 0x12345677;
			pb.set(i, InstructionType::IMUL_RCP, i & 7, 0, 0, imm);
		}
		runCraftedBoth(cache, flags, pb, "all-IMUL_RCP program");
	}
}

// 32-bit immediates just below 2^31 (lui has to load 0x80000 and rely on 32-bit wrap-around of the low part)
static void scenarioImm(randomx_cache* cache) {
	printf("[imm] immediates in 0x7ffff800..0x7fffffff and other corner values\n");
	for (int v2 = 0; v2 < 2; ++v2) {
		randomx_flags flags = v2 ? RANDOMX_FLAG_V2 : RANDOMX_FLAG_DEFAULT;
		ProgBuf pb(31 + v2);
		const uint32_t imms[] = { 0x7fffffffu, 0x7ffffff0u, 0x7fffffe0u, 0x7fffffdfu, 0x7ffff800u, 0x7ffff7ffu, 0x80000000u, 0x80000010u,
			0xfffff800u, 0xffffffe0u, 0x0001f800u, 0x00020000u, 0xfffe0000u, 0x00000800u, 0x000007ffu, 0x12345678u };
		int k = 0;
		for (uint32_t imm : imms) {
			if (getenv("C20_IMM_SKIP_NARROW") && imm >= 0x7fffffe0u && imm <= 0x7fffffffu) continue; //diagnostic switch
			int r = k & 7;
			pb.set(k++, InstructionType::IXOR_R, r, r, 0, imm);          //src == dst -> immediate form
			r = k & 7;
			pb.set(k++, InstructionType::IMUL_R, r, r, 0, imm | 1);
			r = k & 7;
			if (imm != 0x80000000u || getenv("C20_ISUB_MIN")) //(HEAD already mis-compiles ISUB_R r,r with imm32 == 0x80000000; not part of this demo)
				pb.set(k++, InstructionType::ISUB_R, r, r, 0, 0u - imm); //emitted as an add of -(-imm) = imm
			pb.set(k++, InstructionType::IADD_RS, 5, 1, 0x04, imm);      //dst r5: shifted add plus displacement
		}
		pb.dropBranches(k, RANDOMX_PROGRAM_MAX_SIZE);
		runCraftedBoth(cache, flags, pb, "corner-case immediates program");
	}
}

#include <csignal>
#include <unistd.h>
static void onSegv(int) {
	static const char msg[] = "  MISMATCH: emulated RV64 JIT code made a wild memory access (host SIGSEGV)\nFAIL\n";
	(void)!write(1, msg, sizeof(msg) - 1);
	_exit(1);
}

int main(int argc, char** argv) {
	setvbuf(stdout, nullptr, _IOLBF, 0);
	signal(SIGSEGV, onSegv);
	signal(SIGBUS, onSegv);
	randomx_cache* cache = randomx_alloc_cache(RANDOMX_FLAG_DEFAULT);
	if (!cache) { printf("cache alloc failed\n"); return 2; }
	const char key[] = "test key 000";
	randomx_init_cache(cache, key, sizeof(key) - 1);
	for (int i = 1; i < argc; ++i) {
		std::string s = argv[i];
		if (s == "dataset") scenarioDataset(cache);
		else if (s == "hash") scenarioHash(cache);
		else if (s == "cbranch") scenarioCbranch(cache);
		else if (s == "rcp") scenarioRcp(cache);
		else if (s == "imm") scenarioImm(cache);
		else { printf("unknown scenario %s\n", s.c_str()); return 2; }
	}
	randomx_release_cache(cache);
	if (g_failures) { printf("FAIL: %d mismatch(es) between RV64 JIT code and interpreter\n", g_failures); return 1; }
	printf("PASS: RV64 JIT code matches the interpreter in all scenarios\n");
	return 0;
}
