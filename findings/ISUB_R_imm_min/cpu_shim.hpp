// Host-side stand-in for src/cpu.hpp, used only when jit_compiler_rv64.cpp is compiled on a non-RISC-V
// host for emulation: reports "no vector extension", so the scalar RV64GC back-end is selected.
#pragma once
namespace randomx {
	struct CpuShim {
		bool hasRVV() const { return false; }
		int getRVV_Length() const { return 0; }
	};
	static const CpuShim cpu;
}
