"""[A64-DSREAD-HSEM] the hand-written dataset read of the A64 runtime (full-memory mode), executed on terms.

What runs at the end of every loop iteration of a compiled program is: the word `eor w20, wA, wB` the generator emits (A, B = the registers of readReg2 / readReg3),
the four instructions of randomx_program_aarch64_vm_instructions_end (RandomX v1) or of randomx_program_aarch64_vm_instructions_end_v2 (copied over them for v2),
then the static text up to randomx_program_aarch64_update_spMix1 with the two placeholder masks replaced by the `and w, w, #CacheLineAlignMask` words the
generator writes.  Expected (specification 4.6.2 steps 5-8, register roles of this back-end: x9 = ma:mx with mx in the low half, x1 = dataset base):
    v1:  mp' = mp ^ zext32(rA ^ rB);  x9 = ror(mp', 32);   prefetch address = base + (mp' & mask);   read address = base + ((mp >> 32) & mask)
    v2:  x9 = ror(mp, 32) ^ zext32(rA ^ rB);               prefetch address = base + (x9 & mask);    read address = base + ((mp >> 32) & mask)
    r_i ^= the i-th word at the read address.
"""
import astq
import rtasm
from astq import val, walk
from core import AnalysisBroken
from report import memoised
from rules import a64hsem as T
from rules import jit, rvhsem as V, x86hsem as X
from rules.a64hsem import add, atom, const, ror, xor

M32 = 0xffffffff


class DsMachine(T.MemMachine):
    def __init__(self, regmap):
        T.Machine.__init__(self, regmap)
        self.stores = []
        self.prefetch = []

    @staticmethod
    def _below(x, n):
        """the value is known to be below 2^n"""
        if x.is_const():
            return x.c < (1 << n)
        at = V.single_atom(x)
        if at is not None and at[0] == 'and':
            return any(V.lin_of(p).is_const() and V.lin_of(p).c < (1 << n) for p in at[1:3])
        return False

    def _srl(self, x, n):
        # (p ^ q) >> n = p >> n when q < 2^n
        at = V.single_atom(x)
        if at is not None and at[0] == 'xor':
            p_, q_ = V.lin_of(at[1]), V.lin_of(at[2])
            for a_, b_ in ((p_, q_), (q_, p_)):
                if self._below(b_, n):
                    return self._srl(a_, n)
        return V.srl(x, n)

    def step(self, w, where):
        f = lambda lo, n: (w >> lo) & ((1 << n) - 1)
        rd, rn, rm = f(0, 5), f(5, 5), f(16, 5)
        if (w & 0xFF800000) == 0x12000000:                      # AND (immediate), 32-bit
            m_ = T.decode_bitmask(0, f(10, 6), f(16, 6), 32)
            if m_ is None:
                raise AnalysisBroken('A64-DSREAD-HSEM: reserved logical immediate in %#010x at %s' % (w, where))
            self.put(rd, X.and_(self.get(rn), const(m_ & M32)))
            return 'and w#%#x' % m_
        if (w & 0xFFC00000) == 0xD3400000 and f(10, 6) == 63:   # UBFM with imms = 63: LSR #immr
            self.put(rd, self._srl(self.get(rn), f(16, 6)))
            return 'lsr#%d' % f(16, 6)
        if (w & 0xFFE0FFE0) == 0x2A0003E0:                      # ORR Wd, WZR, Wm: MOV Wd, Wm
            self.put(rd, X.and_(self.get(rm), const(M32)))
            return 'mov w'
        if (w & 0xFF200000) == 0x4A000000 and f(10, 6) == 0 and f(22, 2) == 0:     # EOR (shifted register), 32-bit, no shift
            self.put(rd, X.and_(xor(self.get(rn), self.get(rm)), const(M32)))
            return 'eor w'
        if (w & 0xFFC00000) == 0xA9400000:                      # LDP (signed offset), 64-bit
            imm = f(15, 7)
            imm = (imm - 128 if imm >= 64 else imm) * 8
            a = add(self.get(rn), const(imm))
            v1, v2 = X.ld64(a), X.ld64(add(a, const(8)))
            self.put(f(0, 5), v1)
            self.put(f(10, 5), v2)
            return 'ldp'
        if (w & 0xFFC00000) == 0xF9800000:                      # PRFM (immediate)
            self.prefetch.append(add(self.get(rn), const(f(10, 12) * 8)))
            return 'prfm'
        return T.MemMachine.step(self, w, where)


def _tables(ctx, fn='generateProgram'):
    F, hs = jit.handlers(ctx, 'a64')
    g = F.glob('randomx::IntRegMap') if F.has_glob('randomx::IntRegMap') else (F.glob('IntRegMap') if F.has_glob('IntRegMap') else None)
    if g is None or not g.get('init') or g['init']['k'] != 'InitList':
        raise AnalysisBroken('A64-DSREAD-HSEM: IntRegMap not found')
    regmap = [val(e) for e in g['init']['e']]
    if len(regmap) != 8 or None in regmap:
        raise AnalysisBroken('A64-DSREAD-HSEM: IntRegMap is not a table of 8 constants')
    gp = F.func('randomx::JitCompilerA64::' + fn)
    consts = []
    for x in walk(gp['body']):
        if x['k'] == 'Call' and x.get('name') == 'emit32' and x.get('a'):
            v = val(x['a'][0])
            if v is not None:
                consts.append((v, x.get('ln')))
    # the word that computes readReg2 ^ readReg3: constant part and the two register fields
    gen = None
    for x in walk(gp['body']):
        if x['k'] == 'Call' and x.get('name') == 'emit32' and x.get('a') and 'readReg2' in astq.show(x['a'][0]) and 'readReg3' in astq.show(x['a'][0]):
            leaves = []

            def flat(n):
                n = astq.strip_all(n)
                if n['k'] == 'Bin' and n.get('op') == '|' and val(n) is None:
                    flat(n['l'])
                    flat(n['r'])
                else:
                    leaves.append(n)
            flat(x['a'][0])
            cpart, fields = 0, {}
            for lf in leaves:
                v = val(lf)
                if v is not None:
                    cpart |= v
                    continue
                txt = astq.show(lf)
                if lf['k'] == 'Bin' and lf.get('op') == '<<' and val(lf['r']) is not None and 'IntRegMap' in txt:
                    fields['readReg2' if 'readReg2' in txt else 'readReg3'] = val(lf['r'])
                else:
                    raise AnalysisBroken('A64-DSREAD-HSEM: operand %s of the generated XOR word is not understood' % txt[:60])
            gen = (cpart, fields, x.get('ln'))
            break
    if gen is None or set(gen[1]) != {'readReg2', 'readReg3'}:
        raise AnalysisBroken('A64-DSREAD-HSEM: the word that XORs readReg2 and readReg3 was not found in generateProgram')
    return F, regmap, gp, consts, gen


@memoised('A64-DSREAD-HSEM')
def rule_dsread(ctx, R):
    from rules import a64hsem as _T
    if _T.STRICT_FAMILY:
        R.note('rule_dsread skipped: RXVERIF_STRICT_FAMILY=1 (evaluation on terms switched off, see DESIGN.md 9.2)')
        return
    R.rule('A64-DSREAD-HSEM', 'the dataset read at the end of every iteration of a compiled A64 program (full-memory mode) - the generated `eor w20, wA, wB`, the four instructions of the v1 or v2 piece, and the static text '
           'up to the spMix1 update with the two masks the generator writes - executed on a register file of terms performs specification 4.6.2 steps 5-8: ma:mx updated with the zero-extended 32-bit XOR of the '
           'two read registers before (v1) or after (v2) the halves are swapped, read at base + (old ma & CacheLineAlignMask), the eight words XORed into r0..r7', min_instances=24)
    FI = astq.Facts(ctx, 'K0')
    mask = FI.const('randomx::CacheLineAlignMask')
    F, regmap, gp, consts, gen = _tables(ctx)
    o = ctx.obj('a64')
    P = rtasm.Prog(o, 'a64')
    R.saw(unit='src/jit_compiler_a64_static.S', config='K2')
    R.saw(fn=gp['q'])
    s_end, s_m1, s_m2 = P.sym('randomx_program_aarch64_vm_instructions_end'), P.sym('randomx_program_aarch64_cacheline_align_mask1'), P.sym('randomx_program_aarch64_cacheline_align_mask2')
    s_mix = P.sym('randomx_program_aarch64_update_spMix1')
    s_v2, s_v2e = P.sym('randomx_program_aarch64_vm_instructions_end_v2'), P.sym('randomx_program_aarch64_vm_instructions_end_light_v1')
    where = 'src/jit_compiler_a64_static.S:randomx_program_aarch64_vm_instructions_end'
    # the two mask words the generator writes: `and wN, wN, #imm` whose register is the one of the placeholder
    patch = {}
    for site in (s_m1, s_m2):
        ph = P.ins[site]
        if (ph.raw & 0xFF800000) != 0x92000000:
            raise AnalysisBroken('A64-DSREAD-HSEM: the placeholder at %s is not `and x, x, #imm`' % P.name_at(site))
        rd = ph.raw & 31
        cand = [(v, ln) for v, ln in consts if (v & 0x7F800000) == 0x12000000 and (v & 31) == rd and ((v >> 5) & 31) == rd]
        if len(cand) != 1:
            raise AnalysisBroken('A64-DSREAD-HSEM: expected one constant `and` word for register %d in generateProgram, found %d' % (rd, len(cand)))
        patch[site] = cand[0][0]
    head = {'v1': [P.ins[a] for a in P.order if s_end <= a < s_m1], 'v2': [P.ins[a] for a in P.order if s_v2 <= a < s_v2e]}
    if len(head['v1']) != len(head['v2']):
        R.violation('v1 / v2 piece length', where, expected='%d instructions in both' % len(head['v1']), found='%d in the v2 piece' % len(head['v2']))
        return
    tail = [P.ins[a] for a in P.order if s_m1 <= a < s_mix]
    undecided, nviol = [], 0
    for ver in ('v1', 'v2'):
        for (ra, rb) in ((0, 1), (2, 7), (5, 5)):
            m = DsMachine(regmap)
            tr = []
            words = [gen[0] | (regmap[ra] << gen[1]['readReg2']) | (regmap[rb] << gen[1]['readReg3'])] + [i.raw for i in head[ver]] + [patch.get(i.addr, i.raw) for i in tail]
            for w in words:
                tr.append(m.step(w, where))
            t = X.and_(xor(atom(('reg', ra)), atom(('reg', rb))), const(M32))
            mp0, base0 = atom(('undef', 9)), atom(('undef', 1))
            if ver == 'v1':
                mp1 = xor(mp0, t)
                x9 = ror(mp1, const(32))
                pf = add(X.and_(mp1, const(mask)), base0)
            else:
                x9 = xor(ror(mp0, const(32)), t)
                pf = add(X.and_(x9, const(mask)), base0)
            rd_addr = add(X.and_(V.srl(mp0, 32), const(mask)), base0)
            exp = {9: x9, 1: base0}
            for k in range(8):
                exp[regmap[k]] = xor(atom(('reg', k)), X.ld64(add(rd_addr, const(8 * k))))
            names = {9: 'ma:mx (x9)', 1: 'dataset base (x1)'}
            for k in range(8):
                names[regmap[k]] = 'r%d' % k
            checks = [('%s readReg r%d,r%d %s' % (ver, ra, rb, names[r]), m.get(r), exp[r]) for r in sorted(exp)]
            from rules import bitlin
            # the prefetch is a hint: another address (or none) costs time and changes no result, so it is reported as a note only
            if len(m.prefetch) != 1 or bitlin.decide(m.prefetch[0], pf)[0] != 'eq':
                R.note('A64-DSREAD-HSEM: %s readReg r%d,r%d: the prefetch does not address base + (new mx & mask) (%s) - a performance matter, not a result' % (ver, ra, rb, ', '.join(T.term_show(x, None) for x in m.prefetch) or 'no prefetch'))
            obs_mp = mask | (mask << 32)        # the halves of ma:mx are only ever used under CacheLineAlignMask: the other bits are not observable
            for inst, got, want in checks:
                verdict, how = bitlin.decide(got, want, obs_mp if 'ma:mx' in inst else bitlin.ALL)
                if verdict == 'eq':
                    R.ok(inst, where)
                    continue
                if verdict == 'unknown':
                    undecided.append('%s is %s, the specification says %s; the two terms agree on every test valuation, equivalence undecided' % (inst, T.term_show(got, None), T.term_show(want, None)))
                    continue
                nviol += 1
                R.violation(inst, where, expected=T.term_show(want, None), found='%s after `%s`; %s' % (T.term_show(got, None), ' ; '.join(tr), how))
            if m.stores:
                nviol += 1
                R.violation('%s stores' % ver, where, expected='no store', found='%d stores' % len(m.stores))
    if undecided and not nviol:
        raise AnalysisBroken('A64-DSREAD-HSEM: ' + undecided[0])
    for u in undecided:
        R.note('A64-DSREAD-HSEM: ' + u)


@memoised('A64-LOOPLOAD')
def rule_loopload(ctx, R):
    from rules import a64hsem as _T
    if _T.STRICT_FAMILY:
        R.note('rule_loopload skipped: RXVERIF_STRICT_FAMILY=1 (evaluation on terms switched off, see DESIGN.md 9.2)')
        return
    R.rule('A64-LOOPLOAD', 'the load half of the A64 loop (specification 4.6.2 steps 2-3), with the two scratchpad masks the generator writes, executed on terms: r_j ^= the j-th quadword at scratchpad + (spMix low half & L3 mask), '
           'and the eight pairs of 32-bit integers at scratchpad + (spMix high half & L3 mask) + 8k go, sign-extended, to the two lanes of f0-f3 / e0-e3 (v16 + k) before the conversion', min_instances=20)
    FI = astq.Facts(ctx, 'K0')
    mask = FI.const('randomx::ScratchpadL3Mask64')
    o = ctx.obj('a64')
    P = rtasm.Prog(o, 'a64')
    R.saw(unit='src/jit_compiler_a64_static.S', config='K2')
    for fn in ('generateProgram', 'generateProgramLight'):
        _loopload_one(ctx, R, P, mask, fn)


def _loopload_one(ctx, R, P, mask, fn):
    F, regmap, gp, consts, gen = _tables(ctx, fn)
    R.saw(fn=gp['q'])
    lo, hi = P.sym('randomx_program_aarch64_main_loop'), P.sym('randomx_program_aarch64_vm_instructions')
    ins = [P.ins[a] for a in P.order if lo <= a < hi and P.ins[a].kind != 'data']
    where = 'src/jit_compiler_a64_static.S:randomx_program_aarch64_main_loop'
    # the two `and w, w, #mask` words of generateProgram that land on the second and third instruction of the loop
    ph = [i for i in ins[:4] if (i.raw & 0x7F800000) == 0x12000000]
    if len(ph) != 2:
        raise AnalysisBroken('A64-LOOPLOAD: expected two placeholder `and` instructions at the head of the loop, found %d' % len(ph))
    patch = {}
    for i in ph:
        rd, rn = i.raw & 31, (i.raw >> 5) & 31
        cand = [v for v, ln in consts if (v & 0x7F800000) == 0x12000000 and (v & 31) == rd and ((v >> 5) & 31) == rn]
        if len(cand) != 1:
            raise AnalysisBroken('A64-LOOPLOAD: no unique constant `and w%d, w%d` word in %s' % (rd, rn, fn))
        patch[i.addr] = cand[0]
    first_fp = next((k for k, i in enumerate(ins) if i.mnem == 'ldpsw'), None)
    if first_fp is None:
        raise AnalysisBroken('A64-LOOPLOAD: no ldpsw in the loop head')
    m = DsMachine(regmap)
    tr = []
    for i in ins[:first_fp]:
        tr.append(m.step(patch.get(i.addr, i.raw), where))
    sp, mix = atom(('undef', 2)), atom(('undef', 10))
    a0 = add(X.and_(mix, const(mask)), sp)
    a1 = add(X.and_(V.srl(mix, 32), const(mask)), sp)
    for k in range(8):
        want = xor(atom(('reg', k)), X.ld64(add(a0, const(8 * k))))
        got = m.get(regmap[k])
        if got == want:
            R.ok('%s: r%d' % (fn, k), where)
        else:
            diff = None
            for vals in T.VALUATIONS:
                if T.term_eval(got.canon(), vals) != T.term_eval(want.canon(), vals):
                    diff = vals
                    break
            if diff is None:
                raise AnalysisBroken('A64-LOOPLOAD: r%d is %s, expected %s; undecided' % (k, T.term_show(got, None), T.term_show(want, None)))
            R.violation('%s: r%d' % (fn, k), where, expected=T.term_show(want, None), found='%s after `%s`' % (T.term_show(got, None), ' ; '.join(tr)))
    # the base of the floating-point loads
    fp = ins[first_fp:]
    base = (fp[0].raw >> 5) & 31
    R.check(m.get(base) == a1, '%s: address of the f / e loads (x%d)' % (fn, base), where, expected=T.term_show(a1, None), found=T.term_show(m.get(base), None))
    # pairs: ldpsw xa, xb, [base, #8k]; mov v(16+k).d[0], xa; mov v(16+k).d[1], xb
    cur = None
    lanes = {}
    for i in fp:
        if i.mnem == 'ldpsw':
            mm = rtasm.re.match(r'^\[(\w+)(?:,\s*#(\d+))?\]$', i.ops[2])
            cur = (rtasm.a64_reg(i.ops[0]), rtasm.a64_reg(i.ops[1]), rtasm.a64_reg(mm.group(1)) if mm else None, int(mm.group(2) or 0) if mm else None)
        elif i.mnem == 'mov' and rtasm.re.match(r'^v\d+\.d\[[01]\]$', i.ops[0]) and cur:
            v, lane = int(i.ops[0][1:].split('.')[0]), int(i.ops[0][-2])
            srcr = rtasm.a64_reg(i.ops[1])
            lanes[(v, lane)] = (cur[2], cur[3] + (0 if srcr == cur[0] else 4 if srcr == cur[1] else 99))
    want_l = {(16 + k, l): ('x%d' % base, 8 * k + 4 * l) for k in range(8) for l in range(2)}
    if set(lanes) != set(want_l):
        # another way of loading the sixteen integers than ldpsw + lane moves: not a form this rule reads
        raise AnalysisBroken('A64-LOOPLOAD: the floating-point loads of the loop head are not sixteen `ldpsw` / lane-move pairs (%d lanes recognised)' % len(lanes))
    R.check(lanes == want_l, '%s: lanes of f0-f3 / e0-e3' % fn, where, expected='v(16+k).d[l] = sign-extended 32-bit integer at [spAddr1 + 8k + 4l]', found=sorted(lanes.items())[:6])
    conv = sorted(int(i.ops[0][1:].split('.')[0]) for i in fp if i.mnem == 'scvtf')
    R.check(conv == list(range(16, 24)), '%s: conversion of all eight registers' % fn, where, expected='scvtf on v16..v23', found=conv)
    em = sorted((int(i.ops[0][1:].split('.')[0]), i.ops[1], i.ops[2]) for i in fp if i.mnem in ('bif', 'bit', 'bsl', 'and', 'orr') and i.ops[0].startswith('v'))
    if not em:
        raise AnalysisBroken('A64-LOOPLOAD: no mask operation on the e registers recognised in the loop head')
    R.check([e[0] for e in em] == [20, 21, 22, 23] and len({e[1:] for e in em}) == 1, '%s: e-register mask' % fn, where, expected='one mask operation with the same two mask registers on v20..v23 only', found=em)


@memoised('A64-DSREAD-LIGHT')
def rule_dsread_light(ctx, R):
    from rules import a64hsem as _T
    if _T.STRICT_FAMILY:
        R.note('rule_dsread_light skipped: RXVERIF_STRICT_FAMILY=1 (evaluation on terms switched off, see DESIGN.md 9.2)')
        return
    R.rule('A64-DSREAD-LIGHT', 'the light-mode dataset read of a compiled A64 program up to its call of the item routine - the generated `eor w20, wA, wB`, the static text of vm_instructions_end_light with the 8-byte v1 or v2 '
           'tweak copied in and the mask word generateProgramLight writes - executed on terms: ma:mx as in full-memory mode, first argument = cache pointer, third argument = item number (old ma & CacheLineAlignMask) / 64 '
           '(plus the dataset offset A64-DSOFF decides), nothing else of the VM state touched', min_instances=12)
    FI = astq.Facts(ctx, 'K0')
    mask = FI.const('randomx::CacheLineAlignMask')
    F, regmap, gp, consts, gen = _tables(ctx, 'generateProgramLight')
    o = ctx.obj('a64')
    P = rtasm.Prog(o, 'a64')
    R.saw(unit='src/jit_compiler_a64_static.S', config='K2')
    R.saw(fn=gp['q'])
    s0, s_mask, s_tw = P.sym('randomx_program_aarch64_vm_instructions_end_light'), P.sym('randomx_program_aarch64_light_cacheline_align_mask'), P.sym('randomx_program_aarch64_vm_instructions_end_light_tweak')
    s_v1, s_v2 = P.sym('randomx_program_aarch64_vm_instructions_end_light_v1'), P.sym('randomx_program_aarch64_vm_instructions_end_light_v2')
    where = 'src/jit_compiler_a64_static.S:randomx_program_aarch64_vm_instructions_end_light'
    ph = P.ins[s_mask]
    rd = ph.raw & 31
    cand = [v for v, ln in consts if (v & 0x7F800000) == 0x12000000 and (v & 31) == rd and ((v >> 5) & 31) == rd]
    if len(cand) != 1:
        raise AnalysisBroken('A64-DSREAD-LIGHT: expected one constant `and` word for register %d in generateProgramLight, found %d' % (rd, len(cand)))
    # the number of bytes the generator copies over the tweak site
    ncopy = None
    for x in walk(gp['body']):
        if x['k'] == 'Call' and x.get('name') in ('memcpy', '__builtin_memcpy', '__builtin___memcpy_chk') and len(x.get('a', [])) >= 3 and 'light_tweak' in astq.show(x) or \
           (x['k'] == 'Call' and x.get('name') in ('memcpy', '__builtin_memcpy', '__builtin___memcpy_chk') and len(x.get('a', [])) >= 3 and astq.show(x['a'][0]).startswith('(this->code + dst')):
            v = val(x['a'][2])
            if v is not None:
                ncopy = v if ncopy in (None, v) else -1
    if ncopy is None or ncopy <= 0 or ncopy % 4:
        raise AnalysisBroken('A64-DSREAD-LIGHT: the size of the tweak copy in generateProgramLight was not found')
    seq = []
    a = s0
    while a in P.ins and P.ins[a].kind != 'call':
        seq.append(P.ins[a])
        a = P.nxt(P.ins[a])
        if len(seq) > 60:
            raise AnalysisBroken('A64-DSREAD-LIGHT: no call within 60 instructions of the light-mode piece')
    undecided, nviol = [], 0
    for ver, src_sym in (('v1', s_v1), ('v2', s_v2)):
        tweak = [P.ins[src_sym + 4 * k].raw for k in range(ncopy // 4)]
        m = DsMachine(regmap)
        m.x[31] = atom(('undef', 31))
        tr = []
        words = [gen[0] | (regmap[2] << gen[1]['readReg2']) | (regmap[7] << gen[1]['readReg3'])]
        for i in seq:
            k = (i.addr - s_tw) // 4
            if 0 <= k < len(tweak):
                words.append(tweak[k])
            elif i.addr == s_mask:
                words.append(cand[0])
            else:
                words.append(i.raw)
        for w in words:
            f = lambda lo, n: (w >> lo) & ((1 << n) - 1)
            if (w & 0xFFC00000) in (0xA9000000,) and f(5, 5) == 31:          # stp to the frame: spill
                tr.append('stp[sp]')
                continue
            if (w & 0xFF8003FF) in (0xD10003FF, 0x910003FF) and f(5, 5) == 31:  # sub / add sp, sp, #imm
                tr.append('sp')
                continue
            if (w & 0xFFC003E0) == 0x910003E0 and f(10, 12) == 0:               # mov xd, sp
                m.put(f(0, 5), atom(('frame',)))
                tr.append('mov sp')
                continue
            tr.append(m.step(w, where))
        t = X.and_(xor(atom(('reg', 2)), atom(('reg', 7))), const(M32))
        mp0 = atom(('undef', 9))
        x9 = ror(xor(mp0, t), const(32)) if ver == 'v1' else xor(ror(mp0, const(32)), t)
        item = V.srl(X.and_(V.srl(mp0, 32), const(mask)), 6)
        checks = [('%s ma:mx (x9)' % ver, m.get(9), x9), ('%s first argument: cache pointer' % ver, m.get(0), atom(('undef', 1))), ('%s third argument: item number' % ver, m.get(2), item),
                  ('%s second argument: the frame' % ver, m.get(1), atom(('frame',)))]
        for k in range(8):
            checks.append(('%s r%d untouched' % (ver, k), m.get(regmap[k]), atom(('reg', k))))
        from rules import bitlin
        obs_mp = mask | (mask << 32)
        for inst, got, want in checks:
            verdict, how = bitlin.decide(got, want, obs_mp if 'ma:mx' in inst else bitlin.ALL)
            if verdict == 'eq':
                R.ok(inst, where)
                continue
            if verdict == 'unknown' and not ('frame' in repr(got.canon()) + repr(want.canon())):
                undecided.append('%s is %s, expected %s; undecided' % (inst, T.term_show(got, None), T.term_show(want, None)))
                continue
            nviol += 1
            R.violation(inst, where, expected=T.term_show(want, None), found='%s after `%s`; %s' % (T.term_show(got, None), ' ; '.join(tr), how or 'a different value'))
    if undecided and not nviol:
        raise AnalysisBroken('A64-DSREAD-LIGHT: ' + undecided[0])


@memoised('A64-DSITEM-HSEM')
def rule_dsitem(ctx, R):
    from rules import a64hsem as _T
    if _T.STRICT_FAMILY:
        R.note('rule_dsitem skipped: RXVERIF_STRICT_FAMILY=1 (evaluation on terms switched off, see DESIGN.md 9.2)')
        return
    R.rule('A64-DSITEM-HSEM', 'the hand-written pieces of the A64 dataset-item routine, executed on terms, are the steps of specification 7.3: r0 = (item + 1) * superscalarMul0, r_i = r0 ^ superscalarAdd_i; '
           'cache line pointer = cache memory + (register value & (CacheSize / 64 - 1)) * 64 with the mask word generateSuperscalarHash writes; r_i ^= the i-th word of that line; the eight registers stored to the output in order; the word the generator emits after each round moves the address register of the program into the register-value register', min_instances=18)
    FI = astq.Facts(ctx, 'K0')
    mul0 = FI.const('randomx::superscalarMul0')
    adds = [FI.const('randomx::superscalarAdd%d' % i) for i in range(1, 8)]
    csize = FI.const('randomx::CacheSize')
    F, hs = jit.handlers(ctx, 'a64')
    g = F.func('randomx::JitCompilerA64::generateSuperscalarHash')
    R.saw(fn=g['q'])
    o = ctx.obj('a64')
    P = rtasm.Prog(o, 'a64')
    R.saw(unit='src/jit_compiler_a64_static.S', config='K2')
    s_beg, s_pre, s_mix, s_st, s_end = (P.sym('randomx_calc_dataset_item_aarch64' + x) for x in ('', '_prefetch', '_mix', '_store_result', '_end'))
    where = 'src/jit_compiler_a64_static.S:randomx_calc_dataset_item_aarch64'
    from rules import bitlin

    class M(DsMachine):
        def __init__(self):
            DsMachine.__init__(self, list(range(8)))
            self.x = {}

        def step(self, w, where_):
            f = lambda lo, n: (w >> lo) & ((1 << n) - 1)
            if (w & 0xFFC00000) in (0xA9000000, 0xA9400000) and f(5, 5) == 31:      # stp / ldp with the frame: spill / reload (A64-RT-PRESERVE)
                return 'frame'
            if (w & 0xFF8003FF) in (0xD10003FF, 0x910003FF):
                return 'sp'
            if (w & 0xFFC00000) == 0xA9000000:                                     # stp (signed offset), 64-bit
                imm = f(15, 7)
                imm = (imm - 128 if imm >= 64 else imm) * 8
                a = add(self.get(f(5, 5)), const(imm))
                self.stores.append((a, self.get(f(0, 5))))
                self.stores.append((add(a, const(8)), self.get(f(10, 5))))
                return 'stp'
            if (w & 0xFF000000) == 0x58000000:                                     # ldr (literal)
                imm = f(5, 19)
                imm = imm - (1 << 19) if imm >> 18 else imm
                self.put(f(0, 5), const(o.u64(self.pc + 4 * imm)))
                return 'ldr='
            if (w & 0xFF200000) == 0x8B000000 and f(22, 2) == 0:                    # add (shifted register, lsl)
                self.put(f(0, 5), add(self.get(f(5, 5)), T.scale(self.get(f(16, 5)), 1 << f(10, 6))))
                return 'add lsl'
            if (w & 0xFFE0FFE0) == 0xAA0003E0:                                      # mov xd, xm
                self.put(f(0, 5), self.get(f(16, 5)))
                return 'mov'
            if (w & 0xFC000000) == 0x14000000:
                return 'b'
            if w == 0xD65F03C0:
                return 'ret'
            return DsMachine.step(self, w, where_)

    def run(m, lo, hi, patch=None):
        tr = []
        for a in P.order:
            if lo <= a < hi and P.ins[a].kind != 'data':
                m.pc = a
                tr.append(m.step((patch or {}).get(a, P.ins[a].raw), where))
        return tr

    def report(inst, got, want, tr):
        verdict, how = bitlin.decide(got, want)
        if verdict == 'eq':
            R.ok(inst, where)
        elif verdict == 'unknown':
            raise AnalysisBroken('A64-DSITEM-HSEM: %s is %s, expected %s; undecided' % (inst, T.term_show(got, None), T.term_show(want, None)))
        else:
            R.violation(inst, where, expected=T.term_show(want, None), found='%s after `%s`; %s' % (T.term_show(got, None), ' ; '.join(tr), how))
    # (a) initialisation: up to the branch over the constants
    m = M()
    first_b = next(a for a in P.order if s_beg <= a < s_pre and P.ins[a].mnem == 'b')
    tr = run(m, s_beg, first_b)
    item, cache, out = atom(('undef', 2)), atom(('undef', 0)), atom(('undef', 1))
    r0 = T.scale(add(item, const(1)), mul0)
    report('r0 = (item + 1) * superscalarMul0', m.get(0), r0, tr)
    for i in range(1, 8):
        report('r%d = r0 ^ superscalarAdd%d' % (i, i), m.get(i), xor(r0, const(adds[i - 1])), tr)
    regv, cachep, outp = [r for r in range(8, 14) if m.x.get(r) == item], [r for r in range(8, 14) if m.x.get(r) == cache], [r for r in range(8, 14) if m.x.get(r) == out]
    R.check(len(regv) == 1 and len(cachep) == 1 and len(outp) == 1, 'register value / cache pointer / output pointer kept in three registers', where, expected='one register each', found='%s / %s / %s' % (regv, cachep, outp))
    if not (len(regv) == 1 and len(cachep) == 1 and len(outp) == 1):
        return
    regv, cachep, outp = regv[0], cachep[0], outp[0]
    # (b) line selection, with the mask word of generateSuperscalarHash
    cand = [val(x['a'][0]) for x in walk(g['body']) if x['k'] == 'Call' and x.get('name') == 'emit32' and x.get('a') and val(x['a'][0]) is not None and (val(x['a'][0]) & 0xFF800000) == 0x92000000]
    if len(cand) != 1:
        raise AnalysisBroken('A64-DSITEM-HSEM: expected one constant `and x, x, #imm` word in generateSuperscalarHash, found %d' % len(cand))
    m = M()
    m.x = {regv: atom(('undef', 101)), cachep: atom(('undef', 102))}
    tr = run(m, s_pre, s_mix, {s_pre: cand[0]})
    linep = [r for r in range(8, 14) if r not in (regv, cachep, outp) and r in m.x]
    want_line = add(atom(('undef', 102)), T.scale(X.and_(atom(('undef', 101)), const(csize // 64 - 1)), 64))
    if len(m.prefetch) != 1:
        R.note('A64-DSITEM-HSEM: %d prefetches of the selected line (a hint; no result depends on it)' % len(m.prefetch))
    if not linep:
        R.violation('cache line pointer', where, expected=T.term_show(want_line, None), found='no register written')
        return
    lp = [r for r in linep if bitlin.decide(m.get(r), want_line)[0] == 'eq']
    if not lp:
        R.violation('cache line pointer', where, expected=T.term_show(want_line, None), found='; '.join('x%d = %s' % (r, T.term_show(m.get(r), None)) for r in linep) + ' after `%s`' % ' ; '.join(tr))
        return
    R.ok('cache line pointer (x%d)' % lp[0], where)
    # the register-value update the generator emits after every round: mov x<regv>, x<address register>
    upd = None
    for x in walk(g['body']):
        if x['k'] == 'Call' and x.get('name') == 'emit32' and x.get('a') and 'getAddressRegister' in astq.show(x['a'][0]):
            cpart, shift = 0, None
            leaves = []

            def flat(n):
                n = astq.strip_all(n)
                if n['k'] == 'Bin' and n.get('op') == '|' and val(n) is None:
                    flat(n['l'])
                    flat(n['r'])
                else:
                    leaves.append(n)
            flat(x['a'][0])
            for lf in leaves:
                v = val(lf)
                if v is not None:
                    cpart |= v
                elif lf['k'] == 'Bin' and lf.get('op') == '<<' and val(lf['r']) is not None:
                    shift = val(lf['r'])
            upd = (cpart, shift, x.get('ln'))
    if upd is None:
        R.violation('register value update', '%s:%d' % (g['file'], g['line']), expected='a word that moves the address register of the program into x%d after every round' % regv, found='no such emit32')
    else:
        mm = M()
        mm.x = {i: atom(('reg', i)) for i in range(8)}
        ok = True
        for ar in range(8):
            mm2 = M()
            mm2.x = {i: atom(('reg', i)) for i in range(8)}
            try:
                mm2.step(upd[0] | (ar << (upd[1] or 0)), where)
            except AnalysisBroken:
                ok = False
                break
            if mm2.get(regv) != atom(('reg', ar)) or any(mm2.get(i) != atom(('reg', i)) for i in range(8)):
                ok = False
        R.check(ok, 'register value update', '%s:%d' % (g['file'], upd[2] or g['line']), expected='mov x%d, x<address register> for each of the eight registers' % regv, found='word %#010x | reg << %s' % (upd[0], upd[1]))
    # (c) mixing in the line
    m = M()
    m.x = {i: atom(('reg', i)) for i in range(8)}
    m.x[lp[0]] = atom(('undef', 103))
    tr = run(m, s_mix, s_st)
    for i in range(8):
        report('r%d ^= word %d of the line' % (i, i), m.get(i), xor(atom(('reg', i)), X.ld64(add(atom(('undef', 103)), const(8 * i)))), tr)
    # (d) result
    m = M()
    m.x = {i: atom(('reg', i)) for i in range(8)}
    m.x[outp] = atom(('undef', 104))
    tr = run(m, s_st, s_end)
    got = sorted(((T.term_show(a, None), T.term_show(v, None)) for a, v in m.stores))
    want = sorted((T.term_show(add(atom(('undef', 104)), const(8 * i)), None), T.term_show(atom(('reg', i)), None)) for i in range(8))
    R.check(got == want, 'result: r0..r7 at output + 8i', where, expected=want[:3], found=got[:4])
