"""Rules on the bytecode decoder / executors of the interpreter (reference engine).

TAB-OPC (interpreter side), TAB-DISPATCH, SPEC-FREQ, DEC-DEFUSE, LW-SOUND, LW-SPEC, DEC-OPERANDS, MEM-LEVEL,
MEM-MASKSET, MEM-ADDRFORM, CBR-BITS, CBR-TARGET, RCP-NOOP, CFR-RULE, FP-ABITS, FP-EMASK, FP-FSCAL, FP-CVT."""
import re

import astq
import decoder
import domains
from astq import calls, loc, show, showv, strip_all, val, walk
from core import AnalysisBroken
from decoder import ALIAS, cond_str
from domains import KB, KBEval


def ref_id(n):
    n = strip_all(n) if astq.is_node(n) else None
    while n is not None and n['k'] == 'Cast':
        n = strip_all(n['e'])
    return n.get('id') if n is not None and n['k'] == 'Ref' else None

_CACHE = {}


def interp(ctx, F):
    k = (ctx.key, F.config)
    if k not in _CACHE:
        _CACHE[k] = decoder.Interp(F)
    return _CACHE[k]


def spec_instr_rows(ctx):
    """[(name, freq, dst, src, srceq, group)] from Tables 5.2.1, 5.3.1, 5.4.1, 5.5.1."""
    S = ctx.spec()
    rows = []
    for num, grp, has_eq in (('5.2.1', 'integer', True), ('5.3.1', 'float', False), ('5.4.1', 'control', False), ('5.5.1', 'store', False)):
        t = S.table(num)
        hdr = [h.replace('`', '') for h in t['header']]
        want = ['frequency', 'instruction', 'dst', 'src'] + (['src == dst ?'] if has_eq else [])
        if hdr[:len(want)] != want:
            raise AnalysisBroken('spec Table %s header %s' % (num, hdr))
        for r in t['rows']:
            c = r['_cells']
            m = re.match(r'^(\d+)/256$', c[0])
            if not m:
                raise AnalysisBroken('spec Table %s: frequency cell %r' % (num, c[0]))
            rows.append(dict(name=c[1], freq=int(m.group(1)), dst=c[2], src=c[3], srceq=S.code(c[4]) if has_eq else '-', group=grp, line=r['_line']))
    return rows


# ---------------------------------------------------------------------------------------------
def rule_tab_opc(ctx, R, F):
    I = interp(ctx, F)
    rows = spec_instr_rows(ctx)
    R.rule('SPEC-FREQ', 'frequency column of spec Tables 5.2.1/5.3.1/5.4.1/5.5.1 = RANDOMX_FREQ_* = number of opcodes the decoder maps to the instruction, '
           'every decoder block is one of the 29 specified instructions', min_instances=29)
    spec_names = [r['name'] for r in rows]
    blocks = {b['name']: b for b in I.blocks}
    order_impl = [b['name'] for b in I.blocks if b['hi'] > b['lo']]
    for r in rows:
        b = blocks.get(r['name'])
        mac = F.macro('RANDOMX_FREQ_' + r['name'])
        mv = int(mac['body']) if mac and mac['body'].strip().isdigit() else None
        R.check(b is not None and b['hi'] - b['lo'] == r['freq'] and mv == r['freq'], 'freq %s' % r['name'], 'doc/specs.md:%d' % r['line'],
                expected=r['freq'], found=dict(decoder=(b['hi'] - b['lo']) if b else None, macro=mv))
    # (the specification fixes only the number of opcodes per instruction; the numbering itself is compared between engines, rule TAB-OPC)
    R.check(set(order_impl) <= set(spec_names) | {'NOP'} and len(set(order_impl)) == len(order_impl), 'decoder blocks are the specified instructions', I.f['file'] + ':%d' % I.f['line'],
            expected=sorted(spec_names), found=order_impl)
    R.saw(fn=I.f['q'], unit=I.f['_unit'], config=F.config)

    R.rule('TAB-DISPATCH', 'every instruction type a decoder path can assign has an executing case in executeInstruction (not the UNREACHABLE default); '
           'each block assigns its own type or a listed substitute (IMUL_RCP -> IMUL_R | NOP, ISWAP_R -> ISWAP_R | NOP)', min_instances=40)
    allowed_sub = {'IMUL_RCP': {'IMUL_R', 'NOP'}, 'ISWAP_R': {'ISWAP_R', 'NOP'}}
    for b, p in I.all_paths():
        ty = p['type']
        inst = 'block %s [%s]' % (b['name'], cond_str(p))
        okt = ty == b['name'] or ty in allowed_sub.get(b['name'], set())
        R.check(okt, inst + ' type', '%s:%s' % (I.f['file'], b['line']), expected=b['name'], found=ty)
        has = ty in I.dispatch or ty in I.dispatch_nop
        R.check(has and ty not in I.dispatch_unreachable, inst + ' dispatch', '%s:%s' % (I.f['file'], b['line']), expected='case %s executes' % ty,
                found='executor %s' % I.dispatch.get(ty, 'NOP-break' if ty in I.dispatch_nop else 'UNREACHABLE'))
        if ty in I.dispatch:
            R.check(I.dispatch[ty].endswith('exe_' + ty), inst + ' executor name', '%s:%s' % (I.f['file'], b['line']), expected='exe_' + ty, found=I.dispatch[ty])


def rule_defuse(ctx, R, F):
    I = interp(ctx, F)
    R.rule('DEC-DEFUSE', 'on every decoder path the bytecode fields the executor of the assigned type reads are assigned on that path (bytecode[] outlives '
           'programs, keys and v1/v2 switches, an unassigned field is a stale one); isrc = &ibc.imm requires imm assigned', min_instances=40)
    for b, p in I.all_paths():
        ty = p['type']
        inst = '%s [%s]' % (b['name'], cond_str(p))
        where = '%s:%s' % (I.f['file'], b['line'])
        if p['fields'].get('_unknown_loop'):
            R.violation(inst, where, expected='only the mark-all loop', found='unrecognised loop at %s' % p['fields']['_unknown_loop'])
        if ty not in I.exec_rw:
            R.ok(inst, where, detail='type %s has no executor (no field read)' % ty)
            continue
        reads, _ = I.exec_rw[ty]
        assigned = {ALIAS.get(k, k) for k in p['fields'] if not k.startswith('_')}
        need = {ALIAS.get(k, k) for k in reads}
        for fld in ('isrc', 'fsrc'):
            pt = p['fields'].get(fld, {}).get('pointee')
            if pt and pt[0] == 'IBC':
                need.add(ALIAS.get(pt[1], pt[1]))
        missing = sorted(need - assigned)
        R.check(not missing, inst, where, expected='assigned ⊇ read %s' % sorted(need), found='missing %s' % missing if missing else 'all assigned')


def rule_lw(ctx, R, F):
    I = interp(ctx, F)
    rows = {r['name']: r for r in spec_instr_rows(ctx)}
    R.rule('LW-SOUND', 'last-writer table over-approximates executor write sets: every integer register an executor of the assigned type can write '
           '(stores through idst; ISWAP also through isrc) is marked registerUsage[reg] = i on that path', min_instances=40)
    R.rule('LW-SPEC', 'marks are exactly the four "modified" rules of spec 5.4.2: destination of an integer instruction (IMUL_RCP only when not a no-op), '
           'both operands of ISWAP_R when distinct, all registers for CBRANCH, nothing for F/E-group, CFROUND, ISTORE, NOP', min_instances=40)
    rc = F.const('randomx::RegistersCount')
    for b, p in I.all_paths():
        ty = p['type']
        inst = '%s [%s]' % (b['name'], cond_str(p))
        where = '%s:%s' % (I.f['file'], b['line'])
        marks = {m['idx'] for m in p['marks']}
        for m in p['marks']:
            if not m['value_is_i']:
                R.violation(inst + ' mark value', m['loc'], expected='registerUsage[..] = i', found='other value', rule='LW-SOUND')
        written = set()
        if ty in I.exec_rw:
            _, wthru = I.exec_rw[ty]
            for fld in wthru:
                pt = None
                for k, v in p['fields'].items():
                    if not k.startswith('_') and ALIAS.get(k) == ALIAS.get(fld) and 'pointee' in v:
                        pt = v['pointee']
                if pt is None:
                    R.violation(inst + ' write through ' + fld, where, expected='pointee known', found='field not assigned on path', rule='LW-SOUND')
                    continue
                if pt[0] == 'R':
                    written.add(pt[1])
                elif pt[0] in ('IBC', 'ZERO', '?'):
                    R.violation(inst + ' write through ' + fld, where, expected='register pointee', found=str(pt), rule='LW-SOUND')
        covered = written <= marks or p['mark_all'] == rc
        R.check(covered, inst, where, expected='marks ⊇ %s' % sorted(written), found='marks %s%s' % (sorted(marks), ' + all' if p['mark_all'] else ''), rule='LW-SOUND')
        # exact marks per spec
        row = rows.get(b['name'])
        if row is None:
            exp = set()
            exp_all = False
        else:
            exp_all = b['name'] == 'CBRANCH'
            exp = set()
            if row['group'] == 'integer':
                if b['name'] == 'IMUL_RCP':
                    if ty != 'NOP':
                        exp = {('dst', rc)}
                elif b['name'] == 'ISWAP_R':
                    if ty != 'NOP':
                        exp = {('dst', rc), ('src', rc)}
                else:
                    exp = {('dst', rc)}
        R.check(marks == exp and bool(p['mark_all'] == rc) == exp_all, inst, where, expected='marks %s%s' % (sorted(exp), ' + all' if exp_all else ''),
                found='marks %s%s' % (sorted(marks), ' + all(%s)' % p['mark_all'] if p['mark_all'] else ''), rule='LW-SPEC')
    # no-op conditions of the two special instructions (spec 5.4.2 rules 2 and 3)
    for b in I.blocks:
        if b['name'] == 'ISWAP_R':
            for p in b['paths']:
                eq = ('dst != src', False) in p['conds']
                R.check((p['type'] == 'NOP') == eq, 'ISWAP_R no-op iff src == dst [%s]' % cond_str(p), '%s:%s' % (I.f['file'], b['line']), expected='NOP iff !(dst != src)', found=p['type'], rule='LW-SPEC')


def rule_rcp(ctx, R, F):
    I = interp(ctx, F)
    R.rule('RCP-NOOP', 'IMUL_RCP: every field assignment other than type = NOP and the last-writer mark are control-dependent on '
           '!isZeroOrPowerOf2(zero-extended imm32); the no-op arm marks nothing; isZeroOrPowerOf2(x) is (x & (x-1)) == 0', min_instances=4)
    blk = [b for b in I.blocks if b['name'] == 'IMUL_RCP']
    if len(blk) != 1:
        raise AnalysisBroken('IMUL_RCP block not found')
    b = blk[0]
    where = '%s:%s' % (I.f['file'], b['line'])
    R.check(len(b['paths']) == 2, 'interpreter: two arms', where, expected=2, found=len(b['paths']))
    for p in b['paths']:
        atoms = [(s, t) for s, t in p['conds'] if s.startswith('isZeroOrPowerOf2')]
        if len(atoms) != 1 or len(p['conds']) != 1:
            R.violation('interpreter: guard', where, expected='single guard isZeroOrPowerOf2(divisor)', found=cond_str(p))
            continue
        noop = atoms[0][1]
        if noop:
            others = [k for k in p['fields'] if k != 'type']
            R.check(p['type'] == 'NOP' and not others and not p['marks'] and not p['mark_all'], 'interpreter: no-op arm', where,
                    expected='type = NOP only, no mark', found='type %s, fields %s, marks %s' % (p['type'], others, [m['idx'] for m in p['marks']]))
        else:
            R.check(p['type'] == 'IMUL_R' and [m['idx'] for m in p['marks']] == [('dst', 8)], 'interpreter: multiply arm', where,
                    expected='IMUL_R with mark dst', found='type %s marks %s' % (p['type'], [m['idx'] for m in p['marks']]))
            imm = p['fields'].get('imm', {}).get('nodes', [])
            src = p['fields'].get('isrc', {}).get('pointee')
            okimm = len(imm) == 1 and strip_all(imm[0]['r'])['k'] == 'Call' and strip_all(imm[0]['r']).get('name') == 'randomx_reciprocal' and src == ('IBC', 'imm')
            R.check(okimm, 'interpreter: multiplier', where, expected='imm = randomx_reciprocal(divisor); isrc = &imm', found='imm %s isrc %s' % ([showv(n['r']) for n in imm], src))
    # the divisor is the zero-extended 32-bit immediate
    divs = [v for v in b['paths'][0]['vars'].values() if v[0] == 'expr' and strip_all(v[1])['k'] == 'Call' and strip_all(v[1]).get('name') == 'getImm32']
    R.check(len(divs) == 1, 'interpreter: divisor = instr.getImm32()', where, expected='uint32 immediate', found=[show(v[1]) for v in b['paths'][0]['vars'].values() if v[0] == 'expr'])
    f = F.func('randomx::isZeroOrPowerOf2')
    rets = [x for x in walk(f['body']) if x['k'] == 'Return']
    pid = f['params'][0]['id']
    with astq.renaming({pid: 'x'}):
        s = show(rets[0]['e']) if rets else None
    R.check(s == '((x & (x - 1)) == 0)' and 'unsigned long' in f['params'][0]['ty'], 'isZeroOrPowerOf2 definition', '%s:%d' % (f['file'], f['line']), expected='((x & (x - 1)) == 0) on uint64_t', found=s)
    g = F.func('randomx::Instruction::getImm32')
    R.check(g['ret'] == 'unsigned int', 'getImm32 returns uint32_t', '%s:%d' % (g['file'], g['line']), expected='unsigned int', found=g['ret'])


# ---------------------------------------------------------------------------------------------
def masks(F):
    return dict(L1=F.const('randomx::ScratchpadL1Mask'), L2=F.const('randomx::ScratchpadL2Mask'), L3=F.const('randomx::ScratchpadL3Mask'),
                L3_64=F.const('randomx::ScratchpadL3Mask64'), size=F.const('randomx::ScratchpadSize'))


def classify_mask(node, mk):
    """'L3' | 'mem?L1:L2' | None for the value assigned to memMask."""
    n = strip_all(node)
    if val(n) is not None:
        for k in ('L1', 'L2', 'L3'):
            if val(n) == mk[k]:
                return k
        return 'const %d' % val(n)
    if n['k'] == 'Cond':
        c = strip_all(n['c'])
        while c['k'] == 'Cast':
            c = c['e']
        if c['k'] == 'Call' and c.get('name') == 'getModMem' and val(n['t']) == mk['L1'] and val(n['f']) == mk['L2']:
            return 'mem?L1:L2'
        return 'cond(%s ? %s : %s)' % (show(c), val(n['t']), val(n['f']))
    return None


def rule_operands(ctx, R, F):
    I = interp(ctx, F)
    rows = {r['name']: r for r in spec_instr_rows(ctx)}
    mk = masks(F)
    R.rule('DEC-OPERANDS', 'per decoder path: destination / source register group and index modulus, the src == dst rule (imm32 / 0 / none / NOP) and the '
           'immediate extension are those of spec Tables 5.2.1, 5.3.1, 5.4.1, 5.5.1 and Table 5.1.2', min_instances=40)
    R.rule('MEM-LEVEL', 'scratchpad level of every memory operand follows Table 5.1.4: read with src != dst -> mod.mem ? L1 : L2, read with src == dst -> L3, '
           'write -> mod.cond < 14 ? (mod.mem ? L1 : L2) : L3; mod.* decode bits 0-1 / 2-3 / 4-7', min_instances=14)
    rc = F.const('randomx::RegistersCount')
    rf = F.const('randomx::RegisterCountFlt')
    R._cur = 'DEC-OPERANDS'
    for b, p in I.all_paths():
        row = rows.get(b['name'])
        inst = '%s [%s]' % (b['name'], cond_str(p))
        where = '%s:%s' % (I.f['file'], b['line'])
        if row is None or p['type'] == 'NOP':
            continue
        fl = p['fields']
        dstp = (fl.get('idst') or fl.get('fdst') or {}).get('pointee')
        srcp = (fl.get('isrc') or fl.get('fsrc') or {}).get('pointee')
        # ---- destination
        d = row['dst']
        if d == 'R':
            exp_d = ('R', ('dst', rc), 0)
            R.check(dstp == exp_d and 'idst' in fl, inst + ' dst', where, expected=str(exp_d), found=str(dstp))
        elif d in ('F', 'E'):
            exp_d = (d, ('dst', rf), 0)
            R.check(dstp == exp_d and 'fdst' in fl, inst + ' dst', where, expected=str(exp_d), found=str(dstp))
        elif d == 'F+E':
            low = ('dst < %d' % rf, True) in p['conds']
            high = ('dst < %d' % rf, False) in p['conds']
            exp_d = ('F', ('dst', rc), 0) if low else ('E', ('dst', rc), -rf) if high else None
            R.check(exp_d is not None and dstp == exp_d, inst + ' dst', where, expected='F[dst] if dst < 4 else E[dst-4], dst mod 8', found=str(dstp))
        elif d == '-':
            R.check(dstp is None, inst + ' dst', where, expected='no destination', found=str(dstp))
        # ---- source
        s = row['src']
        mem = b['name'].endswith('_M') or b['name'] == 'ISTORE'
        eq_atom_t = ('dst != src', True) in p['conds']
        eq_atom_f = ('dst != src', False) in p['conds']
        rule = row['srceq']
        if s == 'R':
            if rule in ('src = imm32', 'src = 0') and eq_atom_f:
                if rule == 'src = imm32':
                    immn = fl.get('imm', {}).get('nodes', [])
                    r0 = strip_all(immn[0]['r']) if len(immn) == 1 else None
                    sext = r0 is not None and r0['k'] == 'Call' and r0.get('name') == 'signExtend2sCompl' and strip_all(r0['a'][0]).get('name') == 'getImm32'
                    zext_masked = False
                    if r0 is not None and r0['k'] == 'Call' and r0.get('name') == 'getImm32':
                        # acceptable only if the executor masks the operand to 6 bits (rotates)
                        ex = F.func(I.dispatch[p['type']])
                        zext_masked = any(x['k'] == 'Bin' and x['op'] == '&' and val(x['r']) == 63 and 'isrc' in show(x['l']) for x in walk(ex['body']))
                    R.check(srcp == ('IBC', 'imm') and (sext or zext_masked), inst + ' src==dst', where, expected='isrc = &imm, imm = sign-extended imm32 (or zero-extended under & 63)',
                            found='isrc %s imm %s' % (srcp, [showv(n['r']) for n in immn]))
                else:
                    R.check(srcp == ('ZERO',), inst + ' src==dst', where, expected='isrc = &zero', found=str(srcp))
            elif rule in ('src = imm32', 'src = 0') and not eq_atom_t:
                R.violation(inst + ' src==dst', where, expected='decoder distinguishes src == dst (%s)' % rule, found=cond_str(p))
            else:
                if rule == 'src = dst' and (eq_atom_t or eq_atom_f) and b['name'] != 'ISWAP_R':
                    R.violation(inst + ' src==dst', where, expected='no special case (src = dst)', found=cond_str(p))
                else:
                    R.check(srcp == ('R', ('src', rc), 0), inst + ' src', where, expected="('R', ('src', %d), 0)" % rc, found=str(srcp))
        elif s == 'A':
            R.check(srcp == ('A', ('src', rf), 0) and 'fsrc' in fl, inst + ' src', where, expected="('A', ('src', %d), 0)" % rf, found=str(srcp))
        elif s == '-':
            if b['name'] not in ('IMUL_RCP',):
                R.check(srcp is None, inst + ' src', where, expected='no source register', found=str(srcp))
        # ---- immediates of memory / branch-less instructions
        if mem:
            immn = fl.get('imm', {}).get('nodes', [])
            r0 = strip_all(immn[0]['r']) if len(immn) == 1 else None
            sext = r0 is not None and r0['k'] == 'Call' and r0.get('name') == 'signExtend2sCompl' and strip_all(r0['a'][0]).get('name') == 'getImm32'
            R.check(sext, inst + ' imm', where, expected='imm = signExtend2sCompl(instr.getImm32())', found=[showv(n['r']) for n in immn])
            mm = fl.get('memMask', {}).get('nodes', [])
            cls = classify_mask(mm[0]['r'], mk) if len(mm) == 1 else None
            if b['name'] == 'ISTORE':
                lowc = ('getModCond() < 14', True) in p['conds']
                highc = ('getModCond() < 14', False) in p['conds']
                exp = 'mem?L1:L2' if lowc else 'L3' if highc else '?'
            elif eq_atom_f:
                exp = 'L3'
            else:
                exp = 'mem?L1:L2'
            def on_path(x):
                # `mod.mem ? L1 : L2` written as a conditional expression or as two branches is the same thing: resolve it with the path's own decision
                if x == 'mem?L1:L2':
                    for a_, t_ in p['conds']:
                        if a_.strip('()').startswith('getModMem'):
                            return 'L1' if t_ else 'L2'
                return x
            R.check(on_path(cls) == on_path(exp), inst + ' level', where, expected=on_path(exp), found=on_path(cls), rule='MEM-LEVEL')
        if b['name'] == 'IADD_RS':
            sh = fl.get('shift', {}).get('nodes', [])
            oksh = len(sh) == 1 and strip_all(sh[0]['r'])['k'] == 'Call' and strip_all(sh[0]['r']).get('name') == 'getModShift'
            R.check(oksh, inst + ' shift', where, expected='shift = instr.getModShift()', found=[showv(n['r']) for n in sh])
            disp = ('5 != dst', False) in p['conds'] or ('dst != 5', False) in p['conds']
            immn = fl.get('imm', {}).get('nodes', [])
            r0 = strip_all(immn[0]['r']) if len(immn) == 1 else None
            if disp:
                okimm = r0 is not None and r0['k'] == 'Call' and r0.get('name') == 'signExtend2sCompl'
                R.check(okimm, inst + ' imm', where, expected='dst == r5: imm = sign-extended imm32 (spec 5.2.1)', found=[showv(n['r']) for n in immn])
            else:
                R.check(r0 is not None and val(r0) == 0, inst + ' imm', where, expected='dst != r5: imm = 0', found=[showv(n['r']) for n in immn])
            R.check(F.const('randomx::RegisterNeedsDisplacement') == 5, 'IADD_RS displacement register', where, expected=5, found=F.const('randomx::RegisterNeedsDisplacement'))
        if b['name'] == 'CFROUND':
            immn = fl.get('imm', {}).get('nodes', [])
            r0 = strip_all(immn[0]['r']) if len(immn) == 1 else None
            okimm = r0 is not None and r0['k'] == 'Bin' and r0['op'] == '&' and val(r0['r']) == 63 and strip_all(r0['l']).get('name') == 'getImm32'
            R.check(okimm, inst + ' imm', where, expected='imm = imm32 & 63', found=[showv(n['r']) for n in immn])
    # mod.* accessors, Table 5.1.3
    from domains import KB as _KB, KBEval as _KBEval
    for name, ref_, exp in (('getModMem', lambda m: m % 4, 'mod % 4'), ('getModShift', lambda m: (m >> 2) % 4, '(mod >> 2) % 4'), ('getModCond', lambda m: m >> 4, 'mod >> 4')):
        f = F.func('randomx::Instruction::' + name)
        bad = None
        for m in range(256):
            r = _KBEval(F, {'this->mod': _KB.const(8, m)}).run_body(f)
            v = r.value() if r is not None else None
            if v is None:
                raise AnalysisBroken('MEM-LEVEL: cannot evaluate Instruction::%s for mod = %d' % (name, m))
            if v != ref_(m):
                bad = (m, v)
                break
        R.check(bad is None, 'Instruction::' + name, '%s:%d' % (f['file'], f['line']), expected='%s for all 256 values of mod' % exp, found='mod = %d gives %d' % bad if bad else 'equal for all 256 values', rule='MEM-LEVEL')
    R.eq('StoreL3Condition', 'src/common.hpp', 14, F.const('randomx::StoreL3Condition'), rule='MEM-LEVEL')
    modf = [x for x in F.record('randomx::Instruction')['fields'] if x['name'] == 'mod']
    R.check(bool(modf) and modf[0]['ty'] == 'unsigned char', 'Instruction::mod is 8 bits', 'src/instruction.hpp', expected='unsigned char', found=modf[0]['ty'] if modf else None, rule='MEM-LEVEL')


def rule_maskset(ctx, R, F):
    I = interp(ctx, F)
    mk = masks(F)
    R.rule('MEM-MASKSET', 'every value assigned to ibc.memMask in a block whose executor touches the scratchpad folds to one of ScratchpadL1/L2/L3Mask, and each mask m '
           'satisfies 0 <= m, m % 8 == 0, m + 8 <= ScratchpadSize', min_instances=17)
    for k in ('L1', 'L2', 'L3'):
        m = mk[k]
        R.check(m >= 0 and m % 8 == 0 and m + 8 <= mk['size'], 'mask ' + k, 'src/common.hpp', expected='8-aligned, +8 within %d' % mk['size'], found=m)
    R.check(mk['L3_64'] % 64 == 0 and mk['L3_64'] + 64 <= mk['size'], 'mask L3_64', 'src/common.hpp', expected='64-aligned, +64 within scratchpad', found=mk['L3_64'])
    for b, p in I.all_paths():
        if 'memMask' not in p['fields'] or b['name'] == 'CBRANCH':
            continue
        for n in p['fields']['memMask']['nodes']:
            r = strip_all(n['r'])
            vals = []
            if val(r) is not None:
                vals = [val(r)]
            elif r['k'] == 'Cond':
                vals = [val(r['t']), val(r['f'])]
            okm = bool(vals) and all(v in (mk['L1'], mk['L2'], mk['L3']) for v in vals)
            R.check(okm, '%s [%s] memMask' % (b['name'], cond_str(p)), loc(n, I.f), expected='one of %s' % [mk['L1'], mk['L2'], mk['L3']], found=vals or showv(r))
    R.rule('MEM-ADDRFORM', 'every pointer formed from `scratchpad` in the executors is scratchpad + (uint32)((...) & ibc.memMask), 8 bytes are accessed, '
           'and the masked value is at most ScratchpadSize - 8', min_instances=11)
    ibm = F.func('randomx::BytecodeMachine::getScratchpadAddress')
    users = 0
    for f in F.funcs(r'^randomx::BytecodeMachine::(exe_\w+|getScratchpadAddress)$'):
        sp = [p_['id'] for p_ in f['params'] if p_['name'] == 'scratchpad' or p_['ty'] == 'unsigned char *']
        if not sp:
            continue
        for x in walk(f['body']):
            if x['k'] == 'Ref' and x.get('id') in sp:
                pass
        for x in walk(f['body']):
            if x['k'] == 'Bin' and x['op'] == '+' and strip_all(x['l'])['k'] == 'Ref' and strip_all(x['l']).get('id') in sp:
                users += 1
                off = strip_all(x['r'])
                okf = False
                desc = show(off)
                # either a local defined as (..) & ibc.memMask, or the expression itself
                cand = off
                if off['k'] == 'Ref' and off.get('id'):
                    for d in walk(f['body']):
                        if d['k'] == 'Decl':
                            for dd in d['d']:
                                if dd.get('id') == off['id'] and 'init' in dd:
                                    cand = strip_all(dd['init'])
                                    desc = '%s %s = %s' % (dd['ty'], dd['name'], show(cand))
                                    if dd['ty'].replace('const ', '').strip() not in ('unsigned int',):
                                        cand = None
                if cand is not None and cand['k'] == 'Bin' and cand['op'] == '&' and show(cand['r']).endswith('.memMask'):
                    okf = True
                R.check(okf, '%s: scratchpad + ...' % f['name'], loc(x, f), expected='(expr) & ibc.memMask', found=desc)
            if x['k'] == 'Call' and x.get('name') == 'getScratchpadAddress':
                users += 1
                R.ok('%s uses getScratchpadAddress' % f['name'], loc(x, f))
    # raw uses of scratchpad parameter other than the two forms
    for f in F.funcs(r'^randomx::BytecodeMachine::exe_\w+$'):
        sp = [p_['id'] for p_ in f['params'] if p_['ty'] == 'unsigned char *']
        for x in walk(f['body']):
            if x['k'] in ('Idx',) and strip_all(x['b'])['k'] == 'Ref' and strip_all(x['b']).get('id') in sp:
                R.violation('%s: scratchpad[...]' % f['name'], loc(x, f), expected='masked form', found=show(x))
    if users < 11:
        raise AnalysisBroken('MEM-ADDRFORM: only %d scratchpad address formations found' % users)


# ---------------------------------------------------------------------------------------------
def rule_cbr(ctx, R, F):
    I = interp(ctx, F)
    R.rule('CBR-BITS', 'for each of the 16 condition shifts b = mod.cond + JUMP_OFFSET: the branch immediate has bit b set and bit b-1 clear (known-bits), '
           'the condition mask is JUMP_BITS contiguous ones at b', min_instances=16)
    blk = [b for b in I.blocks if b['name'] == 'CBRANCH'][0]
    where = '%s:%s' % (I.f['file'], blk['line'])
    cm = F.const('randomx::ConditionMask')
    co = F.const('randomx::ConditionOffset')
    jb = int(F.macro('RANDOMX_JUMP_BITS')['body'])
    R.check(cm == (1 << jb) - 1, 'ConditionMask', 'src/common.hpp', expected=(1 << jb) - 1, found=cm)
    R.check(co == int(F.macro('RANDOMX_JUMP_OFFSET')['body']), 'ConditionOffset', 'src/common.hpp', expected='RANDOMX_JUMP_OFFSET', found=co)
    # range of mod.cond from its definition
    gmc = F.func('randomx::Instruction::getModCond')
    kb = KBEval(F, {}).run_body(gmc)
    maxc = kb.umax() if kb else None
    R.check(maxc == 15, 'mod.cond range', '%s:%d' % (gmc['file'], gmc['line']), expected='0..15', found='0..%s' % maxc)
    stmts = blk['node']['t']
    for mc in range(0, (maxc or 15) + 1):
        ev = KBEval(F, {}, overrides={'randomx::Instruction::getModCond': KB.const(32, mc)})
        try:
            ev._exec(stmts, [])
        except AnalysisBroken as e:
            raise AnalysisBroken('CBR-BITS: cannot evaluate CBRANCH block: %s' % e)
        imm = ev.env.get('ibc.imm')
        mm = ev.env.get('ibc.memMask')
        b = mc + co
        if imm is None or mm is None:
            R.violation('interpreter shift %d' % b, where, expected='ibc.imm and ibc.memMask assigned', found='imm %s memMask %s' % (imm, mm))
            continue
        okb = imm.bit(b) == 1 and (b == 0 or imm.bit(b - 1) == 0)
        R.check(okb, 'interpreter imm bits, shift %d' % b, where, expected='bit %d = 1, bit %d = 0' % (b, b - 1), found=repr(imm)[-(b + 4):])
        R.check(mm.value() == (cm << b) & 0xffffffff and (cm << b) < (1 << 32), 'interpreter mask, shift %d' % b, where, expected=hex(cm << b), found=mm.hexpat())
    R.rule('CBR-TARGET', 'the register whose last writer is looked up is the register the branch adds to; the jump lands on last-writer + 1 (pc = target, then ++pc); '
           'the table is reset to -1 before every compilation; after the branch all 8 entries are the branch itself', min_instances=5)
    p = blk['paths'][0]
    tgt = p['fields'].get('target', {}).get('nodes', [])
    dstp = p['fields'].get('idst', {}).get('pointee')
    okt = False
    if len(tgt) == 1:
        r = strip_all(tgt[0]['r'])
        if r['k'] == 'Idx' and show(r['b']) == 'this->registerUsage':
            idx = strip_all(r['i'])
            d = p['vars'].get(idx.get('id'))
            okt = d is not None and dstp == ('R', d, 0) and d == ('dst', 8)
    R.check(okt, 'interpreter target register', where, expected='target = registerUsage[creg] with idst = &r[creg], creg = dst % 8', found='target %s idst %s' % ([show(n['r']) for n in tgt], dstp))
    R.check(p['mark_all'] == F.const('randomx::RegistersCount'), 'interpreter marks all after branch', where, expected='all 8 registers = i', found=p['mark_all'])
    # the order matters: target read before the mark-all loop
    ev_idx = {}
    for i, e in enumerate(blk['node']['t']['s']):
        if e['k'] == 'For':
            ev_idx['loop'] = i
        for x in walk(e) if isinstance(e, dict) else []:
            if x['k'] == 'Assign' and decoder.mem_of(x['l'], I.p_ibc) == 'target':
                ev_idx['target'] = i
    R.check(ev_idx.get('target', 99) < ev_idx.get('loop', -1), 'interpreter target read before mark-all', where, expected='target assigned before the loop', found=ev_idx)
    ex = F.func('randomx::BytecodeMachine::exe_CBRANCH')
    body = show(ex['body']['s'][0]) + ' ; ' + show(ex['body']['s'][1]['c']) if len(ex['body']['s']) == 2 and ex['body']['s'][1]['k'] == 'If' else None
    pcs = [x for x in walk(ex['body']) if x['k'] == 'Assign' and show(x['l']) == 'pc']
    okx = (len(ex['body']['s']) == 2 and ex['body']['s'][0]['k'] == 'CAssign' and ex['body']['s'][0]['op'] == '+=' and show(ex['body']['s'][0]['l']) == '*ibc.idst'
           and show(ex['body']['s'][0]['r']) == 'ibc.imm' and show(ex['body']['s'][1]['c']) == '((*ibc.idst & ibc.memMask) == 0)' and len(pcs) == 1 and show(pcs[0]['r']) == 'ibc.target')
    R.check(okx, 'exe_CBRANCH', '%s:%d' % (ex['file'], ex['line']), expected='*idst += imm; if ((*idst & memMask) == 0) pc = target', found=body)
    eb = F.func('randomx::BytecodeMachine::executeBytecode')
    loops = [x for x in walk(eb['body']) if x['k'] in ('For', 'While')]
    okl = False
    foundl = None
    if len(loops) == 1:
        lp = loops[0]
        call_ = [c for c in calls(lp['b']) if c.get('name') == 'executeInstruction']
        pcid = ref_id(call_[0]['a'][1]) if len(call_) == 1 and len(call_[0].get('a', [])) > 1 else None
        no_cont = not any(x['k'] == 'Continue' for x in walk(lp['b']))
        if lp['k'] == 'For':
            inc = strip_all(lp['inc']) if astq.is_node(lp.get('inc')) else None
            okl = pcid is not None and inc is not None and inc['k'] == 'Un' and '++' in inc['op'] and ref_id(inc['e']) == pcid
            foundl = 'for (...; %s)' % show(lp.get('inc'))
        else:
            st = lp['b']['s'] if lp['b']['k'] == 'Compound' else [lp['b']]
            last = strip_all(st[-1]) if st else None
            okl = pcid is not None and no_cont and last is not None and last['k'] == 'Un' and '++' in last['op'] and ref_id(last['e']) == pcid and \
                sum(1 for x in walk(lp['b']) if x['k'] in ('Un', 'Assign', 'CAssign') and ref_id(x.get('e') or x.get('l')) == pcid) == 1
            foundl = 'while (...) { ...; %s }' % (show(last) if last else '')
        # the counter starts at 0
        init0 = any(d_['id'] == pcid and val(d_.get('init')) == 0 for x in walk(eb['body']) if x['k'] == 'Decl' for d_ in x['d'])
        okl = okl and init0
    R.check(okl, 'executeBytecode resumes at target + 1', '%s:%d' % (eb['file'], eb['line']), expected='pc starts at 0 and is incremented exactly once after every executeInstruction(ibc, pc, ...)', found=foundl)
    bc = F.func('randomx::BytecodeMachine::beginCompilation')
    loops = [x for x in walk(bc['body']) if x['k'] == 'For']
    okr = False
    if len(loops) == 1:
        a = [x for x in walk(loops[0]['b']) if x['k'] == 'Assign']
        from rules.driver import loop_trip
        okr = len(a) == 1 and show(a[0]['l']).startswith('this->registerUsage[') and val(a[0]['r']) == -1 and loop_trip(loops[0]) == 8
    R.check(okr, 'beginCompilation resets the table', '%s:%d' % (bc['file'], bc['line']), expected='registerUsage[0..7] = -1', found=show(loops[0]['b']) if loops else None)
    cp = F.func('randomx::BytecodeMachine::compileProgram')
    g = astq.CFG(cp)
    beg = g.find_calls(lambda c: c.get('name') == 'beginCompilation')
    ci = g.find_calls(lambda c: c.get('name') == 'compileInstruction')
    R.check(len(beg) == 1 and len(ci) == 1 and g.dominates(beg[0][0], ci[0][0]), 'reset dominates decoding', '%s:%d' % (cp['file'], cp['line']), expected='beginCompilation dominates compileInstruction loop',
            found='%d/%d' % (len(beg), len(ci)))
    # target type can hold -1 .. program size
    tf = [x for x in F.record('randomx::InstructionByteCode')['fields'] if x.get('anon')]
    tt = None
    for x in tf:
        for a in x.get('anon_fields', []):
            if a['name'] == 'target':
                tt = a['ty']
    R.check(tt in ('short', 'int'), 'target is signed (can hold -1)', 'src/bytecode_machine.hpp', expected='signed integer', found=tt)


def rule_cfround(ctx, R, F):
    R.rule('CFR-RULE', 'exe_CFROUND: rotate right by imm (imm = imm32 & 63), mode = low 2 bits, v2 applies it only when bits 2-5 of the rotated value are zero', min_instances=3)
    f = F.func('randomx::BytecodeMachine::exe_CFROUND')
    d = [x for x in walk(f['body']) if x['k'] == 'Decl']
    ok1 = len(d) == 1 and showv(d[0]['d'][0]['init']) == 'rotr(*ibc.isrc, ibc.imm)'
    R.check(ok1, 'rotate', '%s:%d' % (f['file'], f['line']), expected='isrc = rotr(*ibc.isrc, ibc.imm)', found=showv(d[0]['d'][0]['init']) if d else None)
    v2 = F.enumerator('RANDOMX_FLAG_V2')
    # truth table over (flags & V2, x & 60): the mode is written exactly when !(v2) || (x & 60) == 0 -- whatever the shape (guarded block, early return, ...)
    xid = d[0]['d'][0]['id'] if d else None
    ps_ = decoder.paths(f['body'])
    atoms = []
    with astq.renaming({xid: 'x'} if xid else {}):
        for p_ in ps_:
            for c_, t_ in p_.conds:
                for a_ in astq.bool_atoms(c_):
                    if a_ not in atoms:
                        atoms.append(a_)
        aV2 = [a_ for a_ in atoms if (str(v2) in a_ or 'RANDOMX_FLAG_V2' in a_) and 'flags' in a_]
        aX = [a_ for a_ in atoms if a_ in ('(x & 60)',)]
        found = None
        ok2 = len(atoms) == 2 and len(aV2) == 1 and len(aX) == 1
        if ok2:
            table = {}
            for vv in (False, True):
                for xx in (False, True):
                    asg = {aV2[0]: vv, aX[0]: xx}
                    live = [p_ for p_ in ps_ if all(astq.bool_eval(c_, asg) == t_ for c_, t_ in p_.conds)]
                    sets = [c for p_ in live for e_ in p_.events if not isinstance(e_, tuple) for c in calls(e_) if c.get('name') == 'rx_set_rounding_mode']
                    table[(vv, xx)] = (len(live), len(sets), [showv(c['a'][0]) for c in sets])
            found = {('v2' if k_[0] else 'v1') + (', bits 2-5 set' if k_[1] else ', bits 2-5 clear'): ('sets the mode' if v_[1] else 'leaves it') for k_, v_ in table.items()}
            ok2 = all(v_[0] == 1 for v_ in table.values()) and all((v_[1] == 1) == ((not k_[0]) or (not k_[1])) for k_, v_ in table.items())
            args = set(a_ for v_ in table.values() for a_ in v_[2])
            ok2 = ok2 and args <= {'(x % 4)', '(x & 3)'}
        else:
            found = 'conditions over %s' % atoms
    R.check(ok2, 'v1/v2 condition', '%s:%d' % (f['file'], f['line']), expected='rx_set_rounding_mode(x % 4) exactly when !(flags & V2) || (x & 60) == 0', found=found)
    # nothing outside the if changes the mode
    outside = [c for c in calls(f['body']) if c.get('name') == 'rx_set_rounding_mode']
    R.check(len(outside) == 1, 'single mode write', '%s:%d' % (f['file'], f['line']), expected=1, found=len(outside))


def rule_fpbits(ctx, R, F):
    R.rule('FP-ABITS', 'getSmallPositiveFloatBits: sign bit 0, exponent field in [1023, 1054] for every entropy word => group A registers lie in [1, 2^32)', min_instances=2)
    f = F.func('randomx::getSmallPositiveFloatBits')
    kb = KBEval(F, {}).run_body(f)
    if kb is None:
        raise AnalysisBroken('FP-ABITS: cannot evaluate getSmallPositiveFloatBits')
    # exponent = (entropy >> 59) + 1023 : need interval, known-bits gives bits; evaluate exactly by partition over the 32 exponent values
    okall = True
    seen = set()
    pid = f['params'][0]['id']
    for e in range(32):
        ent = KB(64, zeros=(~(e << 59)) & (0x1f << 59), ones=e << 59)
        r = KBEval(F, {pid: ent}).run_body(f)
        expf = None
        if r is not None:
            lo, hi = r.umin() >> 52, r.umax() >> 52
            if lo == hi:
                expf = lo & 0x7ff
            sign = r.bit(63)
            seen.add(expf)
            if not (sign == 0 and expf is not None and 1023 <= expf <= 1054):
                okall = False
        else:
            okall = False
    R.check(okall and seen == set(range(1023, 1055)), 'A-register bit pattern', '%s:%d' % (f['file'], f['line']), expected='sign 0, exponent 1023..1054 (all 32 values of bits 59-63), any fraction',
            found='exponents %s..%s, %d distinct' % (min(x for x in seen if x is not None) if seen - {None} else None, max(x for x in seen if x is not None) if seen - {None} else None, len(seen)))
    R.check(kb.bit(63) == 0, 'A-register sign', '%s:%d' % (f['file'], f['line']), expected='bit 63 known 0', found=kb.bit(63))

    R.rule('FP-EMASK', 'getFloatMask / maskRegisterExponentMantissa: every E-group operand loaded from memory has sign 0 and exponent field 0b011xxxxxxxx in [0x300, 0x3FF] '
           '(a positive normal number: never 0, subnormal, infinity or NaN)', min_instances=3)
    g = F.func('randomx::getFloatMask')
    kb = KBEval(F, {}).run_body(g)
    if kb is None:
        raise AnalysisBroken('FP-EMASK: cannot evaluate getFloatMask')
    expo_known1 = (kb.ones >> 52) & 0x7ff
    expo_known0 = (kb.zeros >> 52) & 0x7ff
    R.check(kb.bit(63) == 0 and expo_known1 & 0x700 == 0x300 and expo_known0 & 0x700 == 0x400 and (kb.zeros >> 22) & ((1 << 30) - 1) == (1 << 30) - 1,
            'getFloatMask bit pattern', '%s:%d' % (g['file'], g['line']), expected='bit 63 = 0, exponent = 0b011????0000 (static 4 bits free), bits 22-51 = 0', found=kb.hexpat())
    # or-mask combined with and-mask: x & dynamicMantissaMask | eMask
    dm = F.const('randomx::dynamicMantissaMask')
    R.check(dm == (1 << 56) - 1, 'dynamicMantissaMask', 'src/common.hpp', expected=hex((1 << 56) - 1), found=hex(dm))
    res = (KB.top(64) & KB.const(64, dm)) | kb
    ef_lo = (res.umin() >> 52) & 0x7ff
    ef_hi = (res.umax() >> 52) & 0x7ff
    R.check(res.bit(63) == 0 and ef_lo >= 0x300 and ef_hi <= 0x3ff, 'masked E operand', 'src/bytecode_machine.hpp', expected='sign 0, exponent field within [0x300, 0x3ff]',
            found='sign %s exponent [%#x, %#x]' % (res.bit(63), ef_lo, ef_hi))
    m = F.func('randomx::BytecodeMachine::maskRegisterExponentMantissa')
    cs = [c.get('name') for c in calls(m['body'])]
    okm = cs == ['rx_set_vec_f128', '_mm_load_pd', '_mm_and_pd', '_mm_or_pd'] or cs == ['rx_set_vec_f128', 'rx_load_vec_f128', 'rx_and_vec_f128', 'rx_or_vec_f128']
    setc = [c for c in calls(m['body']) if c.get('name') == 'rx_set_vec_f128']
    okm = okm and len(setc) == 1 and [val(a) for a in setc[0]['a']] == [dm, dm]
    R.check(okm, 'maskRegisterExponentMantissa shape', '%s:%d' % (m['file'], m['line']), expected='x & (dynamicMantissaMask x2) | eMask', found=cs)
    R.rule('FP-FSCAL', 'FSCAL_R xors with 0x80F0000000000000 in both lanes (spec 5.3.4)', min_instances=1)
    fs = F.func('randomx::BytecodeMachine::exe_FSCAL_R')
    c1 = [c for c in calls(fs['body']) if c.get('name') == 'rx_set1_vec_f128']
    R.check(len(c1) == 1 and val(c1[0]['a'][0]) == 0x80F0000000000000, 'FSCAL mask', '%s:%d' % (fs['file'], fs['line']), expected=hex(0x80F0000000000000), found=hex(val(c1[0]['a'][0])) if c1 and val(c1[0]['a'][0]) is not None else None)
    R.rule('FP-CVT', 'F/E memory operands are produced only by rx_cvt_packed_int_vec_f128 (two int32 -> double, exact), so no NaN/infinity/subnormal enters from memory', min_instances=5)
    for name in ('exe_FADD_M', 'exe_FSUB_M', 'exe_FDIV_M'):
        f2 = F.func('randomx::BytecodeMachine::' + name)
        c2 = [c for c in calls(f2['body']) if c.get('name') == 'rx_cvt_packed_int_vec_f128']
        arg_ok = len(c2) == 1 and strip_all(c2[0]['a'][0]).get('name') == 'getScratchpadAddress'
        R.check(arg_ok, name + ' operand', '%s:%d' % (f2['file'], f2['line']), expected='rx_cvt_packed_int_vec_f128(getScratchpadAddress(...))', found=[show(c) for c in c2])
    for ex in F.funcs(r'^randomx::InterpretedVm<.*>::execute$'):
        c3 = [c for c in calls(ex['body']) if c.get('name') == 'rx_cvt_packed_int_vec_f128']
        m3 = [c for c in calls(ex['body']) if c.get('name') == 'maskRegisterExponentMantissa']
        R.check(len(c3) == 2 and len(m3) == 1, '%s loads f/e' % ex['q'], '%s:%d' % (ex['file'], ex['line']), expected='2 conversions, e-group masked', found='%d conversions, %d masks' % (len(c3), len(m3)))
