"""[RV-DSREAD-HSEM] the hand-written dataset read of the scalar RV64 runtime, executed on terms.

The fragment randomx_riscv64_data_read .. randomx_riscv64_data_read_light is copied verbatim into every compiled program (the generator only renames the two
source registers of its first instruction and, for RandomX v1, replaces the instruction at randomx_riscv64_data_read_v2_tweak by a nop).  Its words, as the
assembler produced them, are given their architectural meaning on a register file of terms; what they leave in the VM registers, in the packed mx / ma register
and in the dataset pointer must be the terms of specification 4.6.2 steps 5-8 with this back-end's register roles (x25 = ma:mx, x7 = pointer to the current
dataset line, x6 = dataset base, r0..r7 as regR() says).  Decided for the plain RV64GC build and for the Zba / Zbb build of the same file.
"""
import rtasm
from core import AnalysisBroken
from domains import KB, KBEval
from report import memoised
from rules import a64hsem as T
from rules import jit, rvhsem as V, x86hsem as X
from rules.a64hsem import Lin, add, atom, const, ror, scale, xor

M64 = (1 << 64) - 1


class DsMachine(V.MemMachine):
    def __init__(self, regmap, lit_reg, lit_word):
        V.Machine.__init__(self, regmap)
        self.stores = []
        self.lit_reg = lit_reg
        self.lit_word = lit_word
        self.x[lit_reg] = atom(('litpool',))

    def sext32(self, v, where):
        if v.is_const():
            return const(V.sx(v.c, 32))
        return atom(('sext32', v.canon()))

    def _srl(self, x, n):
        if n and not x.is_const() and x.c % (1 << n) == 0 and all(k % (1 << n) == 0 for k in x.t.values()):
            # (y << n) >> n: the low 64 - n bits of y
            y = Lin(x.c >> n, {a: k >> n for a, k in x.t.items()})
            return X.and_(y, const((1 << (64 - n)) - 1))
        return V.srl(x, n)

    def _sll(self, x, n):
        # (y & (2^k - 1)) << n with k + n >= 64 is y << n: the masked-off bits are shifted out anyway
        out = Lin(x.c, {})
        for a, k in x.t.items():
            rep = None
            if a[0] == 'and':
                p1, p2 = V.lin_of(a[1]), V.lin_of(a[2])
                for m_, z_ in ((p1, p2), (p2, p1)):
                    if m_.is_const() and (m_.c & (m_.c + 1)) == 0 and m_.c.bit_length() + n >= 64:
                        rep = z_
            out = add(out, scale(rep, k) if rep is not None else Lin(0, {a: k}))
        return scale(out, 1 << n)

    def step16(self, w, where):
        q, f3 = w & 3, (w >> 13) & 7
        if q == 2 and f3 == 0:                                          # c.slli
            rdf = (w >> 7) & 31
            sh = (((w >> 12) & 1) << 5) | ((w >> 2) & 31)
            self.put(rdf, self._sll(self.get(rdf), sh))
            return 'c.slli'
        if q == 1 and f3 == 4 and ((w >> 10) & 3) == 0:                 # c.srli
            rdp = 8 + ((w >> 7) & 7)
            sh = (((w >> 12) & 1) << 5) | ((w >> 2) & 31)
            self.put(rdp, self._srl(self.get(rdp), sh))
            return 'c.srli'
        return V.MemMachine.step16(self, w, where)

    def step32(self, w, where):
        opc, rd, f3, rs1, rs2, f7 = w & 0x7f, (w >> 7) & 31, (w >> 12) & 7, (w >> 15) & 31, (w >> 20) & 31, w >> 25
        if opc == 0x03 and f3 in (6, 2):                                    # lwu / lw from the literal pool
            base = self.get(rs1)
            if base == atom(('litpool',)):
                v = self.lit_word(V.sx(w >> 20, 12))
                self.put(rd, const(v if f3 == 6 else V.sx(v, 32) & M64))
                return 'lwu' if f3 == 6 else 'lw'
            raise AnalysisBroken('RV-DSREAD-HSEM: 32-bit load through x%d, which is not the literal pool pointer, at %s' % (rs1, where))
        if opc == 0x13 and f3 == 1 and (w >> 26) == 0:                      # slli
            self.put(rd, self._sll(self.get(rs1), (w >> 20) & 63))
            return 'slli'
        if opc == 0x13 and f3 == 5 and (w >> 26) == 0:                      # srli
            self.put(rd, self._srl(self.get(rs1), (w >> 20) & 63))
            return 'srli'
        if opc == 0x3b and f7 == 4 and f3 == 0:                             # add.uw (Zba); zext.w rd, rs is add.uw rd, rs, x0
            self.put(rd, add(X.and_(self.get(rs1), const(0xffffffff)), self.get(rs2)))
            return 'add.uw'
        if opc == 0x1b and f3 == 0:                                         # addiw (sext.w rd, rs is addiw rd, rs, 0)
            self.put(rd, self.sext32(add(self.get(rs1), const(V.sx(w >> 20, 12))), where))
            return 'addiw'
        if opc == 0x13 and f3 == 0 and rd == 0:
            return 'nop'
        return V.MemMachine.step32(self, w, where)


_prev_eval = T.atom_eval


def _atom_eval(a, regs):
    if a[0] == 'sext32':
        return V.sx(T.term_eval(a[1], regs), 32) & M64
    if a[0] == 'litpool':
        return 0x00007F00AB000000
    return _prev_eval(a, regs)


T.atom_eval = _atom_eval


def _regmap(ctx):
    F, hs = jit.handlers(ctx, 'rv64')
    regR = [f for f in F.in_file('jit_compiler_rv64.cpp') if f['name'] == 'regR']
    if len(regR) != 1:
        raise AnalysisBroken('RV-DSREAD-HSEM: regR not found')
    out = []
    for i in range(8):
        ev = KBEval(F, {regR[0]['params'][0]['id']: KB.const(32, i)})
        rets = []
        ev._exec(regR[0]['body'], rets)
        v = rets[0].value() if rets else None
        if v is None:
            raise AnalysisBroken('RV-DSREAD-HSEM: regR(%d) is not a constant' % i)
        out.append(v)
    return out


@memoised('RV-DSREAD-HSEM')
def rule_dsread(ctx, R):
    from rules import a64hsem as _T
    if _T.STRICT_FAMILY:
        R.note('rule_dsread skipped: RXVERIF_STRICT_FAMILY=1 (evaluation on terms switched off, see DESIGN.md 9.2)')
        return
    R.rule('RV-DSREAD-HSEM', 'the words of the hand-written dataset read of the RV64 runtime (randomx_riscv64_data_read), given their architectural meaning on a register file of terms, perform specification 4.6.2 '
           'steps 5-8 with this back-end\'s register roles: the packed register ma:mx is XORed with the zero-extended low 32 bits of readReg2 ^ readReg3 (RandomX v1) or with that value shifted into the upper half '
           '(v2 tweak), the eight VM registers are XORed with the eight words of the current dataset line, the next line pointer is dataset base + (new ma:mx & CacheLineAlignMask) and the two halves are swapped; '
           'for the RV64GC build and for the Zba / Zbb build, v1 and v2', min_instances=40)
    import astq
    FI = astq.Facts(ctx, 'K0')
    regmap = _regmap(ctx)
    vmreg = {x: i for i, x in enumerate(regmap)}
    undecided, nviol = [], 0
    for arch in ('rv64', 'rv64b'):
        o = ctx.obj(arch)
        P = rtasm.Prog(o, 'rv')
        R.saw(unit='src/jit_compiler_rv64_static.S', config='K3' + (' +zba +zbb' if arch == 'rv64b' else ''))
        lo, hi, tweak = P.sym('randomx_riscv64_data_read'), P.sym('randomx_riscv64_data_read_light'), P.sym('randomx_riscv64_data_read_v2_tweak')
        pool = o.sym('literal_pool') if o.has('literal_pool') else o.sym('randomx_riscv64_literals')
        # the literal pool pointer: the register the prologue points at literal_pool
        f0 = rtasm.Frame(P)
        f0.run(P.sym('randomx_riscv64_prologue'), stop={P.sym('randomx_riscv64_loop_begin')})
        lit = [r for r, v in f0.reg.items() if v == ('addr', pool)]
        if len(lit) != 1:
            raise AnalysisBroken('RV-DSREAD-HSEM: the register that points at the literal pool was not identified (%s)' % lit)
        lit_reg = int(lit[0][1:])
        ins = [P.ins[a] for a in P.order if lo <= a < hi]
        if not ins or ins[0].addr != lo or not (lo < tweak < hi) or tweak not in P.ins:
            raise AnalysisBroken('RV-DSREAD-HSEM: fragment boundaries not found')
        first = ins[0]
        w0 = first.raw
        if not (first.size == 4 and (w0 & 0xfe00707f) == 0x00004033):
            raise AnalysisBroken('RV-DSREAD-HSEM: the first instruction of the fragment is not `xor rd, rs1, rs2` (the generator patches its source registers)')
        ra, rb = (w0 >> 15) & 31, (w0 >> 20) & 31
        where = 'src/jit_compiler_rv64_static.S:randomx_riscv64_data_read'
        if ra not in vmreg or rb not in vmreg:
            R.violation('%s source registers' % arch, where, expected='two VM registers %s' % ['x%d' % x for x in regmap], found='x%d, x%d' % (ra, rb))
            continue
        for ver in ('v1', 'v2'):
            m = DsMachine(regmap, lit_reg, lambda off: o.u32(pool + off))
            tr = []
            for i in ins:
                if ver == 'v1' and i.addr == tweak:
                    tr.append('nop')
                    continue
                try:
                    tr.append(m.step16(i.raw, P.name_at(i.addr)) if i.size == 2 else m.step32(i.raw, P.name_at(i.addr)))
                except V.NotInteger as e:
                    raise AnalysisBroken('RV-DSREAD-HSEM: %s at %s' % (e, P.name_at(i.addr)))
            # --- what the specification asks for
            t = xor(atom(('reg', vmreg[ra])), atom(('reg', vmreg[rb])))
            mp0, ptr0, base0 = atom(('undef', 25)), atom(('undef', 7)), atom(('undef', 6))
            # which registers play these roles is read off the fragment itself: the packed register is the one rotated by 32 at the end, the pointer the base of the eight loads
            mask = FI.const('randomx::CacheLineAlignMask')
            mp1 = xor(mp0, X.and_(t, const(0xffffffff))) if ver == 'v1' else xor(mp0, scale(t, 1 << 32))
            exp = {25: ror(mp1, const(32)), 7: add(X.and_(mp1, const(mask)), base0), 6: base0, lit_reg: atom(('litpool',))}
            for k in range(8):
                exp[regmap[k]] = xor(atom(('reg', k)), X.ld64(add(ptr0, const(8 * k))))
            names = {25: 'ma:mx (x25)', 7: 'dataset line pointer (x7)', 6: 'dataset base (x6)', lit_reg: 'literal pool pointer'}
            for k in range(8):
                names[regmap[k]] = 'r%d' % k
            from rules import bitlin
            obs_mp = mask | (mask << 32)        # the halves of ma:mx are only ever used under CacheLineAlignMask: the other bits are not observable
            for reg, want in sorted(exp.items()):
                got = m.get(reg)
                inst = '%s %s %s' % (arch, ver, names[reg])
                verdict, how = bitlin.decide(got, want, obs_mp if reg == 25 else bitlin.ALL)
                if verdict == 'eq':
                    R.ok(inst, where)
                    continue
                if verdict == 'unknown':
                    undecided.append('%s is %s, the specification says %s; the two terms agree on every test valuation, equivalence undecided' % (inst, T.term_show(got, None), T.term_show(want, None)))
                    continue
                nviol += 1
                R.violation(inst, where, expected=T.term_show(want, None), found='%s after `%s`; %s' % (T.term_show(got, None), ' ; '.join(tr), how))
            if m.stores:
                R.violation('%s %s stores' % (arch, ver), where, expected='no store', found='%d stores' % len(m.stores))
            else:
                R.ok('%s %s stores nothing' % (arch, ver), where)
    if undecided and not nviol:
        raise AnalysisBroken('RV-DSREAD-HSEM: ' + undecided[0])
    for u in undecided:
        R.note('RV-DSREAD-HSEM: ' + u)


# ---------------------------------------------------------------------------------------------------------------------------
# [RV-LOOPLOAD] the load half of the RV64 loop
class LoopMachine(DsMachine):
    """adds: f registers holding terms, 32-bit sign-extending loads, int -> double conversion and raw moves between the two register files"""

    def __init__(self, regmap, lit_reg, lit_word):
        DsMachine.__init__(self, regmap, lit_reg, lit_word)
        self.f = {}

    def fget(self, n):
        return self.f.get(n, atom(('fundef', n)))

    def step32(self, w, where):
        opc, rd, f3, rs1, rs2, f7 = w & 0x7f, (w >> 7) & 31, (w >> 12) & 7, (w >> 15) & 31, (w >> 20) & 31, w >> 25
        if opc == 0x03 and f3 == 2 and self.get(rs1) != atom(('litpool',)):          # lw
            self.put(rd, atom(('ld32s', add(self.get(rs1), const(V.sx(w >> 20, 12))).canon())))
            return 'lw'
        if opc == 0x53:
            if f7 == 0x69 and rs2 == 0:                                                # fcvt.d.w
                self.f[rd] = atom(('cvtw', self.get(rs1).canon()))
                return 'fcvt.d.w'
            if f7 == 0x71 and rs2 == 0 and f3 == 0:                                    # fmv.x.d
                self.put(rd, self.fget(rs1))
                return 'fmv.x.d'
            if f7 == 0x79 and rs2 == 0 and f3 == 0:                                    # fmv.d.x
                self.f[rd] = self.get(rs1)
                return 'fmv.d.x'
        if opc == 0x33 and f7 == 0 and f3 == 6:
            self.put(rd, T.orr(self.get(rs1), self.get(rs2)))
            return 'or'
        return DsMachine.step32(self, w, where)

    def step16(self, w, where):
        q, f3 = w & 3, (w >> 13) & 7
        if q == 0 and f3 == 2:                                                         # c.lw
            r1, r2 = 8 + ((w >> 7) & 7), 8 + ((w >> 2) & 7)
            off = (((w >> 10) & 7) << 3) | (((w >> 6) & 1) << 2) | (((w >> 5) & 1) << 6)
            self.put(r2, atom(('ld32s', add(self.get(r1), const(off)).canon())))
            return 'c.lw'
        if q == 1 and f3 == 4 and ((w >> 10) & 3) == 3 and not (w >> 12) & 1 and ((w >> 5) & 3) == 2:      # c.or
            rdp, rs2p = 8 + ((w >> 7) & 7), 8 + ((w >> 2) & 7)
            self.put(rdp, T.orr(self.get(rdp), self.get(rs2p)))
            return 'c.or'
        return DsMachine.step16(self, w, where)


_prev_eval2 = T.atom_eval


def _atom_eval2(a, regs):
    if a[0] == 'ld32s':
        x = T.term_eval(a[1], regs)
        return V.sx((x * 0x9E3779B1 + 0x7F4A7C15) & 0xffffffff, 32) & M64
    if a[0] == 'cvtw':
        x = T.term_eval(a[1], regs)
        return (x * 0xD6E8FEB86659FD93 + 0x1234567) & M64          # an arbitrary injective-looking function of the operand
    if a[0] == 'fundef':
        return 0x3FF0000000000000 ^ (a[1] * 0x0101010101010101)
    return _prev_eval2(a, regs)


T.atom_eval = _atom_eval2


@memoised('RV-LOOPLOAD')
def rule_loopload(ctx, R):
    from rules import a64hsem as _T
    if _T.STRICT_FAMILY:
        R.note('rule_loopload skipped: RXVERIF_STRICT_FAMILY=1 (evaluation on terms switched off, see DESIGN.md 9.2)')
        return
    R.rule('RV-LOOPLOAD', 'the load half of the RV64 loop (randomx_riscv64_loop_begin), executed on terms, performs specification 4.6.2 steps 2-3: r_j ^= the j-th quadword at the first scratchpad address, '
           'f lane k = convert(sign-extended 32-bit integer at the second address + 4k) for k = 0..7, e lane k = (convert(integer at + 32 + 4k) & dynamic mask) | E mask of its lane parity; '
           'for the RV64GC build and for the Zba / Zbb build', min_instances=40)
    regmap = _regmap(ctx)
    for arch in ('rv64', 'rv64b'):
        o = ctx.obj(arch)
        P = rtasm.Prog(o, 'rv')
        R.saw(unit='src/jit_compiler_rv64_static.S', config='K3' + (' +zba +zbb' if arch == 'rv64b' else ''))
        lo, hi = P.sym('randomx_riscv64_loop_begin'), P.sym('randomx_riscv64_data_read')
        pool = o.sym('literal_pool') if o.has('literal_pool') else o.sym('randomx_riscv64_literals')
        f0 = rtasm.Frame(P)
        f0.run(P.sym('randomx_riscv64_prologue'), stop={lo})
        lit = [r for r, v in f0.reg.items() if v == ('addr', pool)]
        if len(lit) != 1:
            raise AnalysisBroken('RV-LOOPLOAD: the literal pool pointer was not identified')
        lit_reg = int(lit[0][1:])
        ins = [P.ins[a] for a in P.order if lo <= a < hi]
        where = 'src/jit_compiler_rv64_static.S:randomx_riscv64_loop_begin'
        m = LoopMachine(regmap, lit_reg, lambda off: o.u32(pool + off))
        tr = []
        for i in ins:
            try:
                tr.append(m.step16(i.raw, P.name_at(i.addr)) if i.size == 2 else m.step32(i.raw, P.name_at(i.addr)))
            except V.NotInteger as e:
                raise AnalysisBroken('RV-LOOPLOAD: %s at %s' % (e, P.name_at(i.addr)))
        # the roles of the address and mask registers are read off the fragment: base of the 64-bit loads, base of the 32-bit loads
        bases64 = {(i.raw >> 15) & 31 for i in ins if i.size == 4 and (i.raw & 0x707f) == 0x3003 and ((i.raw >> 15) & 31) != lit_reg}
        bases32 = {(i.raw >> 15) & 31 for i in ins if i.size == 4 and (i.raw & 0x707f) == 0x2003 and ((i.raw >> 15) & 31) != lit_reg}
        if len(bases64) != 1 or len(bases32) != 1 or bases64 == bases32:
            R.violation('%s address registers' % arch, where, expected='one base register for the eight 64-bit loads, another one for the sixteen 32-bit loads', found='%s / %s' % (sorted(bases64), sorted(bases32)))
            continue
        b0, b1 = atom(('undef', list(bases64)[0])), atom(('undef', list(bases32)[0]))
        checks = []
        for j in range(8):
            checks.append(('%s r%d' % (arch, j), m.get(regmap[j]), xor(atom(('reg', j)), X.ld64(add(b0, const(8 * j))))))
        for k in range(8):
            checks.append(('%s f lane %d (f%d)' % (arch, k, k), m.fget(k), atom(('cvtw', atom(('ld32s', add(b1, const(4 * k)).canon())).canon()))))
        # the e lanes: which registers hold the masks is taken from the first e lane, the others must use the same and-mask and the mask of their parity
        e0 = m.fget(8)
        for k in range(8):
            cv = atom(('cvtw', atom(('ld32s', add(b1, const(32 + 4 * k)).canon())).canon()))
            got = m.fget(8 + k)
            at = V.single_atom(got)
            ok = False
            desc = T.term_show(got, None)
            if at is not None and at[0] == 'or':
                parts = [V.lin_of(at[1]), V.lin_of(at[2])]
                for a_, b_ in (parts, parts[::-1]):
                    aa = V.single_atom(a_)
                    if aa is not None and aa[0] == 'and' and cv in (V.lin_of(aa[1]), V.lin_of(aa[2])):
                        andm = V.lin_of(aa[2]) if V.lin_of(aa[1]) == cv else V.lin_of(aa[1])
                        orm = b_
                        m.__dict__.setdefault('_masks', {})[k] = (andm, orm)
                        ok = True
            if not ok:
                R.violation('%s e lane %d (f%d)' % (arch, k, 8 + k), where, expected='(convert(integer at second address + %d) & mask) | E mask' % (32 + 4 * k), found=desc)
                continue
            R.ok('%s e lane %d (f%d)' % (arch, k, 8 + k), where)
        masks = m.__dict__.get('_masks', {})
        if len(masks) == 8:
            ands = {masks[k][0] for k in range(8)}
            ev_, od_ = {masks[k][1] for k in range(0, 8, 2)}, {masks[k][1] for k in range(1, 8, 2)}
            R.check(len(ands) == 1 and len(ev_) == 1 and len(od_) == 1 and ev_ != od_ and all(V.single_atom(x) is not None and V.single_atom(x)[0] == 'undef' for x in ands | ev_ | od_), '%s e masks' % arch, where,
                    expected='one and-mask register for all lanes, one or-mask register for the even and another for the odd lanes', found='and: %s, or even: %s, or odd: %s' % (
                        [T.term_show(x, None) for x in ands], [T.term_show(x, None) for x in ev_], [T.term_show(x, None) for x in od_]))
        for inst, got, want in checks:
            if got == want:
                R.ok(inst, where)
                continue
            differs = None
            for vals in T.VALUATIONS:
                if T.term_eval(got.canon(), vals) != T.term_eval(want.canon(), vals):
                    differs = vals
                    break
            if differs is None:
                raise AnalysisBroken('RV-LOOPLOAD: %s is %s, expected %s; undecided' % (inst, T.term_show(got, None), T.term_show(want, None)))
            R.violation(inst, where, expected=T.term_show(want, None), found=T.term_show(got, None))


@memoised('RV-DSREAD-LIGHT')
def rule_dsread_light(ctx, R):
    from rules import a64hsem as _T
    if _T.STRICT_FAMILY:
        R.note('rule_dsread_light skipped: RXVERIF_STRICT_FAMILY=1 (evaluation on terms switched off, see DESIGN.md 9.2)')
        return
    R.rule('RV-DSREAD-LIGHT', 'the light-mode dataset read of the RV64 runtime up to its call of the SuperscalarHash routine (randomx_riscv64_data_read_light followed by the v1 or the v2 piece, as the generator assembles it), '
           'executed on terms: ma:mx swapped and XORed with readReg2 ^ readReg3 on the observable bits, item number = (old ma & CacheLineAlignMask) / 64 + the offset constant of the template (RV-DSOFF decides the constant), '
           'VM registers untouched; both ISA variants', min_instances=30)
    import astq
    from rules import bitlin
    FI = astq.Facts(ctx, 'K0')
    mask = FI.const('randomx::CacheLineAlignMask')
    regmap = _regmap(ctx)
    vmreg = {x: i for i, x in enumerate(regmap)}
    undecided, nviol = [], 0
    for arch in ('rv64', 'rv64b'):
        o = ctx.obj(arch)
        P = rtasm.Prog(o, 'rv')
        R.saw(unit='src/jit_compiler_rv64_static.S', config='K3' + (' +zba +zbb' if arch == 'rv64b' else ''))
        s0, s1, s2, s3 = (P.sym(n) for n in ('randomx_riscv64_data_read_light', 'randomx_riscv64_data_read_light_v1', 'randomx_riscv64_data_read_light_v2', 'randomx_riscv64_fix_loop_call'))
        pool = o.sym('literal_pool') if o.has('literal_pool') else o.sym('randomx_riscv64_literals')
        f0 = rtasm.Frame(P)
        f0.run(P.sym('randomx_riscv64_prologue'), stop={P.sym('randomx_riscv64_loop_begin')})
        lit = [r for r, v in f0.reg.items() if v == ('addr', pool)]
        if len(lit) != 1:
            raise AnalysisBroken('RV-DSREAD-LIGHT: the literal pool pointer was not identified')
        lit_reg = int(lit[0][1:])
        where = 'src/jit_compiler_rv64_static.S:randomx_riscv64_data_read_light'
        head = [P.ins[a] for a in P.order if s0 <= a < s1]
        w0 = head[0].raw
        if not (head[0].size == 4 and (w0 & 0xfe00707f) == 0x00004033):
            raise AnalysisBroken('RV-DSREAD-LIGHT: the first instruction of the fragment is not `xor rd, rs1, rs2`')
        ra, rb = (w0 >> 15) & 31, (w0 >> 20) & 31
        if ra not in vmreg or rb not in vmreg:
            R.violation('%s source registers' % arch, where, expected='two VM registers', found='x%d, x%d' % (ra, rb))
            continue
        for ver, lo_, hi_ in (('v1', s1, s2), ('v2', s2, s3)):
            m = DsMachine(regmap, lit_reg, lambda off: o.u32(pool + off))
            tr = []
            for i in head + [P.ins[a] for a in P.order if lo_ <= a < hi_]:
                try:
                    tr.append(m.step16(i.raw, P.name_at(i.addr)) if i.size == 2 else m.step32(i.raw, P.name_at(i.addr)))
                except V.NotInteger as e:
                    raise AnalysisBroken('RV-DSREAD-LIGHT: %s at %s' % (e, P.name_at(i.addr)))
            t = xor(atom(('reg', vmreg[ra])), atom(('reg', vmreg[rb])))
            mp0 = atom(('undef', 25))
            want_mp = xor(ror(mp0, const(32)), X.and_(t, const(0xffffffff))) if ver == 'v2' else ror(xor(mp0, X.and_(t, const(0xffffffff))), const(32))
            offc = m.get(9)
            checks = [('%s %s ma:mx (x25)' % (arch, ver), m.get(25), want_mp, mask | (mask << 32))]
            if not offc.is_const():
                R.violation('%s %s offset constant (x9)' % (arch, ver), where, expected='a constant built by lui / addi', found=T.term_show(offc, None))
            else:
                checks.append(('%s %s item number (x7)' % (arch, ver), m.get(7), add(V.srl(X.and_(ror(mp0, const(32)), const(mask)), 6), offc), bitlin.ALL))
            for k in range(8):
                checks.append(('%s %s r%d untouched' % (arch, ver, k), m.get(regmap[k]), atom(('reg', k)), bitlin.ALL))
            for inst, got, want, obs in checks:
                verdict, how = bitlin.decide(got, want, obs)
                if verdict == 'eq':
                    R.ok(inst, where)
                elif verdict == 'unknown':
                    undecided.append('%s is %s, expected %s; undecided' % (inst, T.term_show(got, None), T.term_show(want, None)))
                else:
                    nviol += 1
                    R.violation(inst, where, expected=T.term_show(want, None), found='%s after `%s`; %s' % (T.term_show(got, None), ' ; '.join(tr), how))
    if undecided and not nviol:
        raise AnalysisBroken('RV-DSREAD-LIGHT: ' + undecided[0])
    for u in undecided:
        R.note('RV-DSREAD-LIGHT: ' + u)


@memoised('RV-DSITEM-HSEM')
def rule_dsitem(ctx, R):
    from rules import a64hsem as _T
    if _T.STRICT_FAMILY:
        R.note('rule_dsitem skipped: RXVERIF_STRICT_FAMILY=1 (evaluation on terms switched off, see DESIGN.md 9.2)')
        return
    R.rule('RV-DSITEM-HSEM', 'the hand-written pieces of the RV64 SuperscalarHash routine, executed on terms, are the steps of specification 7.3: r0 = (item + 1) * superscalarMul0, r_i = r0 ^ superscalarAdd_i with the constants of the '
           'literal pool, first cache line = cache memory + (item & (CacheSize / 64 - 1)) * 64; r_i ^= the i-th word of the line; next line = cache memory + (register & mask) * 64; both ISA variants', min_instances=36)
    import astq
    from rules import bitlin
    FI = astq.Facts(ctx, 'K0')
    mul0 = FI.const('randomx::superscalarMul0')
    adds = [FI.const('randomx::superscalarAdd%d' % i) for i in range(1, 8)]
    cmask = FI.const('randomx::CacheSize') // 64 - 1

    class M(DsMachine):
        def step32(self, w, where):
            opc, rd, f3, rs1 = w & 0x7f, (w >> 7) & 31, (w >> 12) & 7, (w >> 15) & 31
            if opc == 0x03 and f3 == 3 and self.get(rs1) == atom(('litpool',)):
                off = V.sx(w >> 20, 12)
                self.put(rd, const(self.lit_word(off) | (self.lit_word(off + 4) << 32)))
                return 'ld='
            if opc == 0x17:
                self.put(rd, atom(('undef', 1000 + rd)))
                return 'auipc'
            return DsMachine.step32(self, w, where)
    for arch in ('rv64', 'rv64b'):
        o = ctx.obj(arch)
        P = rtasm.Prog(o, 'rv')
        R.saw(unit='src/jit_compiler_rv64_static.S', config='K3' + (' +zba +zbb' if arch == 'rv64b' else ''))
        s_i, s_l, s_p, s_e = (P.sym('randomx_riscv64_ssh_' + x) for x in ('init', 'load', 'prefetch', 'end'))
        pool = o.sym('literal_pool') if o.has('literal_pool') else o.sym('randomx_riscv64_literals')
        f0 = rtasm.Frame(P)
        f0.run(P.sym('randomx_riscv64_data_init'), stop={P.sym('randomx_riscv64_fix_data_call')})
        lit = [r for r, v in f0.reg.items() if v == ('addr', pool)]
        if len(lit) != 1:
            raise AnalysisBroken('RV-DSITEM-HSEM: the literal pool pointer of the dataset-init entry was not identified')
        lit_reg = int(lit[0][1:])
        where = 'src/jit_compiler_rv64_static.S:randomx_riscv64_ssh_init'

        def run(m, lo, hi):
            tr = []
            for a in P.order:
                if lo <= a < hi:
                    i = P.ins[a]
                    try:
                        tr.append(m.step16(i.raw, P.name_at(a)) if i.size == 2 else m.step32(i.raw, P.name_at(a)))
                    except V.NotInteger as e:
                        raise AnalysisBroken('RV-DSITEM-HSEM: %s at %s' % (e, P.name_at(a)))
            return tr

        def report(inst, got, want, tr):
            verdict, how = bitlin.decide(got, want)
            if verdict == 'eq':
                R.ok(inst, where)
            elif verdict == 'unknown':
                raise AnalysisBroken('RV-DSITEM-HSEM: %s is %s, expected %s; undecided' % (inst, T.term_show(got, None), T.term_show(want, None)))
            else:
                R.violation(inst, where, expected=T.term_show(want, None), found='%s after `%s`; %s' % (T.term_show(got, None), ' ; '.join(tr), how))
        # the eight result registers: the ones the dataset-init entry stores after the call, in order
        st = [P.ins[a] for a in P.order if P.sym('randomx_riscv64_fix_data_call') < a < P.sym('randomx_riscv64_prologue') and P.ins[a].kind == 'store' and 'sp' not in P.ins[a].ops[-1] and '(x2)' not in P.ins[a].ops[-1]]
        res = []
        for i in st[:8]:
            mo = rtasm.re.match(r'^(-?\d+)\((\w+)\)$', i.ops[1].strip())
            res.append((int(mo.group(1)) if mo else None, int(rtasm.rv_reg(i.ops[0])[1:])))
        if [x for x, _ in res] != [8 * k for k in range(8)] or len({r for _, r in res}) != 8:
            R.violation('%s result registers' % arch, 'src/jit_compiler_rv64_static.S:randomx_riscv64_fix_data_call', expected='eight different registers stored at output + 8k', found=res)
            continue
        rr = [r for _, r in res]
        item_reg, cache_reg = 7, 6
        # (a) initialisation
        m = M([], lit_reg, lambda off: o.u32(pool + off))
        m.x = {0: const(0), lit_reg: atom(('litpool',))}
        tr = run(m, s_i, s_l)
        item, cache = atom(('undef', item_reg)), atom(('undef', cache_reg))
        r0 = T.scale(add(item, const(1)), mul0)
        report('%s r0 = (item + 1) * superscalarMul0' % arch, m.get(rr[0]), r0, tr)
        for k in range(1, 8):
            report('%s r%d = r0 ^ superscalarAdd%d' % (arch, k, k), m.get(rr[k]), xor(r0, const(adds[k - 1])), tr)
        # which register holds the line pointer: the base of the loads of the mixing piece
        bases = {(P.ins[a].raw >> 15) & 31 for a in P.order if s_l <= a < s_p and P.ins[a].size == 4 and (P.ins[a].raw & 0x707f) == 0x3003}
        cb = {8 + ((P.ins[a].raw >> 7) & 7) for a in P.order if s_l <= a < s_p and P.ins[a].size == 2 and (P.ins[a].raw & 0xe003) == 0x6000}
        bases |= cb
        if len(bases) != 1:
            R.violation('%s line pointer register' % arch, where, expected='one base register for the eight loads of the line', found=sorted(bases))
            continue
        lp = list(bases)[0]
        report('%s first cache line (x%d)' % (arch, lp), m.get(lp), add(cache, T.scale(X.and_(item, const(cmask)), 64)), tr)
        # (b) mixing in the line
        m = M(rr, lit_reg, lambda off: o.u32(pool + off))
        m.x[lp] = atom(('undef', 103))
        tr = run(m, s_l, s_p)
        for k in range(8):
            report('%s r%d ^= word %d of the line' % (arch, k, k), m.get(rr[k]), xor(atom(('reg', k)), X.ld64(add(atom(('undef', 103)), const(8 * k)))), tr)
        # (c) next line: the piece reads the mask the mixing piece left in the line-pointer register
        maskv = m.get(lp)
        R.check(maskv == const(cmask), '%s line mask' % arch, where, expected='%#x (CacheSize / 64 - 1)' % cmask, found=T.term_show(maskv, None))
        w0 = P.ins[s_p].raw
        if P.ins[s_p].size != 4 or (w0 & 0xfe00707f) != 0x00007033:
            raise AnalysisBroken('RV-DSITEM-HSEM: the first instruction of the prefetch piece is not `and rd, rs1, rs2` (the generator patches rs1)')
        src = (w0 >> 15) & 31
        m2 = M(rr, lit_reg, lambda off: o.u32(pool + off))
        m2.x[lp] = maskv
        tr = run(m2, s_p, s_e)
        if src not in rr:
            R.violation('%s next line: source register' % arch, where, expected='one of the eight result registers (patched by the generator)', found='x%d' % src)
        else:
            report('%s next line (x%d)' % (arch, lp), m2.get(lp), add(cache, T.scale(X.and_(atom(('reg', rr.index(src))), const(cmask)), 64)), tr)
