"""C14 Concurrent hashing and dataset initialisation over shared data are race-free.

Claimed (static) clauses, see DESIGN.md section 4 / C14:
  RACE-GLOBALS  no write to a non-thread-local global outside static initialisation
  RACE-SHARED   no write through a pointer derived from a shared cache / dataset object on the
                per-thread call graphs (hash, VM lifecycle, set_cache); dataset-init writes only
                through the `dataset` output parameter
  RACE-RANGE    (shared with C08) init_dataset stays inside the caller's item range
  RACE-ASM      the hand-written dataset initialiser is re-entrant (registers + stack only)
  RACE-OWNBUF   every compiled VM owns its code buffer by value; no JitCompiler has static storage
"""
import re

import irq
from core import AnalysisBroken
from rules import common

LEVEL = 'other'
TECHNIQUE = 'whole-library LLVM-IR effect analysis (global-store and pointer-derivation rules) + interval reasoning + object-code scan'
CLAIM = ('Decides statically, on every run, the structural necessary conditions of race freedom: no write to non-thread-local global state outside '
         'static initialisation anywhere in the library (every function, every template instantiation, including paths no test executes), '
         'no write through cache/dataset-derived pointers on the per-thread call graphs, dataset-init ranges confined to the request. '
         'It does not observe schedules; a violation of these conditions is a race for some schedule, their absence is the design argument the code relies on.'
         ' DS-RANGE-EVAL decides the confinement of dataset-init writes on the evaluated slice when the affine proof does not apply to a restructured function.')
LEVEL_NOTE = ('Trusted: clang 14 lowering of the real build flags; type-based resolution of indirect calls; JIT-emitted code and hand-written '
              'assembly only read shared data (constants cross-checked, effects not analysed); libc/libstdc++ internals.')
EXPLANATION = ('Whole-library LLVM-IR effect analysis (every function of every unit of the host build, all template instantiations) '
               'for writes to process-global state and for writes through pointers derived from the shared cache/dataset objects, '
               'plus interval reasoning on the item ranges of randomx_init_dataset and a scan of the assembled dataset-init routine. '
               'Decides the structural necessary conditions of race freedom; it does not observe executions, and it trusts that '
               'JIT-emitted code and libc only read the shared data.'
               ' DS-RANGE-EVAL.')


def is_init_fn(name):
    return name.startswith('__cxx_global_var_init') or name.startswith('_GLOBAL__sub_I_')


def rule_globals(ctx, R):
    R.rule('RACE-GLOBALS', 'every store / atomic / memory-intrinsic / writing external call whose address derives from a global that is '
           'neither constant nor thread_local must be inside static initialisation (or the guarded one-time initialisation of a '
           'function-local static); also the address of such a global must not be passed to a callee that writes through that parameter', min_instances=50)
    M = irq.Module(ctx.ir())
    R.saw(config='K0')
    wp = M.writes_param()
    nfun = 0
    mutable = {g['name']: g for g in M.m['globals'] if not g['constant'] and not g['tls']}
    for f in M.defined():
        nfun += 1
        R.saw(fn=f['name'])
        init = is_init_fn(f['name'])
        guards = set()
        for i in M.insts(f):
            if i.get('callee') == '__cxa_guard_acquire':
                for r in M.roots(f, i['ops'][0]):
                    if r[0] == 'g':
                        guards.add(r[1])
        sites = []
        for i, addr, kind in M.write_sites(f):
            sites.append((i, addr, kind))
        # escapes: pointer derived from a global passed to a writing parameter
        for i, names, kind in M.callees(f):
            for c in names:
                s = wp.get(c)
                cf = M.fn.get(c)
                if cf is not None and cf['defined']:
                    idxs = s or set()
                elif s is None:
                    idxs = set()
                    if cf is not None:
                        for idx, a in enumerate(cf['args']):
                            if a['ty'].endswith('*') and not a.get('readonly') and not common.mangled_param_is_const(c, idx, cf):
                                idxs.add(idx)
                else:
                    continue  # known external writers are already in write_sites
                for idx in idxs:
                    if idx < len(i['ops']):
                        sites.append((i, i['ops'][idx], 'escape:' + (cf['dem'] if cf else c)))
        for i, addr, kind in sites:
            for (r, depth) in M.deep_roots(f, addr):
                if r[0] != 'g':
                    continue
                g = M.glob.get(r[1])
                if g is None:
                    continue
                if g['tls']:
                    continue
                if g['constant'] and depth == 0:
                    # a store to a constant global cannot be expressed in C++ without UB; ignore
                    continue
                if g['name'].startswith('_ZGV') or g['name'] == 'llvm.global_ctors':
                    continue
                what = '%s (%s%s) written in %s [%s]' % (g['dem'], 'through pointer loaded from it, ' if depth else '', 'depth %d' % depth, f['dem'], kind)
                inst = '%s <- %s' % (g['dem'], f['dem'])
                if init:
                    R.ok(inst, i.get('loc', f.get('file', '?')), detail='static initialisation')
                    continue
                # guarded initialisation of a function-local static
                gv = '_ZGV' + g['name'][2:] if g['name'].startswith('_Z') else None
                if gv and gv in guards:
                    R.ok(inst, i.get('loc', '?'), detail='guarded one-time initialisation of a function-local static')
                    continue
                if depth > 0 and g['constant']:
                    # pointer read from a constant table: the pointee is what matters; handled when the pointee is itself a mutable global
                    continue
                R.violation(inst, i.get('loc', '?'), expected='no write to shared mutable global outside static initialisation', found=what)
    if nfun < 800:
        raise AnalysisBroken('IR module has only %d defined functions (expected > 800): build of the fact base incomplete' % nfun)
    R.extra['ir_functions'] = nfun
    R.extra['mutable_globals'] = len(mutable)


GROUPS = {
    'hash': ['randomx_calculate_hash', 'randomx_calculate_hash_first', 'randomx_calculate_hash_next', 'randomx_calculate_hash_last'],
    'vm-lifecycle': ['randomx_create_vm', 'randomx_destroy_vm', 'randomx_vm_set_cache', 'randomx_vm_set_dataset'],
    'dataset-init': ['randomx_init_dataset'],
}


def rule_shared(ctx, R):
    import taint
    R.rule('RACE-SHARED', 'on the call graphs of the per-thread operations (hashing, VM create/destroy/re-bind, dataset initialisation; virtual and function-pointer calls resolved by type) no store, '
           'memory intrinsic or writing external call has an address derived from a randomx_cache object, and none derived from a randomx_dataset object except the two range-confined '
           'writes of dataset initialisation', min_instances=6)
    M = irq.Module(ctx.ir())
    for gname, entries in GROUPS.items():
        T = taint.Taint(M, entries)
        sinks = T.sinks()
        ntainted = sum(1 for k, v in T.val.items() if v)
        R.extra.setdefault('taint_groups', {})[gname] = dict(functions=len(T.reach), derived_values=ntainted, rounds=T.rounds, sinks=len(sinks))
        if ntainted < 20:
            raise AnalysisBroken('RACE-SHARED: group %s has only %d derived values: source typing failed' % (gname, ntainted))
        nsites = sum(len(M.write_sites(M.fn[n])) for n in T.reach if M.fn[n]['defined'])
        R.ok('%s: %d write sites in %d reachable functions examined' % (gname, nsites, len(T.reach)), 'call graph', detail='%d values derived from cache/dataset objects, %d derived writes' % (ntainted, len(sinks)))
        if nsites < 50 and gname != 'dataset-init':
            raise AnalysisBroken('RACE-SHARED: group %s has only %d write sites' % (gname, nsites))
        allowed = 0
        for f, i, kind, tags, desc in sinks:
            inst = '%s: %s in %s' % (gname, kind, f['dem'][:100])
            if gname == 'dataset-init' and tags == {'dataset'} and (f['name'] == 'randomx_init_dataset' or f['dem'].startswith('randomx::initDatasetItem(') or f['dem'].startswith('randomx::initDataset(')):
                allowed += 1
                R.ok(inst, i.get('loc', '?'), detail='write of the caller\'s own dataset items (range confined by RACE-RANGE)')
                continue
            R.violation(inst, i.get('loc', '?'), expected='no write through a pointer derived from shared %s' % '/'.join(sorted(tags)), found=desc)
        if gname == 'dataset-init':
            # positive control: the analysis must see the two legitimate dataset writes
            R.check(allowed >= 2, 'dataset-init: derivation tracking sees the item writes', 'src/randomx.cpp', expected='>= 2 dataset-derived writes (memcpy in randomx_init_dataset, memcpy in initDatasetItem)', found=allowed)
            # the indirect datasetInit call passes a dataset-derived destination
            f = M.fn['randomx_init_dataset']
            n_ic = 0
            for i in M.insts(f):
                if i['op'] in ('call', 'invoke') and 'icallee' in i and len(i['ops']) == 4:
                    n_ic += 1
            R.check(n_ic >= 3, 'dataset-init: indirect datasetInit calls', 'src/randomx.cpp', expected='>= 3', found=n_ic)
        else:
            # positive control: the cache binding is tracked through the VM object (field-based)
            probe = [f for f in M.defined() if re.match(r'^randomx::InterpretedLightVm<.*>::datasetRead\(', f['dem'])]
            okp = 0
            for f in probe:
                if f['name'] not in T.reach:
                    continue
                for i in M.insts(f):
                    if i.get('callee') and 'initDatasetItem' in i['callee'] and T.tags_of(f['name'], i['ops'][0]):
                        okp += 1
            if gname == 'hash':
                R.check(okp >= 4, 'hash: cache pointer tracked into InterpretedLightVm::datasetRead', 'src/vm_interpreted_light.cpp', expected='initDatasetItem(cachePtr, ..) argument is cache-derived in 4 instantiations', found=okp)
    R.saw(config='K0')


def rule_asm(ctx, R):
    R.rule('RACE-ASM', 'the hand-written dataset initialiser (randomx_dataset_init .. ret) writes memory only through the output pointer (rsi) and the stack; no RIP-relative or absolute store; '
           'so concurrent calls on disjoint ranges share no writable state', min_instances=8)
    o = ctx.obj('x86')
    ins = o.between('randomx_dataset_init', 'randomx_program_epilogue')
    seen_ret = False
    n = 0
    for off, mn, ops, raw in ins:
        if seen_ret:
            break
        if mn == 'ret':
            seen_ret = True
            continue
        dst = ops.split(',')[0].strip() if ops else ''
        writes_mem = '[' in dst and mn not in ('cmp', 'test', 'prefetchw', 'prefetcht0', 'prefetchnta', 'lea', 'call', 'jmp', 'push')
        if mn == 'prefetchw':
            n += 1
            R.ok('%s %s' % (mn, ops), 'src/jit_compiler_x86_static.S+%#x' % off, detail='prefetch hint, no architectural write')
            continue
        if writes_mem:
            n += 1
            m = re.search(r'\[(\w+)', dst)
            base = m.group(1) if m else '?'
            R.check(base in ('rsi', 'rsp'), '%s %s' % (mn, ops), 'src/jit_compiler_x86_static.S+%#x' % off, expected='store based on rsi (output) or rsp (stack)', found=base)
    R.check(seen_ret and n >= 8, 'dataset_init body scanned', 'src/jit_compiler_x86_static.S', expected='8 item stores + ret', found='%d memory writes, ret %s' % (n, seen_ret))


def rule_ownbuf(ctx, R):
    import astq
    R.rule('RACE-OWNBUF', 'every compiled VM owns its JitCompiler (and code buffer) by value; no JitCompiler / VM object has static storage; the cache-owned compiler is only written by initCacheCompile', min_instances=3)
    F = astq.Facts(ctx, 'K0')
    owners = [r for r in F.records(r'^randomx::CompiledVm<') if any(re.search(r'JitCompiler\w*$', fl['ty']) for fl in r['fields'])]
    R.check(len(owners) == 8, 'CompiledVm instantiations hold the compiler by value', 'src/vm_compiled.hpp', expected=8, found=len(owners))
    M = irq.Module(ctx.ir())
    bad = [g['dem'] for g in M.m['globals'] if re.search(r'JitCompiler|randomx_vm|class\.randomx::.*Vm', g['ty']) and not g['name'].startswith('_ZT')]
    R.check(not bad, 'no global compiler / VM object', 'whole library', expected='none', found=bad or 'none')
    # cache->jit->generate* only under initCacheCompile
    gens = []
    for f in F.all_funcs():
        if not f.get('body'):
            continue
        for c in astq.calls(f['body']):
            if re.match(r'^generate(SuperscalarHash|DatasetInitCode|Program)', c.get('name', '')) and '->jit' in astq.show(c.get('this')):
                gens.append(f['q'])
    R.check(set(gens) == {'randomx::initCacheCompile'}, 'cache-owned compiler is written only during cache initialisation', 'src/dataset.cpp', expected=['randomx::initCacheCompile'], found=sorted(set(gens)))

EXPLANATION += ' RACE-GLOBALS-AST (K1, K2, K3).'
CLAIM += (' The same holds in the configurations the host build does not compile (portable fallback, AArch64, RISC-V): no function writes a configuration-specific file-scope or function-local static that is neither constant nor thread_local (RACE-GLOBALS-AST on the resolved ASTs).')


def run(ctx, R):
    import astq
    from rules import dsinit
    rule_globals(ctx, R)
    rule_globals_ast(ctx, R)
    F = astq.Facts(ctx, 'K0')
    dsinit.rule_range(ctx, R, F)
    rule_shared(ctx, R)
    rule_asm(ctx, R)
    rule_ownbuf(ctx, R)


def rule_globals_ast(ctx, R):
    """companion of RACE-GLOBALS for code the host build does not compile (the IR exists for K0 only)"""
    import astq
    from astq import walk, strip_all, show
    R.rule('RACE-GLOBALS-AST', 'in the configurations the host build does not compile (portable fallback, AArch64, RISC-V) no function writes a file-scope or function-local static variable that is neither constant nor thread_local: '
           'every assignment / compound assignment / increment whose target is such a variable, and every address of one passed to a call, in the units of those configurations (variables the host build also has are RACE-GLOBALS\' obligation on the IR)', min_instances=3)
    F0 = astq.Facts(ctx, 'K0')
    host = set()
    for f in F0.all_funcs():
        if f.get('body') is None:
            continue
        for x in walk(f['body']):
            if x['k'] == 'Decl':
                for d in x['d']:
                    if d.get('static'):
                        host.add((f['q'], d['name']))
    hostg = {g['q'] for rel in ctx.ast_units('K0') for g in F0.unit(rel).get('globals', [])}
    n = 0
    for cfg in ('K1', 'K2', 'K3'):
        F = astq.Facts(ctx, cfg)
        R.saw(config=cfg)
        mut = {}
        for rel in ctx.ast_units(cfg):
            u = F.unit(rel)
            for g in u.get('globals', []):
                if g.get('file', '').startswith(ctx.repo) and not g.get('const') and not g.get('constexpr') and not g.get('tls') and g['q'] not in hostg and not (g.get('ty') or '').startswith('const '):
                    mut[g['q']] = g
        seen = set()
        for f in F.all_funcs():
            if f.get('body') is None or not f['file'].startswith(ctx.repo) or (f['q'], f['file'], f['line']) in seen:
                continue
            seen.add((f['q'], f['file'], f['line']))
            statics = {}
            for x in walk(f['body']):
                if x['k'] == 'Decl':
                    for d in x['d']:
                        if d.get('static') and not d.get('tls') and not d.get('const') and not (d.get('ty') or '').startswith('const ') and (f['q'], d['name']) not in host:
                            statics[d['id']] = d
            if not mut and not statics:
                continue
            n += 1

            def target(nod):
                nod = strip_all(nod)
                while nod['k'] in ('Idx', 'Mem', 'Cast') and nod['k'] != 'Ref':
                    nod = strip_all(nod.get('b') or nod.get('e'))
                if nod['k'] == 'Ref':
                    if nod.get('id') in statics:
                        return 'static local %s' % statics[nod['id']]['name']
                    if nod.get('q') in mut and nod.get('dk') == 'Var':
                        return 'global %s' % nod['q']
                return None
            for x in walk(f['body']):
                t = None
                if x['k'] in ('Assign', 'CAssign'):
                    t = target(x['l'])
                elif x['k'] == 'Un' and ('++' in x.get('op', '') or '--' in x.get('op', '')):
                    t = target(x['e'])
                elif x['k'] == 'Call':
                    for a in x.get('a', []):
                        aa = strip_all(a)
                        while aa['k'] == 'Cast':
                            aa = strip_all(aa['e'])
                        if aa['k'] == 'Un' and aa.get('op') == '&':
                            t = t or target(aa['e'])
                if t:
                    R.violation('[%s] %s writes %s' % (cfg, f['q'], t), '%s:%d' % (f['file'], x.get('ln') or f['line']), expected='no write to shared static storage outside static initialisation', found=show(x)[:90])
        R.ok('[%s] %d functions with config-specific statics examined, %d config-specific mutable globals' % (cfg, n, len(mut)), 'src')
