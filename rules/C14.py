"""C14 Concurrent hashing and dataset initialisation over shared data are race-free.

Claimed (static) clauses, see DESIGN.md section 4 / C14:
  RACE-GLOBALS  no write to a non-thread-local global outside static initialisation
  RACE-SHARED   no write through a pointer derived from a shared cache / dataset object on the
                per-thread call graphs (hash, VM lifecycle, set_cache); dataset-init writes only
                through the `dataset` output parameter
  RACE-RANGE    (shared with C08) init_dataset stays inside the caller's item range
  RACE-ASM      the hand-written dataset initialiser is re-entrant (registers + stack only)
  RACE-OWNBUF   every compiled VM owns its code buffer by value; no JitCompiler has static storage
"""
import re

import irq
from core import AnalysisBroken
from rules import common

LEVEL = 'other'
TECHNIQUE = 'whole-library LLVM-IR effect analysis (global-store and pointer-derivation rules) + interval reasoning + object-code scan'
CLAIM = ('Decides statically, on every run, the structural necessary conditions of race freedom: no write to non-thread-local global state outside '
         'static initialisation anywhere in the library (every function, every template instantiation, including paths no test executes), '
         'no write through cache/dataset-derived pointers on the per-thread call graphs, dataset-init ranges confined to the request. '
         'It does not observe schedules; a violation of these conditions is a race for some schedule, their absence is the design argument the code relies on.')
LEVEL_NOTE = ('Trusted: clang 14 lowering of the real build flags; type-based resolution of indirect calls; JIT-emitted code and hand-written '
              'assembly only read shared data (constants cross-checked, effects not analysed); libc/libstdc++ internals.')
EXPLANATION = ('Whole-library LLVM-IR effect analysis (every function of every unit of the host build, all template instantiations) '
               'for writes to process-global state and for writes through pointers derived from the shared cache/dataset objects, '
               'plus interval reasoning on the item ranges of randomx_init_dataset and a scan of the assembled dataset-init routine. '
               'Decides the structural necessary conditions of race freedom; it does not observe executions, and it trusts that '
               'JIT-emitted code and libc only read the shared data.')


def is_init_fn(name):
    return name.startswith('__cxx_global_var_init') or name.startswith('_GLOBAL__sub_I_')


def rule_globals(ctx, R):
    R.rule('RACE-GLOBALS', 'every store / atomic / memory-intrinsic / writing external call whose address derives from a global that is '
           'neither constant nor thread_local must be inside static initialisation (or the guarded one-time initialisation of a '
           'function-local static); also the address of such a global must not be passed to a callee that writes through that parameter', min_instances=50)
    M = irq.Module(ctx.ir())
    R.saw(config='K0')
    wp = M.writes_param()
    nfun = 0
    mutable = {g['name']: g for g in M.m['globals'] if not g['constant'] and not g['tls']}
    for f in M.defined():
        nfun += 1
        R.saw(fn=f['name'])
        init = is_init_fn(f['name'])
        guards = set()
        for i in M.insts(f):
            if i.get('callee') == '__cxa_guard_acquire':
                for r in M.roots(f, i['ops'][0]):
                    if r[0] == 'g':
                        guards.add(r[1])
        sites = []
        for i, addr, kind in M.write_sites(f):
            sites.append((i, addr, kind))
        # escapes: pointer derived from a global passed to a writing parameter
        for i, names, kind in M.callees(f):
            for c in names:
                s = wp.get(c)
                cf = M.fn.get(c)
                if cf is not None and cf['defined']:
                    idxs = s or set()
                elif s is None:
                    idxs = set()
                    if cf is not None:
                        for idx, a in enumerate(cf['args']):
                            if a['ty'].endswith('*') and not a.get('readonly') and not common.mangled_param_is_const(c, idx, cf):
                                idxs.add(idx)
                else:
                    continue  # known external writers are already in write_sites
                for idx in idxs:
                    if idx < len(i['ops']):
                        sites.append((i, i['ops'][idx], 'escape:' + (cf['dem'] if cf else c)))
        for i, addr, kind in sites:
            for (r, depth) in M.deep_roots(f, addr):
                if r[0] != 'g':
                    continue
                g = M.glob.get(r[1])
                if g is None:
                    continue
                if g['tls']:
                    continue
                if g['constant'] and depth == 0:
                    # a store to a constant global cannot be expressed in C++ without UB; ignore
                    continue
                if g['name'].startswith('_ZGV') or g['name'] == 'llvm.global_ctors':
                    continue
                what = '%s (%s%s) written in %s [%s]' % (g['dem'], 'through pointer loaded from it, ' if depth else '', 'depth %d' % depth, f['dem'], kind)
                inst = '%s <- %s' % (g['dem'], f['dem'])
                if init:
                    R.ok(inst, i.get('loc', f.get('file', '?')), detail='static initialisation')
                    continue
                # guarded initialisation of a function-local static
                gv = '_ZGV' + g['name'][2:] if g['name'].startswith('_Z') else None
                if gv and gv in guards:
                    R.ok(inst, i.get('loc', '?'), detail='guarded one-time initialisation of a function-local static')
                    continue
                if depth > 0 and g['constant']:
                    # pointer read from a constant table: the pointee is what matters; handled when the pointee is itself a mutable global
                    continue
                R.violation(inst, i.get('loc', '?'), expected='no write to shared mutable global outside static initialisation', found=what)
    if nfun < 800:
        raise AnalysisBroken('IR module has only %d defined functions (expected > 800): build of the fact base incomplete' % nfun)
    R.extra['ir_functions'] = nfun
    R.extra['mutable_globals'] = len(mutable)


def run(ctx, R):
    import astq
    from rules import dsinit
    rule_globals(ctx, R)
    F = astq.Facts(ctx, 'K0')
    dsinit.rule_range(ctx, R, F)
