"""C12 rules: AES-ROUND (soft round == FIPS-197 round by byte-wise decomposition), AES-TTABLE, SPEC-AESKEYS, SPEC-AESPATTERN,
AES-FUSED, AES-SWITCH, AES-ASM (x86 JIT soft/hard AES fragments)."""
import re

import astq
from astq import calls, loc, show, showv, strip_all, val, walk
from core import AnalysisBroken

# ---------------------------------------------------------------------------------------------
# FIPS-197 from first principles


def _xtime(a):
    a <<= 1
    if a & 0x100:
        a ^= 0x11b
    return a & 0xff


def _gmul(a, b):
    r = 0
    while b:
        if b & 1:
            r ^= a
        a = _xtime(a)
        b >>= 1
    return r


def _sbox():
    inv = [0] * 256
    for a in range(1, 256):
        for b in range(1, 256):
            if _gmul(a, b) == 1:
                inv[a] = b
                break
    sb = []
    for a in range(256):
        x = inv[a]
        y = x
        for i in range(1, 5):
            y ^= ((x << i) | (x >> (8 - i))) & 0xff
        sb.append(y ^ 0x63)
    return sb


SBOX = _sbox()
INV_SBOX = [0] * 256
for _i, _v in enumerate(SBOX):
    INV_SBOX[_v] = _i


def fips_round(block, decrypt):
    """One AES round without AddRoundKey on a 16-byte block (FIPS-197 state s[r][c] = in[r + 4c])."""
    s = [[block[r + 4 * c] for c in range(4)] for r in range(4)]
    if not decrypt:
        s = [[SBOX[s[r][c]] for c in range(4)] for r in range(4)]
        s = [[s[r][(c + r) % 4] for c in range(4)] for r in range(4)]
        m = [[2, 3, 1, 1], [1, 2, 3, 1], [1, 1, 2, 3], [3, 1, 1, 2]]
    else:
        s = [[s[r][(c - r) % 4] for c in range(4)] for r in range(4)]
        s = [[INV_SBOX[s[r][c]] for c in range(4)] for r in range(4)]
        m = [[14, 11, 13, 9], [9, 14, 11, 13], [13, 9, 14, 11], [11, 13, 9, 14]]
    o = [[0] * 4 for _ in range(4)]
    for c in range(4):
        for r in range(4):
            v = 0
            for k in range(4):
                v ^= _gmul(m[r][k], s[k][c])
            o[r][c] = v
    return bytes(o[r][c] for c in range(4) for r in range(4))


def ttable_words(decrypt):
    """The four 256-entry tables in the byte order a little-endian word lookup implementation uses:
    T0[x] = column (m[0][0]*S, m[1][0]*S, m[2][0]*S, m[3][0]*S) as bytes 0..3; Tk = T0 rotated left by 8k bits."""
    sb = INV_SBOX if decrypt else SBOX
    col = [14, 9, 13, 11] if decrypt else [2, 1, 1, 3]
    t0 = []
    for x in range(256):
        s = sb[x]
        b = [_gmul(col[r], s) for r in range(4)]
        t0.append(b[0] | (b[1] << 8) | (b[2] << 16) | (b[3] << 24))
    tabs = [t0]
    for k in range(1, 4):
        tabs.append([((w << (8 * k)) | (w >> (32 - 8 * k))) & 0xffffffff for w in t0])
    return tabs


# ---------------------------------------------------------------------------------------------
LANE_FN = {'rx_vec_i128_x': 0, 'rx_vec_i128_y': 1, 'rx_vec_i128_z': 2, 'rx_vec_i128_w': 3}


def arg_id(a):
    """declaration id of a by-value argument (looks through the copy construction of class-type vectors)"""
    a = strip_all(a)
    while a['k'] in ('Cast', 'Construct'):
        if a['k'] == 'Cast':
            a = strip_all(a['e'])
        elif len(a.get('a', [])) == 1:
            a = strip_all(a['a'][0])
        else:
            break
    return a.get('id')


def table_values(F, q):
    g = F.glob(q)
    init = g.get('init')
    if not init or init['k'] != 'InitList' or len(init['e']) != 4:
        raise AnalysisBroken('%s: expected a 4 x 256 initialiser' % q)
    out = []
    for row in init['e']:
        vals = [val(e) for e in row['e']]
        if len(vals) != 256 or any(v is None for v in vals):
            raise AnalysisBroken('%s: row does not fold to 256 constants' % q)
        out.append([v & 0xffffffff for v in vals])
    return out, g


def lookups_of(F, fq, table_q):
    """Parse soft_aesenc / soft_aesdec: [(output word 0..3 (0 = lowest lane), table k, input word m, byte j)] x 16 and the final key xor."""
    f = F.func(fq)
    in_id, key_id = f['params'][0]['id'], f['params'][1]['id']
    svar = {}
    for x in walk(f['body']):
        if x['k'] == 'Assign' and strip_all(x['l'])['k'] == 'Ref':
            r = strip_all(x['r'])
            while r['k'] == 'Cast':
                r = r['e']
            if r['k'] == 'Call' and r.get('name') in LANE_FN and arg_id(r['a'][0]) == in_id:
                svar[strip_all(x['l'])['id']] = LANE_FN[r['name']]
        if x['k'] == 'Decl':
            for d in x['d']:
                if 'init' in d:
                    r = strip_all(d['init'])
                    while r['k'] == 'Cast':
                        r = r['e']
                    if r['k'] == 'Call' and r.get('name') in LANE_FN and arg_id(r['a'][0]) == in_id:
                        svar[d['id']] = LANE_FN[r['name']]
    if len(svar) != 4 or sorted(svar.values()) != [0, 1, 2, 3]:
        raise AnalysisBroken('%s: the four input lanes are not each read once (%s)' % (fq, sorted(svar.values())))
    sets = [c for c in calls(f['body']) if c.get('name') in ('_mm_set_epi32', 'rx_set_int_vec_i128')]
    if len(sets) != 1 or len(sets[0]['a']) != 4:
        raise AnalysisBroken('%s: expected one rx_set_int_vec_i128(i3, i2, i1, i0)' % fq)
    looks = []
    for pos, arg in enumerate(sets[0]['a']):
        word = 3 - pos
        terms = []

        def flat(e):
            e = strip_all(e)
            while e['k'] == 'Cast':
                e = strip_all(e['e'])
            if e['k'] == 'Bin' and e['op'] == '^':
                flat(e['l'])
                flat(e['r'])
            else:
                terms.append(e)
        flat(arg)
        for t in terms:
            if t['k'] != 'Idx':
                raise AnalysisBroken('%s: unexpected term %s' % (fq, show(t)[:60]))
            tb = strip_all(t['b'])
            if tb['k'] != 'Idx' or strip_all(tb['b']).get('q') != table_q or val(tb['i']) is None:
                raise AnalysisBroken('%s: lookup in an unexpected table: %s' % (fq, show(t['b'])[:60]))
            k = val(tb['i'])
            ix = strip_all(t['i'])
            while ix['k'] == 'Cast':
                ix = strip_all(ix['e'])
            j = None
            m = None
            if ix['k'] == 'Bin' and ix['op'] == '&' and val(ix['r']) == 0xff:
                inner = strip_all(ix['l'])
                while inner['k'] == 'Cast':
                    inner = strip_all(inner['e'])
                if inner['k'] == 'Ref':
                    m, j = svar.get(inner.get('id')), 0
                elif inner['k'] == 'Bin' and inner['op'] == '>>' and val(inner['r']) in (8, 16):
                    m, j = svar.get(strip_all(inner['l']).get('id')), val(inner['r']) // 8
            elif ix['k'] == 'Bin' and ix['op'] == '>>' and val(ix['r']) == 24:
                m, j = svar.get(strip_all(ix['l']).get('id')), 3
                if 'unsigned' not in (strip_all(ix['l']).get('ty') or ''):
                    raise AnalysisBroken('%s: >> 24 on a signed value' % fq)
            if m is None:
                raise AnalysisBroken('%s: unrecognised index %s' % (fq, show(ix)[:60]))
            looks.append((word, k, m, j))
    rets = [x for x in walk(f['body']) if x['k'] == 'Return']
    key_ok = False
    if len(rets) == 1:
        r = strip_all(rets[0]['e'])
        while r['k'] == 'Construct' and len(r.get('a', [])) == 1:
            r = strip_all(r['a'][0])
        if r['k'] == 'Call' and r.get('name') in ('_mm_xor_si128', 'rx_xor_vec_i128'):
            ids = {arg_id(a) for a in r['a']}
            key_ok = key_id in ids and len(ids) == 2
    return f, looks, key_ok


def rule_round(ctx, R, F):
    R.rule('AES-ROUND', 'soft_aesenc / soft_aesdec equal the FIPS-197 encryption / decryption round for every 16-byte state: both sides are XOR-sums of one function per input byte, '
           'so equality of the 16 x 256 per-byte contributions (evaluated from the source\'s look-up structure and its 2 x 4 x 256 table words) is equality for all 2^128 states; key is XORed last', min_instances=4)
    R.rule('AES-TTABLE', 'all 2 x 4 x 256 table words equal their derivation from the FIPS-197 S-box and MixColumns matrices', min_instances=2048)
    for name, tq, dec in (('soft_aesenc', 'randomx_aes_lut_enc', False), ('soft_aesdec', 'randomx_aes_lut_dec', True)):
        tabs, g = table_values(F, tq)
        ref = ttable_words(dec)
        bad = 0
        for k in range(4):
            for x in range(256):
                ok = tabs[k][x] == ref[k][x]
                if not ok:
                    bad += 1
                    if bad <= 3:
                        R.violation('%s[%d][%d]' % (tq, k, x), '%s:%d' % (g['file'], g['line']), expected=hex(ref[k][x]), found=hex(tabs[k][x]), rule='AES-TTABLE')
                else:
                    R.ok('%s[%d][%d]' % (tq, k, x), '%s:%d' % (g['file'], g['line']), rule='AES-TTABLE')
        f, looks, key_ok = lookups_of(F, name, tq)
        R.saw(fn=f['q'], unit=f['_unit'])
        where = '%s:%d' % (f['file'], f['line'])
        R.check(len(looks) == 16 and len({(m, j) for _, _, m, j in looks}) == 16, name + ' reads every input byte once', where, expected='16 look-ups, 16 distinct (lane, byte) sources', found=len(looks), rule='AES-ROUND')
        R.check(key_ok, name + ' adds the round key last', where, expected='return rx_xor_vec_i128(out, key)', found=key_ok, rule='AES-ROUND')
        # per-byte contributions
        mism = 0
        first = None
        zero_ref = fips_round(bytes(16), dec)
        for b in range(16):
            m, j = b // 4, b % 4
            mine = [(w, k) for (w, k, mm, jj) in looks if (mm, jj) == (m, j)]
            for v in range(256):
                out = 0
                for (w, k) in mine:
                    out ^= tabs[k][v] << (32 * w)
                blk = bytearray(16)
                blk[b] = v
                # reference contribution of this byte: R(block with only byte b = v) xor R(0) xor (contribution of byte b = 0)
                r1 = int.from_bytes(fips_round(bytes(blk), dec), 'little')
                r0 = int.from_bytes(zero_ref, 'little')
                out0 = 0
                for (w, k) in mine:
                    out0 ^= tabs[k][0] << (32 * w)
                if (out ^ out0) != (r1 ^ r0):
                    mism += 1
                    if first is None:
                        first = 'input byte %d value %#x: source gives %#034x, FIPS-197 %#034x' % (b, v, out ^ out0, r1 ^ r0)
        # constant part: all-zero state
        outz = 0
        for (w, k, mm, jj) in looks:
            outz ^= tabs[k][0] << (32 * w)
        zero_ok = outz == int.from_bytes(zero_ref, 'little')
        R.check(mism == 0 and zero_ok, '%s == FIPS-197 %s round (4096 byte contributions + zero state)' % (name, 'decryption' if dec else 'encryption'), where,
                expected='all per-byte contributions equal', found='%d mismatches%s%s' % (mism, '' if zero_ok else ', zero-state differs', ('; first: ' + first) if first else ''), rule='AES-ROUND')
    # lane accessors of the build being analysed
    for nm, lane in LANE_FN.items():
        f = F.func(nm)
        cs = calls(f['body'])
        names = [c.get('name') for c in cs]
        if names == ['_mm_cvtsi128_si32'] and lane == 0:
            ok = True
        elif len(names) == 2 and '_mm_cvtsi128_si32' in names and [n for n in names if n in ('_mm_shuffle_epi32', '__builtin_ia32_pshufd')]:
            sh = [c for c in cs if c.get('name') in ('_mm_shuffle_epi32', '__builtin_ia32_pshufd')][0]
            ok = val(sh['a'][1]) is not None and (val(sh['a'][1]) & 3) == lane
        else:
            rets = [x for x in walk(f['body']) if x['k'] == 'Return']
            s = show(rets[0]['e']) if rets else ''
            ok = bool(re.search(r'u32\[%d\]' % lane, s))
        R.check(ok, '%s selects lane %d' % (nm, lane), '%s:%d' % (f['file'], f['line']), expected='32-bit lane %d' % lane, found=names, rule='AES-ROUND')


# ---------------------------------------------------------------------------------------------
def key_bytes(call):
    """16 bytes of rx_set_int_vec_i128(i3, i2, i1, i0) in memory order"""
    vals = [val(a) for a in call['a']]
    if len(vals) != 4 or any(v is None for v in vals):
        return None
    out = b''
    for v in reversed(vals):
        out += (v & 0xffffffff).to_bytes(4, 'little')
    return out


class AesFn:
    """Structure of one of the four-lane AES functions."""

    def __init__(self, F, f):
        self.f = f
        self.vars = {}       # var id -> dict(name, kind: 'const'|'load'|'other', bytes / (base, idx))
        self.params = {p['id']: i for i, p in enumerate(f['params'])}
        self.seq = []        # top-level sequence of ('round', var, op, keydesc, soft) | ('store', base, idx, var) | ('loop', cond, [..]) | ('advance', var, n)
        self.pointers = {}   # local pointer var id -> param index it derives from
        self._collect(f['body'], self.seq)

    def _ptr_desc(self, e):
        """(base param index or local pointer id, block index) for `(rx_vec_i128*)ptr + J`"""
        e = strip_all(e)
        while e['k'] == 'Cast':
            e = strip_all(e['e'])
        idx = 0
        if e['k'] == 'Bin' and e['op'] == '+' and val(e['r']) is not None:
            idx = val(e['r'])
            e = strip_all(e['l'])
            while e['k'] == 'Cast':
                e = strip_all(e['e'])
        if e['k'] == 'Ref' and e.get('id') is not None:
            rid = e['id']
            if rid in self.params:
                return ('P%d' % self.params[rid], idx)
            if rid in self.pointers:
                return ('ptr:P%d' % self.pointers[rid], idx)
        return (show(e), idx)

    def _value_desc(self, e):
        e = strip_all(e)
        while e['k'] == 'Cast':
            e = strip_all(e['e'])
        if e['k'] == 'Call':
            nm = e.get('name')
            if nm in ('_mm_set_epi32', 'rx_set_int_vec_i128'):
                return ('const', key_bytes(e))
            if nm in ('_mm_load_si128', 'rx_load_vec_i128'):
                return ('load',) + self._ptr_desc(e['a'][0])
        if e['k'] == 'Ref' and e.get('id') in self.vars:
            return ('var', e['id'])
        return ('other', show(e)[:60])

    def _collect(self, s, acc):
        if s is None:
            return
        k = s['k']
        if k == 'Compound':
            for x in s['s']:
                self._collect(x, acc)
            return
        if k == 'Decl':
            for d in s['d']:
                if 'init' in d:
                    ty = re.sub(r'\s*const\s*$', '', d.get('ty', '')).strip()
                    if ty.endswith('*'):
                        base = strip_all(d['init'])
                        while base['k'] == 'Cast':
                            base = strip_all(base['e'])
                        off = None
                        if base['k'] == 'Bin' and base['op'] == '+':
                            l = strip_all(base['l'])
                            while l['k'] == 'Cast':
                                l = strip_all(l['e'])
                            if l['k'] == 'Ref' and (l.get('id') in self.params or l.get('id') in self.pointers):
                                src = self.params.get(l['id'], self.pointers.get(l['id']))
                                self.pointers[d['id']] = src
                                acc.append(('ptrinit', d['id'], d['name'], 'P%d' % src, show(base['r'])))
                        elif base['k'] == 'Ref' and base.get('id') in self.params:
                            self.pointers[d['id']] = self.params[base['id']]
                            acc.append(('ptrinit', d['id'], d['name'], 'P%d' % self.params[base['id']], '0'))
                        elif base['k'] == 'Ref' and base.get('id') in self.pointers:
                            self.pointers[d['id']] = self.pointers[base['id']]      # typed alias of a running pointer (rx_vec_i128* block = (rx_vec_i128*)ptr)
                        continue
                    self._assign(d['id'], d['name'], d['init'], acc)
                else:
                    self.vars.setdefault(d['id'], dict(name=d['name']))
            return
        if k in ('While', 'For', 'Do'):
            inner = []
            self._collect(s['b'], inner)
            trip = None
            if k == 'For':
                from rules.driver import loop_trip
                trip = loop_trip(s)
            acc.append(('loop', show(s.get('c')), inner, trip))
            return
        if k == 'If':
            cv = val(s['c'])
            if cv is not None:
                self._collect(s['t'] if cv else s.get('e'), acc)
            else:
                a1, a2 = [], []
                self._collect(s['t'], a1)
                self._collect(s.get('e'), a2)
                acc.append(('if', show(s['c']), a1, a2))
            return
        if k == 'Return':
            acc.append(('return',))
            return
        top = strip_all(s)
        if top['k'] == 'Assign' and strip_all(top['l'])['k'] == 'Ref':
            l = strip_all(top['l'])
            self._assign(l.get('id'), l.get('n'), top['r'], acc)
            return
        if top['k'] == 'CAssign' and strip_all(top['l'])['k'] == 'Ref' and strip_all(top['l']).get('id') in self.pointers:
            acc.append(('advance', strip_all(top['l'])['id'], top['op'], val(top['r']) if val(top['r']) is not None else show(top['r'])))
            return
        if top['k'] == 'Assign' and strip_all(top['l'])['k'] == 'Ref' and strip_all(top['l']).get('id') in self.pointers:
            acc.append(('ptrset', strip_all(top['l'])['id'], show(top['r'])))
            return
        if top['k'] == 'Call' and top.get('name') in ('_mm_store_si128', 'rx_store_vec_i128'):
            v = strip_all(top['a'][1])
            acc.append(('store',) + self._ptr_desc(top['a'][0]) + (v.get('id'),))
            return
        if top['k'] == 'Call' and top.get('name') in ('_mm_prefetch',):
            return
        for c in calls(s):
            if c.get('name') in ('__assert_fail',):
                continue
            acc.append(('call', c.get('name')))

    def _assign(self, vid, name, rhs, acc):
        r = strip_all(rhs)
        while r['k'] == 'Cast':
            r = strip_all(r['e'])
        if r['k'] == 'Call' and r.get('name') in ('aesenc', 'aesdec'):
            st = strip_all(r['a'][0])
            soft = r['fn'].endswith('<true>')
            acc.append(('round', vid, st.get('id'), 'enc' if r['name'] == 'aesenc' else 'dec', self._value_desc(r['a'][1]), soft))
            self.vars.setdefault(vid, dict(name=name))
            return
        if vid in self.pointers:
            acc.append(('ptrset', vid, show(rhs)))
            return
        d = self._value_desc(rhs)
        self.vars[vid] = dict(name=name, init=d)
        acc.append(('init', vid, d))


def lanes_of(fn, prefix_filter=None):
    """state variables in lane order, from their initialisation (load from block J of a parameter, or constant = spec state J)"""
    return fn.vars


def rounds_in(seq):
    return [x for x in seq if x[0] == 'round']


def rule_patterns(ctx, R, F):
    S = ctx.spec()
    keys1 = S.hex_keys('3.2')
    keys4 = S.hex_keys('3.3')
    keysh = S.hex_keys('3.4')
    d1 = S.lane_diagrams('3.2')
    d4 = S.lane_diagrams('3.3')
    dh = S.lane_diagrams('3.4')
    if len(keys1) != 4 or len(keys4) != 8 or len(keysh) != 6 or len(d1) != 1 or len(d4) != 1 or len(dh) != 2:
        raise AnalysisBroken('spec chapter 3: keys %d/%d/%d diagrams %d/%d/%d' % (len(keys1), len(keys4), len(keysh), len(d1), len(d4), len(dh)))
    R.rule('SPEC-AESKEYS', 'the 4 + 8 generator keys, 4 initial hash states and 2 extra keys in aes_hash.cpp (as _mm_set_epi32 operands, in memory byte order) equal the hex strings of spec 3.2 - 3.4', min_instances=18)
    R.rule('SPEC-AESPATTERN', 'per lane the sequence of AES rounds (encrypt / decrypt, which key, which state column, which input block) in fillAes1Rx4, fillAes4Rx4, hashAes1Rx4 equals the lane diagrams of spec 3.2 / 3.3 / 3.4; '
           'state J is loaded from / stored to block J; output block J receives state J; 64 bytes per iteration', min_instances=12)
    R.rule('AES-SWITCH', 'every AES round of the four functions goes through aesenc<softAes> / aesdec<softAes> with the function\'s own softAes; aesenc<> selects soft_aesenc or the hardware *encrypt* primitive, aesdec<> the *decrypt* one', min_instances=8)

    def check_fn(fq, soft, keyset, diagram, kind):
        f = F.func(fq)
        R.saw(fn=fq, unit=f['_unit'])
        A = AesFn(F, f)
        where = '%s:%d' % (f['file'], f['line'])
        loops = [x for x in A.seq if x[0] == 'loop']
        # constants
        consts = {vid: v['init'][1] for vid, v in A.vars.items() if v.get('init', ('',))[0] == 'const'}
        loads = {vid: v['init'] for vid, v in A.vars.items() if v.get('init', ('',))[0] == 'load'}
        return f, A, loops, consts, loads, where

    for soft in ('true', 'false'):
        sv = soft == 'true'
        # ---------------- AesGenerator1R
        f, A, loops, consts, loads, where = check_fn('fillAes1Rx4<%s>' % soft, sv, keys1, d1[0], 'fill')
        name_of = {}
        for kn, (kb, ln) in sorted(keys1.items()):
            got = [vid for vid, b in consts.items() if b == kb]
            R.check(len(got) == 1, 'fillAes1Rx4<%s> %s' % (soft, kn), where, expected=kb.hex(), found='%d constants with this value; constants present: %s' % (len(got), sorted(b.hex() for b in consts.values() if b)[:8]), rule='SPEC-AESKEYS')
            for g_ in got:
                name_of[g_] = kn       # a constant is identified by its value, not by the name of the variable that holds it
        lane = {vid: d[2] for vid, d in loads.items() if d[1] == 'P0'}
        R.check(sorted(lane.values()) == [0, 1, 2, 3], 'fillAes1Rx4<%s> state lanes loaded from state blocks 0-3' % soft, where, expected=[0, 1, 2, 3], found=sorted(lane.values()), rule='SPEC-AESPATTERN')
        if len(loops) == 1:
            body = loops[0][2]
            rs = rounds_in(body)
            got = sorted([(lane.get(r[1]), r[3], name_of.get(r[4][1]) if r[4][0] == 'var' else str(r[4])) for r in rs if r[1] == r[2]])
            exp = sorted([(j, op, kn) for j, (op, kn) in enumerate(d1[0][0])])
            R.check(got == exp and len(rs) == 4, 'fillAes1Rx4<%s> round pattern' % soft, where, expected=exp, found=got, rule='SPEC-AESPATTERN')
            stores = [x for x in body if x[0] == 'store']
            st_ok = sorted((x[2], lane.get(x[3])) for x in stores) == [(0, 0), (1, 1), (2, 2), (3, 3)] and all(x[1] == 'ptr:P2' for x in stores)
            order_ok = max(body.index(r) for r in rs) < min(body.index(s_) for s_ in stores) if rs and stores else False
            adv = [x for x in body if x[0] == 'advance']
            R.check(st_ok and order_ok, 'fillAes1Rx4<%s> output' % soft, where, expected='after the 4 rounds store state J to output block J (the 64-byte advance is decided by AES-COVER)', found='stores %s' % sorted((x[1], x[2], lane.get(x[3])) for x in stores), rule='SPEC-AESPATTERN')
            for r in rs:
                R.check(r[5] == sv, 'fillAes1Rx4<%s> AES flavour' % soft, where, expected=soft, found=r[5], rule='AES-SWITCH')
        else:
            R.violation('fillAes1Rx4<%s> structure' % soft, where, expected='one loop', found=len(loops), rule='SPEC-AESPATTERN')
        post = [x for x in A.seq[A.seq.index(loops[0]) + 1:] if x[0] == 'store'] if loops else []
        R.check(sorted((x[1], x[2], lane.get(x[3])) for x in post) == [('P0', j, j) for j in range(4)], 'fillAes1Rx4<%s> writes the state back' % soft, where, expected='state block J = state J', found=sorted((x[1], x[2], lane.get(x[3])) for x in post), rule='SPEC-AESPATTERN')
        # (that exactly outputSize bytes are produced is decided by AES-COVER)

        # ---------------- AesGenerator4R
        f, A, loops, consts, loads, where = check_fn('fillAes4Rx4<%s>' % soft, sv, keys4, d4[0], 'fill')
        name_of = {}
        for kn, (kb, ln) in sorted(keys4.items()):
            got = [vid for vid, b in consts.items() if b == kb]
            R.check(len(got) == 1, 'fillAes4Rx4<%s> %s' % (soft, kn), where, expected=kb.hex(), found='%d constants with this value; constants present: %s' % (len(got), sorted(b.hex() for b in consts.values() if b)[:10]), rule='SPEC-AESKEYS')
            for g_ in got:
                name_of[g_] = kn
        lane = {vid: d[2] for vid, d in loads.items() if d[1] == 'P0'}
        if len(loops) == 1:
            body = loops[0][2]
            rs = rounds_in(body)
            per_lane = {j: [] for j in range(4)}
            for r in rs:
                if r[1] == r[2] and lane.get(r[1]) is not None:
                    per_lane[lane[r[1]]].append((r[3], name_of.get(r[4][1]) if r[4][0] == 'var' else str(r[4])))
            exp = {j: [d4[0][rd][j] for rd in range(len(d4[0]))] for j in range(4)}
            R.check(per_lane == exp and len(rs) == 16, 'fillAes4Rx4<%s> round pattern' % soft, where, expected=exp, found=per_lane, rule='SPEC-AESPATTERN')
            stores = [x for x in body if x[0] == 'store']
            st_ok = sorted((x[2], lane.get(x[3])) for x in stores) == [(0, 0), (1, 1), (2, 2), (3, 3)] and all(x[1] == 'ptr:P2' for x in stores)
            order_ok = max(body.index(r) for r in rs) < min(body.index(s_) for s_ in stores) if rs and stores else False
            adv = [x for x in body if x[0] == 'advance']
            R.check(st_ok and order_ok, 'fillAes4Rx4<%s> output' % soft, where, expected='after the 16 rounds store state J to output block J (the 64-byte advance is decided by AES-COVER)', found='stores %s' % sorted((x[1], x[2], lane.get(x[3])) for x in stores), rule='SPEC-AESPATTERN')
            for r in rs:
                R.check(r[5] == sv, 'fillAes4Rx4<%s> AES flavour' % soft, where, expected=soft, found=r[5], rule='AES-SWITCH')
        else:
            R.violation('fillAes4Rx4<%s> structure' % soft, where, expected='one loop', found=len(loops), rule='SPEC-AESPATTERN')

        # ---------------- AesHash1R
        f, A, loops, consts, loads, where = check_fn('hashAes1Rx4<%s>' % soft, sv, keysh, dh, 'hash')
        st_lane = {}
        for j in range(4):
            kb = keysh['state%d' % j][0]
            got = [vid for vid, b in consts.items() if b == kb]
            R.check(len(got) == 1, 'hashAes1Rx4<%s> state%d' % (soft, j), where, expected=kb.hex(), found='%d constants with this value; constants present: %s' % (len(got), sorted(b.hex() for b in consts.values() if b)[:8]), rule='SPEC-AESKEYS')
            if got:
                st_lane[got[0]] = j
        xk = {}
        for kn in ('xkey0', 'xkey1'):
            kb = keysh[kn][0]
            got = [vid for vid, b in consts.items() if b == kb]
            R.check(len(got) == 1, 'hashAes1Rx4<%s> %s' % (soft, kn), where, expected=kb.hex(), found='%d constants with this value' % len(got), rule='SPEC-AESKEYS')
            if got:
                xk[got[0]] = kn
        if len(loops) == 1:
            body = loops[0][2]
            in_blocks = {x[1]: x[2] for x in body if x[0] == 'init' and x[2][0] == 'load' and x[2][1] == 'ptr:P0'}
            in_idx = {vid: d[2] for vid, d in in_blocks.items()}
            rs = rounds_in(body)
            got = sorted((st_lane.get(r[1]), r[3], 'key%d' % in_idx[r[4][1]] if r[4][0] == 'var' and r[4][1] in in_idx else ('key%d' % r[4][2] if r[4][0] == 'load' and r[4][1] == 'ptr:P0' else str(r[4]))) for r in rs if r[1] == r[2])
            exp = sorted((j, op, kn) for j, (op, kn) in enumerate(dh[0][0]))
            R.check(got == exp and len(rs) == 4, 'hashAes1Rx4<%s> absorb pattern' % soft, where, expected=exp, found=got, rule='SPEC-AESPATTERN')
            post = A.seq[A.seq.index(loops[0]) + 1:]
            prs = rounds_in(post)
            per_lane = {j: [] for j in range(4)}
            for r in prs:
                if r[1] == r[2] and st_lane.get(r[1]) is not None:
                    per_lane[st_lane[r[1]]].append((r[3], xk.get(r[4][1]) if r[4][0] == 'var' else str(r[4])))
            exp2 = {j: [dh[1][rd][j] for rd in range(len(dh[1]))] for j in range(4)}
            R.check(per_lane == exp2 and len(prs) == 8, 'hashAes1Rx4<%s> finalisation rounds' % soft, where, expected=exp2, found=per_lane, rule='SPEC-AESPATTERN')
            stores = [x for x in post if x[0] == 'store']
            R.check(sorted((x[1], x[2], st_lane.get(x[3])) for x in stores) == [('P2', j, j) for j in range(4)], 'hashAes1Rx4<%s> output' % soft, where, expected='hash block J = state J', found=sorted((x[1], x[2], st_lane.get(x[3])) for x in stores), rule='SPEC-AESPATTERN')
            for r in rs + prs:
                R.check(r[5] == sv, 'hashAes1Rx4<%s> AES flavour' % soft, where, expected=soft, found=r[5], rule='AES-SWITCH')
        else:
            R.violation('hashAes1Rx4<%s> structure' % soft, where, expected='one loop', found=len(loops), rule='SPEC-AESPATTERN')

    # aesenc<> / aesdec<> template bodies
    for nm, softfn, hw in (('aesenc', 'soft_aesenc', ('_mm_aesenc_si128', 'rx_aesenc_vec_i128')), ('aesdec', 'soft_aesdec', ('_mm_aesdec_si128', 'rx_aesdec_vec_i128'))):
        for soft in ('true', 'false'):
            f = F.func('%s<%s>' % (nm, soft))
            rets = [x for x in walk(f['body']) if x['k'] == 'Return']
            e = strip_all(rets[0]['e']) if rets else None
            ok = False
            found = show(e) if e else None
            if e is not None and e['k'] == 'Cond':
                c = val(e['c'])
                t, fl = strip_all(e['t']), strip_all(e['f'])
                ok = c == (1 if soft == 'true' else 0) and t.get('name') == softfn and fl.get('name') in hw
                pids = [p['id'] for p in f['params']]
                ok = ok and [strip_all(a).get('id') for a in t['a']] == pids and [strip_all(a).get('id') for a in fl['a']] == pids
            R.check(ok, '%s<%s> body' % (nm, soft), '%s:%d' % (f['file'], f['line']), expected='soft ? %s(in, key) : %s(in, key)' % (softfn, hw[0]), found=found, rule='AES-SWITCH')


def rule_fused(ctx, R, F):
    R.rule('AES-FUSED', 'hashAndFillAes1Rx4: the hash lanes have the pattern of hashAes1Rx4 and the fill lanes the pattern of fillAes1Rx4 (same keys, states, extra rounds); in every iteration '
           'block J is read (as round key) before it is overwritten; the fill state is written back', min_instances=10)
    S = ctx.spec()
    keys1 = S.hex_keys('3.2')
    keysh = S.hex_keys('3.4')
    d1 = S.lane_diagrams('3.2')[0]
    dh = S.lane_diagrams('3.4')
    for soft in ('true', 'false'):
        sv = soft == 'true'
        f = F.func('hashAndFillAes1Rx4<%s>' % soft)
        R.saw(fn=f['q'], unit=f['_unit'])
        A = AesFn(F, f)
        where = '%s:%d' % (f['file'], f['line'])
        name_of = {vid: v['name'] for vid, v in A.vars.items()}
        consts = {vid: v['init'][1] for vid, v in A.vars.items() if v.get('init', ('',))[0] == 'const'}
        loads = {vid: v['init'] for vid, v in A.vars.items() if v.get('init', ('',))[0] == 'load'}
        hlane = {}
        for j in range(4):
            got = [vid for vid, b in consts.items() if b == keysh['state%d' % j][0]]
            R.check(len(got) == 1, 'fused<%s> hash state%d constant' % (soft, j), where, expected=keysh['state%d' % j][0].hex(), found=len(got))
            if got:
                hlane[got[0]] = j
        kname = {}
        for kn, (kb, ln) in keys1.items():
            got = [vid for vid, b in consts.items() if b == kb]
            R.check(len(got) == 1, 'fused<%s> generator %s constant' % (soft, kn), where, expected=kb.hex(), found=len(got))
            if got:
                kname[got[0]] = kn
        xk = {}
        for kn in ('xkey0', 'xkey1'):
            got = [vid for vid, b in consts.items() if b == keysh[kn][0]]
            if got:
                xk[got[0]] = kn
        flane = {vid: d[2] for vid, d in loads.items() if d[1] == 'P3'}
        R.check(sorted(flane.values()) == [0, 1, 2, 3], 'fused<%s> fill state lanes' % soft, where, expected='fill_state J loaded from block J of the fill state', found=sorted(flane.values()))
        # locate the while loop (possibly nested in the two-pass for)
        outer = [x for x in A.seq if x[0] == 'loop']
        inner = None
        trip = None
        if len(outer) == 1 and any(y[0] == 'loop' for y in outer[0][2]):
            trip = outer[0][3]
            inner = [y for y in outer[0][2] if y[0] == 'loop'][0]
        elif len(outer) == 1:
            inner = outer[0]
        if inner is None:
            raise AnalysisBroken('hashAndFillAes1Rx4<%s>: loop structure not recognised' % soft)
        body = inner[2]
        rs = rounds_in(body)
        in_blocks = {x[1]: x[2] for x in body if x[0] == 'init' and x[2][0] == 'load'}
        def keyop(r):
            if r[4][0] == 'var' and r[4][1] in in_blocks:
                return in_blocks[r[4][1]]
            return r[4]
        hr = sorted((hlane.get(r[1]), r[3], keyop(r)) for r in rs if r[1] in hlane)
        exp_h = sorted((j, op, ('load', 'ptr:P0', j)) for j, (op, kn) in enumerate(dh[0][0]))
        R.check(hr == exp_h, 'fused<%s> hash lanes' % soft, where, expected=[(j, op, 'block %d' % j) for j, (op, kn) in enumerate(dh[0][0])], found=[(a, b, str(c)) for a, b, c in hr])
        fr = sorted((flane.get(r[1]), r[3], kname.get(r[4][1]) if r[4][0] == 'var' else str(r[4])) for r in rs if r[1] in flane)
        exp_f = sorted((j, op, kn) for j, (op, kn) in enumerate(d1[0]))
        R.check(fr == exp_f, 'fused<%s> fill lanes' % soft, where, expected=exp_f, found=fr)
        for r in rs:
            R.check(r[5] == sv, 'fused<%s> AES flavour' % soft, where, expected=soft, found=r[5])
        stores = [x for x in body if x[0] == 'store']
        st_ok = sorted((x[1], x[2], flane.get(x[3])) for x in stores) == [('ptr:P0', j, j) for j in range(4)]
        # every load of block J (inside a round) precedes the store to block J
        first_store = {x[2]: body.index(x) for x in stores}
        load_pos = {r[4][2]: body.index(r) for r in rs if r[4][0] == 'load' and r[4][1] == 'ptr:P0'}
        for x in body:
            if x[0] == 'init' and x[2][0] == 'load' and x[2][1] == 'ptr:P0':
                load_pos.setdefault(x[2][2], body.index(x))        # block loaded into a temporary first
        order_ok = all(load_pos.get(j, 10 ** 6) < first_store.get(j, -1) for j in range(4))
        R.check(st_ok and order_ok, 'fused<%s> read-before-overwrite' % soft, where, expected='block J read as key before fill state J is stored to block J', found='stores %s, load positions %s, store positions %s' % (sorted((x[1], x[2], flane.get(x[3])) for x in stores), load_pos, first_store))
        adv = [x for x in body if x[0] == 'advance' and A.pointers.get(x[1]) == 0 and name_of.get(x[1], '') != 'prefetchPtr']
        advs = [x for x in body if x[0] == 'advance']
        # coverage of [0, scratchpadSize) is decided by AES-COVER (address-arithmetic slice), not by the shape of the loop nest
        post = A.seq[A.seq.index(outer[0]) + 1:]
        wb = [x for x in post if x[0] == 'store' and x[1] == 'P3']
        R.check(sorted((x[2], flane.get(x[3])) for x in wb) == [(j, j) for j in range(4)], 'fused<%s> fill state written back' % soft, where, expected='fill state block J = fill_state J', found=sorted((x[2], flane.get(x[3])) for x in wb))
        prs = rounds_in(post)
        per_lane = {j: [] for j in range(4)}
        for r in prs:
            if r[1] in hlane:
                per_lane[hlane[r[1]]].append((r[3], xk.get(r[4][1]) if r[4][0] == 'var' else str(r[4])))
        exp2 = {j: [dh[1][rd][j] for rd in range(len(dh[1]))] for j in range(4)}
        R.check(per_lane == exp2, 'fused<%s> finalisation rounds' % soft, where, expected=exp2, found=per_lane)
        out = [x for x in post if x[0] == 'store' and x[1] == 'P2']
        R.check(sorted((x[2], hlane.get(x[3])) for x in out) == [(j, j) for j in range(4)], 'fused<%s> hash output' % soft, where, expected='hash block J = hash_state J', found=sorted((x[2], hlane.get(x[3])) for x in out))


def name_of_ptr(A, pid):
    for x in A.seq:
        if x[0] == 'ptrinit' and x[1] == pid:
            return x[2]
    return None


def rule_asm(ctx, R, F):
    """x86 JIT fragments: hard-AES v2 mix has the interpreter's pattern; soft AES routines route bytes like soft_aesenc/dec."""
    R.rule('AES-ASM', 'the x86 v2 loop-store fragment with hardware AES applies, per key e0..e3 in order, aesenc to f0/f2 and aesdec to f1/f3 with that key (the interpreter\'s v2 mix); '
           'the JIT soft-AES routines route input bytes to tables as soft_aesenc / soft_aesdec do', min_instances=3)
    o = ctx.obj('x86')
    ins = o.between('randomx_program_loop_store_hard_aes', 'randomx_program_loop_store_soft_aes')
    seq = [(mn, ops.replace(' ', '')) for off, mn, ops, raw in ins if mn in ('aesenc', 'aesdec')]
    exp = []
    for k in range(4):
        exp += [('aesenc', 'xmm0,xmm%d' % (4 + k)), ('aesdec', 'xmm1,xmm%d' % (4 + k)), ('aesenc', 'xmm2,xmm%d' % (4 + k)), ('aesdec', 'xmm3,xmm%d' % (4 + k))]
    R.eq('hard-AES F/E mix order', 'src/asm/program_loop_store_hard_aes.inc', exp, seq)
    # interpreter pattern it mirrors
    for ex in F.funcs(r'^randomx::InterpretedVm<.*>::execute$'):
        pat = []
        for x in walk(ex['body']):
            if x['k'] == 'Assign':
                r = strip_all(x['r'])
                if r['k'] == 'Call' and r.get('name') in ('aesenc', 'aesdec'):
                    pat.append((r['name'], show(x['l']), show(r['a'][0]), show(r['a'][1])))
        expi = [('aesenc', 'freg[0]', 'freg[0]', 'ekey[i]'), ('aesdec', 'freg[1]', 'freg[1]', 'ekey[i]'), ('aesenc', 'freg[2]', 'freg[2]', 'ekey[i]'), ('aesdec', 'freg[3]', 'freg[3]', 'ekey[i]')]
        R.eq('%s v2 mix' % ex['q'].split('::')[1][:42], '%s:%d' % (ex['file'], ex['line']), expi, pat)


# ---------------------------------------------------------------------------------------------
# [AES-COVER] which 16-byte blocks of the buffer are read / written, in which order, as a function of the size
class _Slice:
    """Evaluates the address-arithmetic slice of a function (integer / byte-pointer locals, loops, loads and stores of
    16-byte blocks); everything else (the AES rounds, vector locals) is skipped.  Pointers are integers; pointer parameters get
    distinct bases."""
    PTR1 = ('char', 'uint8_t', 'unsigned char', 'void')
    PTR16 = ('rx_vec_i128', '__m128i', 'rx_vec_f128', '__m128d', 'uint8x16_t', 'long long __attribute__')

    def __init__(self, f, env, limit):
        self.f = f
        self.env = dict(env)
        self.limit = limit
        self.steps = 0
        self.loads = []
        self.stores = []

    def scale(self, ty):
        t = (ty or '').replace('const ', '').strip()
        if not t.endswith('*'):
            return None
        base = t[:-1].strip()
        m = re.search(r'__vector_size__\((\d+) \* sizeof\((long long|double|int|float|char)\)\)', base)
        if m:
            return int(m.group(1)) * {'long long': 8, 'double': 8, 'int': 4, 'float': 4, 'char': 1}[m.group(2)]
        if any(base == b or base.startswith(b) for b in self.PTR16):
            return 16
        if any(base == b for b in self.PTR1):
            return 1
        raise AnalysisBroken('AES-COVER: pointer arithmetic on %s in %s' % (ty, self.f['q']))

    def ev(self, n):
        v = val(n)
        if v is not None and n['k'] not in ('Assign', 'CAssign', 'Un'):
            return v
        k = n['k']
        if k == 'Cast':
            return self.ev(n['e'])
        if k == 'Paren':
            return self.ev(n['e'])
        if k == 'Ref':
            return self.env.get(n.get('id'))
        if k == 'Idx':
            b_ = n['b']
            while b_['k'] in ('Cast', 'Paren'):
                b_ = b_['e']
            arr = self.env.get(b_.get('id')) if b_['k'] == 'Ref' else None
            i_ = self.ev(n['i'])
            if isinstance(arr, list) and isinstance(i_, int) and 0 <= i_ < len(arr):
                return arr[i_]
            return None
        if k == 'Bin':
            op = n['op']
            a, b = self.ev(n['l']), self.ev(n['r'])
            if isinstance(a, list) or isinstance(b, list):
                return None
            if a is None or b is None:
                return None
            if op in ('+', '-'):
                sl, sr = self.scale(n['l'].get('ty')) if '*' in (n['l'].get('ty') or '') else None, self.scale(n['r'].get('ty')) if '*' in (n['r'].get('ty') or '') else None
                if sl and not sr:
                    b *= sl
                elif sr and not sl:
                    a *= sr
                elif sl and sr and op == '-':
                    return (a - b) // sl
                return a + b if op == '+' else a - b
            if op == '*':
                return a * b
            if op == '/':
                return (abs(a) // abs(b)) * (1 if (a >= 0) == (b >= 0) else -1) if b else None      # C division truncates towards zero
            if op == '%':
                return (a - b * ((abs(a) // abs(b)) * (1 if (a >= 0) == (b >= 0) else -1))) if b else None
            if op in ('<', '<=', '>', '>=', '==', '!='):
                return int({'<': a < b, '<=': a <= b, '>': a > b, '>=': a >= b, '==': a == b, '!=': a != b}[op])
            if op == '&&':
                return int(bool(a) and bool(b))
            if op == '||':
                return int(bool(a) or bool(b))
            if op in ('&', '|', '<<', '>>'):
                return {'&': a & b, '|': a | b, '<<': a << b, '>>': a >> b}[op]
            return None
        if k == 'Un' and n['op'] == '!':
            a = self.ev(n['e'])
            return None if a is None else int(not a)
        if k == 'Un' and n['op'] == '-':
            a = self.ev(n['e'])
            return None if a is None else -a
        return None

    def effects(self, n):
        """record block loads / stores in evaluation order and apply assignments; returns nothing"""
        k = n['k']
        if k in ('Assign', 'CAssign'):
            self.effects(n['r'])
            l = strip_all(n['l'])
            if l['k'] == 'Ref' and l.get('id') is not None:
                if k == 'Assign':
                    v = self.ev(n['r'])
                else:
                    a, b = self.env.get(l['id']), self.ev(n['r'])
                    op = n['op'][:-1]
                    if a is None or b is None:
                        v = None
                    else:
                        sc = self.scale(l.get('ty')) if '*' in (l.get('ty') or '') else 1
                        v = {'+': a + b * sc, '-': a - b * sc}.get(op)
                if v is None:
                    self.env.pop(l['id'], None)
                else:
                    self.env[l['id']] = v
            return
        if k == 'Un' and n.get('op') in ('++', '--', 'pre++', 'post++', 'pre--', 'post--') or (k == 'Un' and ('++' in n.get('op', '') or '--' in n.get('op', ''))):
            l = strip_all(n['e'])
            if l['k'] == 'Ref' and l.get('id') in self.env:
                sc = self.scale(l.get('ty')) if '*' in (l.get('ty') or '') else 1
                self.env[l['id']] += sc if '++' in n['op'] else -sc
            return
        if k == 'Call':
            for a in n.get('a', []):
                self.effects(a)
            nm = n.get('name') or ''
            if re.search(r'(^|_)load.*(si128|vec_i128|u8)$|^vld1q', nm) and n.get('a'):
                self.loads.append((self.ev(n['a'][0]), len(self.stores)))
            elif re.search(r'(^|_)store.*(si128|vec_i128|u8)$|^vst1q', nm) and n.get('a'):
                self.stores.append((self.ev(n['a'][0]), len(self.loads)))
            return
        for key in ('e', 'l', 'r', 'c', 't', 'f'):
            if astq.is_node(n.get(key)):
                self.effects(n[key])

    def run(self, s):
        if s is None:
            return
        self.steps += 1
        if self.steps > self.limit:
            raise AnalysisBroken('AES-COVER: step limit in %s (loop does not terminate for this size?)' % self.f['q'])
        k = s['k']
        if k == 'Compound':
            for x in s['s']:
                if self.run(x) == 'ret':
                    return 'ret'
            return
        if k == 'Decl':
            for d in s['d']:
                if 'init' in d and astq.is_node(d['init']) and d['init']['k'] == 'InitList' and d.get('arrlen') is not None:
                    vs = [self.ev(e_) for e_ in d['init']['e']]
                    if None not in vs:
                        self.env[d['id']] = vs
                    continue
                if 'init' in d:
                    self.effects(d['init'])
                    v = self.ev(d['init'])
                    if v is not None and ('*' in (d.get('ty') or '') or re.search(r'\b(int|long|size_t|unsigned|char)\b', d.get('ty') or '')) and not any(t in (d.get('ty') or '') for t in ('__m128', 'rx_vec')):
                        self.env[d['id']] = v
            return
        if k == 'If':
            c = self.ev(s['c'])
            if c is None:
                raise AnalysisBroken('AES-COVER: branch %s in %s does not depend on the size alone' % (show(s['c'])[:60], self.f['q']))
            return self.run(s['t'] if c else s.get('e'))
        if k == 'While':
            while True:
                c = self.ev(s['c'])
                if c is None:
                    raise AnalysisBroken('AES-COVER: loop condition %s not evaluable in %s' % (show(s['c'])[:60], self.f['q']))
                if not c:
                    return
                if self.run(s['b']) == 'ret':
                    return 'ret'
        if k == 'For':
            self.run(s.get('init')) if astq.is_node(s.get('init')) and s['init']['k'] == 'Decl' else (self.effects(s['init']) if astq.is_node(s.get('init')) else None)
            while True:
                c = self.ev(s['c']) if astq.is_node(s.get('c')) else 1
                if c is None:
                    raise AnalysisBroken('AES-COVER: loop condition %s not evaluable in %s' % (show(s['c'])[:60], self.f['q']))
                if not c:
                    return
                if self.run(s['b']) == 'ret':
                    return 'ret'
                if astq.is_node(s.get('inc')):
                    self.effects(s['inc'])
        if k == 'Return':
            return 'ret'
        if k in ('Null',):
            return
        if k in ('Do', 'Switch', 'ForRange', 'Goto', 'Label'):
            raise AnalysisBroken('AES-COVER: unsupported control statement %s in %s' % (k, self.f['q']))
        self.effects(s)


def rule_cover(ctx, R, F, sizes=(64, 128, 4032, 4096, 4160, 8384, 69568)):
    if getattr(ctx, 'tier', 'quick') == 'thorough':
        sizes = tuple(sizes) + (2097152,)
    R.rule('AES-COVER', 'for every size that is a multiple of 64 the AES functions touch exactly the blocks of the buffer: the hash functions read block 0, 1, ... size/16 - 1 once each in ascending order, the generators '
           'write them once each in ascending order, the fused function does both and reads every block before it overwrites it; decided by evaluating the address-arithmetic slice of each function (loops, '
           'pointer and counter updates, loads / stores; AES rounds skipped) for a set of sizes around the internal 4096-byte prefetch distance', min_instances=40)
    BASES = (1 << 24, 2 << 24, 3 << 24, 4 << 24)
    plan = [('hashAes1Rx4', 'r', 0, 1), ('fillAes1Rx4', 'w', 2, 1), ('fillAes4Rx4', 'w', 2, 1), ('hashAndFillAes1Rx4', 'rw', 0, 1)]
    for fname, mode, bufp, sizep in plan:
        for soft in ('true', 'false'):
            f = F.func('%s<%s>' % (fname, soft))
            where = '%s:%d' % (f['file'], f['line'])
            R.saw(fn=f['q'])
            for S in sizes:
                env = {}
                for i, p in enumerate(f['params']):
                    if '*' in p['ty']:
                        env[p['id']] = BASES[i]
                    else:
                        env[p['id']] = S
                sl = _Slice(f, env, limit=40 * (S // 64) + 4000)
                sl.run(f['body'])
                base = BASES[bufp]
                want = [base + 16 * j for j in range(S // 16)]
                inbuf = lambda a: a is not None and base - (1 << 23) <= a < base + (1 << 23)
                rd = [a for a, _ in sl.loads if a is None or inbuf(a)]
                wr = [a for a, _ in sl.stores if a is None or inbuf(a)]
                ok = True
                found = []
                if 'r' in mode and rd != want:
                    ok = False
                    found.append('reads %d blocks%s' % (len(rd), _first_diff(rd, want, base)))
                if 'w' in mode and wr != want:
                    ok = False
                    found.append('writes %d blocks%s' % (len(wr), _first_diff(wr, want, base)))
                if 'r' not in mode and rd:
                    ok = False
                    found.append('reads the output buffer')
                if 'w' not in mode and wr:
                    ok = False
                    found.append('writes the input buffer')
                if mode == 'rw' and ok:
                    # the load of block j happens before the store to block j
                    lpos = {a: n for n, (a, nst) in enumerate(sl.loads) if inbuf(a)}
                    for a, nld in sl.stores:
                        if inbuf(a) and not (a in lpos and lpos[a] < nld):
                            ok = False
                            found.append('block at +%d overwritten before it is read' % (a - base))
                            break
                R.check(ok, '%s<%s> size %d' % (fname, soft, S), where, expected='%s blocks +0, +16, ... +%d once each, ascending' % ({'r': 'reads', 'w': 'writes', 'rw': 'reads then writes'}[mode], S - 16), found='; '.join(found) or 'as expected')


def _first_diff(got, want, base):
    for i, (a, b) in enumerate(zip(got, want)):
        if a != b:
            return ' (block #%d is at %s, expected +%d)' % (i, 'unknown address' if a is None else '+%d' % (a - base), b - base)
    if len(got) != len(want):
        return ' (expected %d)' % len(want)
    return ''


def rule_width(ctx, R, F):
    """AES-WIDTH: the size argument is size_t; nothing derived from it may lose bits on its way to the loop bound, and no counter narrower than the bound may be compared with it."""
    import domains
    from domains import KB, KBEval, type_info
    R.rule('AES-WIDTH', 'in the four AES functions no value derived from the size parameter is converted to an integer type too narrow for it (decided in the known-bits domain with the size unknown over all 64 bits: '
           'the bits dropped by the conversion must be provably zero), and no loop compares a counter narrower than 64 bits with a bound derived from the size that may exceed the counter\'s range; '
           'so the blocks touched are those of the whole size for every size_t value, not of the size modulo 2^32', min_instances=8)
    plan = [('hashAes1Rx4', 1), ('fillAes1Rx4', 1), ('fillAes4Rx4', 1), ('hashAndFillAes1Rx4', 1)]
    for fname, sizep in plan:
        for soft in ('true', 'false'):
            f = F.func('%s<%s>' % (fname, soft))
            where = '%s:%d' % (f['file'], f['line'])
            R.saw(fn=f['q'])
            sp = f['params'][sizep]
            ti = type_info(sp.get('ty'))
            if ti is None or ti[0] != 64:
                R.violation('%s<%s> size parameter' % (fname, soft), where, expected='64-bit size_t', found=sp.get('ty'))
                continue
            # taint: locals whose value depends on the size
            taint = {sp['id']}
            writes = {}
            for x in walk(f['body']):
                if x['k'] == 'Decl':
                    for d in x['d']:
                        if d.get('init') is not None:
                            writes.setdefault(d['id'], []).append(d['init'])
                elif x['k'] in ('Assign', 'CAssign'):
                    l = strip_all(x['l'])
                    if l['k'] == 'Ref' and l.get('id') is not None:
                        writes.setdefault(l['id'], []).append(x['r'] if x['k'] == 'Assign' else x)
                elif x['k'] == 'Un' and ('++' in x.get('op', '') or '--' in x.get('op', '')):
                    l = strip_all(x['e'])
                    if l['k'] == 'Ref' and l.get('id') is not None:
                        writes.setdefault(l['id'], []).append(None)
            changed = True
            while changed:
                changed = False
                for vid, ws in writes.items():
                    if vid not in taint and any(w is not None and any(y['k'] == 'Ref' and y.get('id') in taint for y in walk(w)) for w in ws):
                        taint.add(vid)
                        changed = True
            # known bits of single-assignment integer locals, the size itself being unknown
            env = {sp['id']: KB.top(64)}
            for x in walk(f['body']):
                if x['k'] == 'Decl':
                    for d in x['d']:
                        ws = writes.get(d['id'], [])
                        dt = type_info(d.get('ty'))
                        if dt is None:
                            continue
                        if len(ws) == 1 and ws[0] is not None and d.get('init') is not None:
                            try:
                                env[d['id']] = KBEval(F, env).ev(d['init']).resize(dt[0], dt[1])
                                continue
                            except (AnalysisBroken, KeyError, AttributeError):
                                pass
                        env[d['id']] = KB.top(dt[0])

            def tainted(n):
                return any(y['k'] == 'Ref' and y.get('id') in taint for y in walk(n))

            def kb_of(n):
                try:
                    return KBEval(F, env).ev(n)
                except (AnalysisBroken, KeyError, AttributeError):
                    t_ = type_info(n.get('ty'))
                    return KB.top(t_[0]) if t_ else None
            nconv = 0
            for x in walk(f['body']):
                if x['k'] == 'Cast' and x.get('ck') == 'IntegralCast':
                    tw, fw = type_info(x.get('ty')), type_info(x.get('from'))
                    if tw is None or fw is None or tw[0] >= fw[0] or not tainted(x['e']):
                        continue
                    nconv += 1
                    sub = kb_of(x['e'])
                    lost = ((1 << fw[0]) - 1) & ~((1 << tw[0]) - 1)
                    ok = sub is not None and (sub.zeros & lost) == lost
                    R.check(ok, '%s<%s>: %s converted to %s' % (fname, soft, show(x['e'])[:50], x.get('ty')), loc(x, f), expected='bits %d..%d of the operand are provably zero' % (tw[0], fw[0] - 1),
                            found='no bits lost' if ok else 'a size of 2^%d + 64 bytes is treated like 64 bytes: the conversion drops bits that depend on the size' % max(tw[0], 32))
            for lp in walk(f['body']):
                if lp['k'] not in ('For', 'While', 'Do') or not astq.is_node(lp.get('c')):
                    continue
                c = strip_all(lp['c'])
                if c['k'] != 'Bin' or c['op'] not in ('<', '<=', '>', '>=', '!='):
                    continue
                for a_, b_ in ((c['l'], c['r']), (c['r'], c['l'])):
                    cw = None
                    y = a_
                    while astq.is_node(y) and y['k'] == 'Cast':
                        if y.get('ck') == 'IntegralCast':
                            t1, f1 = type_info(y.get('ty')), type_info(y.get('from'))
                            if t1 and f1 and f1[0] < t1[0]:
                                cw = f1[0]
                        y = y['e']
                    if cw is None or not (astq.is_node(y) and y['k'] == 'Ref' and None in writes.get(y.get('id'), []) or (astq.is_node(y) and y['k'] == 'Ref' and len(writes.get(y.get('id'), [])) > 1)):
                        continue
                    if not tainted(b_):
                        continue
                    nconv += 1
                    sub = kb_of(b_)
                    high = ((1 << 64) - 1) & ~((1 << cw) - 1)
                    ok = sub is not None and (sub.zeros & high & ((1 << sub.w) - 1)) == (high & ((1 << sub.w) - 1))
                    R.check(ok, '%s<%s>: %d-bit counter %s compared with %s' % (fname, soft, cw, show(y), show(b_)[:40]), loc(lp, f), expected='the bound fits the counter',
                            found='fits' if ok else 'the bound can exceed 2^%d, which the counter never reaches' % cw)
            R.ok('%s<%s>: size-derived conversions examined' % (fname, soft), where, detail='%d narrowing conversion(s) / narrow counters depend on the size' % nconv)
