"""C15 rules: LIFE-TRY, LIFE-THROW, LIFE-ORDER, LIFE-VALUEINIT, LIFE-NULL, LIFE-PAIR, LIFE-ALLOCNULL."""
import re

import astq
from astq import CFG, calls, loc, show, showv, strip_all, val, walk
from core import AnalysisBroken
from rules.common import strip_targs

CREATORS = {
    'randomx_alloc_cache': dict(var_ty='randomx_cache *', release='randomx_release_cache'),
    'randomx_alloc_dataset': dict(var_ty='randomx_dataset *', release='randomx_release_dataset'),
    'randomx_create_vm': dict(var_ty='randomx_vm *', release='delete'),
}
RISKY_CALLS = ('allocMemory', 'allocate', 'setCache', 'setDataset', 'allocMemoryPages', 'allocLargePagesMemory')


def parents_map(root):
    par = {}
    for n in walk(root):
        for c in astq.children(n):
            par[id(c)] = n
    return par


def in_try(node, par):
    n = node
    while id(n) in par:
        p = par[id(n)]
        if p['k'] == 'Try':
            # only the try block counts, not the handlers
            for x in walk(p['b']):
                if x is node:
                    return p
        n = p
    return None


def rule_try(ctx, R, F):
    R.rule('LIFE-TRY', 'in randomx_alloc_cache / randomx_alloc_dataset / randomx_create_vm every allocation (new, allocMemory, VM allocate/setCache) lies inside a try block whose '
           'handler catches std::exception (a base of every type the library throws), releases the partial object, resets the pointer, and the function returns that pointer', min_instances=30)
    for name, info in CREATORS.items():
        f = F.func(name, unit='src/randomx.cpp')
        R.saw(fn=f['q'], unit='src/randomx.cpp')
        par = parents_map(f['body'])
        tries = [x for x in walk(f['body']) if x['k'] == 'Try']
        where = '%s:%d' % (f['file'], f['line'])
        if len(tries) != 1:
            R.violation(name + ' try block', where, expected='exactly one try block', found=len(tries))
            continue
        t = tries[0]
        risky = [x for x in walk(f['body']) if x['k'] == 'New' or (x['k'] == 'Call' and x.get('name') in RISKY_CALLS)]
        for x in risky:
            inside = in_try(x, par) is t
            what = ('new ' + strip_targs(x.get('aty', ''))) if x['k'] == 'New' else x.get('name')
            R.check(inside, '%s: %s@%s' % (name, what, x.get('ln')), loc(x, f), expected='inside the try block', found='inside' if inside else 'OUTSIDE try')
        # nothing else that can raise (a throwing std:: member such as the copy of a std::string, a call into library code that throws) may sit outside the
        # try block either: the functions are extern "C" and the object under construction would be lost
        seen_ids = set(id(x) for x in risky)
        for x, why in may_throw(F, f['body'], ()):
            if id(x) in seen_ids or in_try(x, par) is t:
                continue
            inh = any(z is x for h_ in t['h'] for z in walk(h_['b']))
            if inh:
                continue        # handlers are examined below
            R.check(False, '%s: %s@%s' % (name, show(x)[:50], x.get('ln')), loc(x, f), expected='inside the try block', found='%s OUTSIDE the try block' % why)
        # handler
        hs = t['h']
        okh = len(hs) >= 1 and any(h.get('tyq') == 'std::exception' or h['ty'] == '...' for h in hs)
        R.check(okh, name + ' handler type', loc(t, f), expected='catch (std::exception&) or catch (...)', found=[h['ty'] for h in hs])
        # the result variable
        var = None
        for x in walk(f['body']):
            if x['k'] == 'Decl':
                for d in x['d']:
                    if d.get('ty') == info['var_ty'] and 'init' in d and strip_all(d['init'])['k'] == 'Null':
                        var = d
        if var is None:
            R.violation(name + ' result variable', where, expected='%s x = nullptr' % info['var_ty'], found='not found')
            continue
        vid = var['id']
        for h in hs:
            hb = h['b']
            rel = []
            for x in walk(hb):
                if info['release'] == 'delete' and x['k'] == 'Delete' and astq.ref_id(x['e']) == vid if hasattr(astq, 'ref_id') else False:
                    rel.append(x)
            if info['release'] == 'delete':
                rel = [x for x in walk(hb) if x['k'] == 'Delete' and strip_all(x['e'])['k'] == 'Ref' and strip_all(x['e']).get('id') == vid]
            else:
                rel = [x for x in walk(hb) if x['k'] == 'Call' and x.get('name') == info['release'] and strip_all(x['a'][0])['k'] == 'Ref' and strip_all(x['a'][0]).get('id') == vid]
            reset = [x for x in walk(hb) if x['k'] == 'Assign' and strip_all(x['l'])['k'] == 'Ref' and strip_all(x['l']).get('id') == vid and strip_all(x['r'])['k'] == 'Null']
            R.check(len(rel) == 1 and len(reset) >= 1, name + ' handler releases partial object', '%s:%s' % (f['file'], h.get('ln')), expected='%s(x); x = nullptr' % info['release'],
                    found='%d releases, %d resets' % (len(rel), len(reset)))
            # no return / rethrow / extra allocation in the handler
            extra = [x for x in walk(hb) if x['k'] in ('Return', 'Throw', 'New') or (x['k'] == 'Call' and x.get('name') in RISKY_CALLS + tuple(CREATORS))]
            R.check(not extra, name + ' handler has no other exit or allocation', '%s:%s' % (f['file'], h.get('ln')), expected='release and fall through to the common return', found=[show(x)[:60] for x in extra] or 'none')
        rets = [x for x in walk(f['body']) if x['k'] == 'Return']
        bad = [loc(x, f) for x in rets if not (x.get('e') and ((strip_all(x['e'])['k'] == 'Ref' and strip_all(x['e']).get('id') == vid) or strip_all(x['e'])['k'] == 'Null'))]
        R.check(not bad, name + ' returns the (possibly null) result variable', where, expected='every return yields x or nullptr', found=bad or 'ok')
        # returns inside the try block would skip nothing, but a return of a non-null partially built object is impossible only if
        # the last return is after the try: check the final statement
        last = f['body']['s'][-1]
        R.check(last['k'] == 'Return' and strip_all(last['e'])['k'] == 'Ref' and strip_all(last['e']).get('id') == vid, name + ' final return', loc(last, f), expected='return x', found=show(last))


def rule_throw(ctx, R, F):
    R.rule('LIFE-THROW', 'every throw expression in the library throws a type derived from std::exception (so the catch (std::exception&) handlers see it)', min_instances=6)
    n = 0
    for f in F.all_funcs():
        if not f.get('body'):
            continue
        for x in walk(f['body']):
            if x['k'] == 'Throw':
                n += 1
                bases = x.get('bases', [])
                R.check('std::exception' in bases, 'throw in %s' % strip_targs(f['q']) + ('<%s>' % ','.join(f.get('targs', [])) if f.get('targs') else ''), loc(x, f), expected='derives from std::exception', found=x.get('tty'))
    if n < 6:
        raise AnalysisBroken('LIFE-THROW: only %d throw expressions found' % n)


def rule_allocnull(ctx, R, F):
    R.rule('LIFE-ALLOCNULL', 'a failed memory request surfaces as an exception: both allocMemory implementations throw when the underlying allocator returns null, class-level operator new throws on null, '
           'the JIT constructor throws when its page mapping fails (callers such as VmBase::allocate do not test the result)', min_instances=8)
    fs = F.funcs(r'^randomx::(AlignedAllocator<\d+>|LargePageAllocator)::allocMemory$') + F.funcs(r'::operator new$') + F.funcs(r'^randomx::JitCompiler\w+::JitCompiler\w+$')
    for f in fs:
        R.saw(fn=f['q'])
        import decoder as _dec

        def null_atom(c):
            """(expression text, True if the condition holds when the expression is null) for X == nullptr, X != nullptr, !X, X"""
            c = strip_all(c)
            pol = False       # `if (X)` holds when X is NOT null
            while c['k'] == 'Un' and c.get('op') == '!':
                pol = not pol
                c = strip_all(c['e'])
            if c['k'] == 'Bin' and c['op'] in ('==', '!='):
                l, r = strip_all(c['l']), strip_all(c['r'])
                for x_, y_ in ((l, r), (r, l)):
                    if y_['k'] == 'Null' or val(y_) == 0:
                        return show(x_), (c['op'] == '==') != pol
                return None
            if c['k'] in ('Ref', 'Mem') and '*' in (c.get('ty') or ''):
                return show(c), pol
            return None
        tested = set()
        bad = []
        for p_ in _dec.paths(f['body']):
            nulls = set()
            for c_, t_ in p_.conds:
                na = null_atom(c_)
                if na is not None:
                    tested.add(na[0])
                    if na[1] == t_:
                        nulls.add(na[0])
            throws = any(x['k'] == 'Throw' for e_ in p_.events if not isinstance(e_, tuple) for x in walk(e_))
            if nulls and not throws:
                bad.append('a path on which %s is null does not throw' % sorted(nulls))
        ok = bool(tested) and not bad
        found = ('null tests on %s' % sorted(tested)) if ok else (bad[:2] or 'no test of the allocation result against nullptr')
        R.check(ok, strip_targs(f['q']) + ('<%s>' % f['q'].split('<', 1)[1].rsplit('>', 1)[0] if '<' in f['q'] else ''), '%s:%d' % (f['file'], f['line']), expected='every path on which the allocation result is null ends in a throw', found=found)
    # VmBase::allocate relies on it
    for f in F.funcs(r'^randomx::VmBase<.*>::allocate$'):
        cs = [c for c in calls(f['body']) if c.get('name') == 'allocMemory']
        R.check(len(cs) == 1 and val(cs[0]['a'][0]) == F.const('randomx::ScratchpadSize'), f['q'] + ' scratchpad request', '%s:%d' % (f['file'], f['line']), expected='Allocator::allocMemory(ScratchpadSize)', found=[showv(c) for c in cs])


def rule_order(ctx, R, F):
    R.rule('LIFE-ORDER', 'in every switch case of randomx_alloc_cache / branch of randomx_alloc_dataset the dealloc function pointer is assigned before the first expression that can throw, '
           'so that the handler\'s release call finds a valid dealloc', min_instances=6)
    f = F.func('randomx_alloc_cache', unit='src/randomx.cpp')
    sw = [x for x in walk(f['body']) if x['k'] == 'Switch']
    if len(sw) != 1:
        raise AnalysisBroken('randomx_alloc_cache: expected one switch')
    groups = []
    cur = None
    for s in sw[0]['b']['s']:
        x = s
        lab = None
        while x['k'] in ('Case', 'Default'):
            lab = 'default' if x['k'] == 'Default' else val(x['lhs'])
            x = x['sub']
        if lab is not None:
            cur = dict(label=lab, stmts=[])
            groups.append(cur)
        if cur is not None:
            cur['stmts'].append(x)
    for g in groups:
        if g['label'] == 'default':
            continue
        first_risky = None
        dealloc_at = None
        for idx, st in enumerate(g['stmts']):
            for x in walk(st):
                if (x['k'] == 'New' or (x['k'] == 'Call' and x.get('name') in RISKY_CALLS)) and first_risky is None:
                    first_risky = idx
                if x['k'] == 'Assign' and show(x['l']).endswith('->dealloc') and dealloc_at is None:
                    dealloc_at = idx
        R.check(dealloc_at is not None and first_risky is not None and dealloc_at < first_risky, 'randomx_alloc_cache case %s' % g['label'], loc(g['stmts'][0], f),
                expected='dealloc assigned before first allocation', found='dealloc at stmt %s, first allocation at stmt %s' % (dealloc_at, first_risky))
    f = F.func('randomx_alloc_dataset', unit='src/randomx.cpp')
    for i in [x for x in walk(f['body']) if x['k'] == 'If' and 'RANDOMX_FLAG_LARGE_PAGES' in show(x['c'])]:
        for arm, nm in ((i['t'], 'large-pages'), (i['e'], 'default')):
            order = []
            for x in walk(arm):
                if x['k'] == 'Assign' and show(x['l']).endswith('->dealloc'):
                    order.append('dealloc')
                if x['k'] == 'Call' and x.get('name') == 'allocMemory':
                    order.append('alloc')
            R.check(order == ['dealloc', 'alloc'], 'randomx_alloc_dataset %s arm' % nm, loc(i, f), expected=['dealloc', 'alloc'], found=order)


def rule_valueinit(ctx, R, F):
    R.rule('LIFE-VALUEINIT', 'new randomx_cache() / new randomx_dataset() are value-initialisations (jit, dealloc, memory are null in a partial object); randomx_vm::scratchpad and cachePtr have null default initialisers', min_instances=4)
    for name, ty in (('randomx_alloc_cache', 'randomx_cache'), ('randomx_alloc_dataset', 'randomx_dataset')):
        f = F.func(name, unit='src/randomx.cpp')
        news = [x for x in walk(f['body']) if x['k'] == 'New' and x.get('aty') == ty]
        ok = len(news) == 1 and news[0].get('initstyle') in ('call', 'list') and (news[0].get('init') or {}).get('zeroinit') is True
        R.check(ok, '%s: new %s()' % (name, ty), loc(news[0], f) if news else '%s:%d' % (f['file'], f['line']), expected='value-initialisation (zero-initialised members)',
                found='initstyle %s zeroinit %s' % (news[0].get('initstyle'), (news[0].get('init') or {}).get('zeroinit')) if news else 'no new-expression')
    vm = F.record('randomx_vm')
    def dflt(fields, name):
        for fl in fields:
            if fl['name'] == name:
                return fl.get('init')
            for a in fl.get('anon_fields', []) or []:
                if a['name'] == name:
                    return a.get('init')
        return None
    for nm in ('scratchpad', 'cachePtr'):
        i = dflt(vm['fields'], nm)
        R.check(i is not None and strip_all(i)['k'] == 'Null', 'randomx_vm::%s = nullptr' % nm, '%s:%d' % (vm['file'], vm['line']), expected='nullptr default member initialiser', found=show(i) if i else None)
    for rec, nm in (('randomx_cache', 'memory'), ('randomx_dataset', 'memory')):
        i = dflt(F.record(rec)['fields'], nm)
        R.check(i is not None and strip_all(i)['k'] == 'Null', '%s::%s = nullptr' % (rec, nm), 'src/dataset.hpp', expected='nullptr default member initialiser', found=show(i) if i else None)


def release_guards(f, node, par):
    """conditions (If nodes) enclosing a statement inside f"""
    out = []
    n = node
    while id(n) in par:
        p = par[id(n)]
        if p['k'] == 'If':
            out.append(p)
        n = p
    return out


def rule_null_pair(ctx, R, F):
    R.rule('LIFE-NULL', 'release functions tolerate partial objects and release everything else: each resource release in deallocCache / deallocDataset / freePagedMemory is guarded only by a null test of that same '
           'resource, there is no early return, and the API release functions call dealloc and then delete the object', min_instances=8)
    for f in F.funcs(r'^randomx::dealloc(Cache|Dataset)<'):
        R.saw(fn=f['q'])
        par = parents_map(f['body'])
        rets = [x for x in walk(f['body']) if x['k'] == 'Return']
        R.check(not rets, f['q'] + ' no early return', '%s:%d' % (f['file'], f['line']), expected='no return statement', found=[loc(x, f) for x in rets] or 'none')
        rel = [x for x in walk(f['body']) if (x['k'] == 'Call' and x.get('name') == 'freeMemory') or x['k'] == 'Delete']
        want = 2 if 'Cache' in f['q'] else 1
        R.check(len(rel) == want, f['q'] + ' releases', '%s:%d' % (f['file'], f['line']), expected='%d releases (memory%s)' % (want, ', jit' if want == 2 else ''), found=[show(x) for x in rel])
        for x in rel:
            res = show(x['a'][0]) if x['k'] == 'Call' else show(x['e'])
            guards = release_guards(f, x, par)
            okg = len(guards) == 1 and show(guards[0]['c']).replace(' ', '') in ('(%s!=nullptr)' % res, '(nullptr!=%s)' % res) or (len(guards) == 0 and x['k'] == 'Delete')
            R.check(okg, '%s release of %s' % (f['q'], res), loc(x, f), expected='guarded by (%s != nullptr) only' % res, found=[show(g['c']) for g in guards])
    f = F.func('freePagedMemory')
    par = parents_map(f['body'])
    mu = [c for c in calls(f['body']) if c.get('name') == 'munmap']
    R.check(len(mu) == 1 and len(release_guards(f, mu[0], par)) == 1, 'freePagedMemory null test', '%s:%d' % (f['file'], f['line']), expected='if (ptr) munmap(ptr, bytes)', found=[show(g['c']) for g in release_guards(f, mu[0], par)] if mu else None)
    with astq.renaming({p['id']: 'P%d' % i for i, p in enumerate(f['params'])}):
        R.check(bool(mu) and [show(a) for a in mu[0]['a']] == ['P0', 'P1'], 'freePagedMemory unmaps the given range', '%s:%d' % (f['file'], f['line']), expected='munmap(ptr, bytes)', found=show(mu[0]) if mu else None)
    for name, fld in (('randomx_release_cache', 'dealloc'), ('randomx_release_dataset', 'dealloc')):
        f = F.func(name, unit='src/randomx.cpp')
        with astq.renaming({f['params'][0]['id']: 'P0'}):
            seq = [show(s) for s in f['body']['s'] if not show(s).startswith('(void)')]
        R.check(seq == ['(*P0->dealloc)(P0)', 'delete P0'], name, '%s:%d' % (f['file'], f['line']), expected=['(*P0->dealloc)(P0)', 'delete P0'], found=seq)
    f = F.func('randomx_destroy_vm', unit='src/randomx.cpp')
    with astq.renaming({f['params'][0]['id']: 'P0'}):
        seq = [show(s) for s in f['body']['s'] if not show(s).startswith('(void)')]
    R.check(seq == ['delete P0'], 'randomx_destroy_vm', '%s:%d' % (f['file'], f['line']), expected=['delete P0'], found=seq)
    vm = F.record('randomx_vm')
    dt = [m for m in vm['methods'] if m['name'].startswith('~')]
    R.check(bool(dt) and dt[0]['virtual'], 'randomx_vm destructor is virtual', '%s:%d' % (vm['file'], vm['line']), expected='virtual', found=dt[0]['virtual'] if dt else None)

    R.rule('LIFE-PAIR', 'every owned resource is released by the matching call with the same allocator and the same size: cache / dataset memory, scratchpad, JIT code pages, '
           'cache->jit, and the class-level operator new / operator delete of every VM class', min_instances=30)
    cs = F.const('randomx::CacheSize')
    ds = F.const('randomx::DatasetSize')
    sp = F.const('randomx::ScratchpadSize')

    def alloc_cls(c):
        return (c.get('cls') or '').replace('randomx::', '')

    # cache: per switch case allocator of dealloc == allocator of allocMemory, size == CacheSize == size freed
    f = F.func('randomx_alloc_cache', unit='src/randomx.cpp')
    sw = [x for x in walk(f['body']) if x['k'] == 'Switch'][0]
    cur = None
    cases = []
    for s in sw['b']['s']:
        x = s
        lab = None
        while x['k'] in ('Case', 'Default'):
            lab = 'default' if x['k'] == 'Default' else val(x['lhs'])
            x = x['sub']
        if lab is not None:
            cur = dict(label=lab, stmts=[])
            cases.append(cur)
        if cur is not None:
            cur['stmts'].append(x)
    jitflag = F.enumerator('RANDOMX_FLAG_JIT')
    lpflag = F.enumerator('RANDOMX_FLAG_LARGE_PAGES')
    for g in cases:
        if g['label'] == 'default':
            continue
        de = al = None
        jit_new = jit_null = False
        init_fn = dsinit = None
        for st in g['stmts']:
            for x in walk(st):
                if x['k'] == 'Assign' and show(x['l']).endswith('->dealloc'):
                    m = re.search(r'deallocCache<(.*)>', show(x['r']))
                    de = m.group(1).replace('randomx::', '') if m else show(x['r'])
                if x['k'] == 'Call' and x.get('name') == 'allocMemory':
                    al = (alloc_cls(x), val(x['a'][0]))
                if x['k'] == 'Assign' and show(x['l']).endswith('->jit'):
                    jit_new = strip_all(x['r'])['k'] == 'New'
                    jit_null = strip_all(x['r'])['k'] == 'Null'
                if x['k'] == 'Assign' and show(x['l']).endswith('->initialize'):
                    init_fn = show(x['r'])
                if x['k'] == 'Assign' and show(x['l']).endswith('->datasetInit'):
                    dsinit = show(x['r'])
        want_alloc = 'LargePageAllocator' if g['label'] & lpflag else 'AlignedAllocator<64>'
        R.check(de == want_alloc and al == (want_alloc, cs), 'cache memory, case %s' % g['label'], loc(g['stmts'][0], f), expected='%s: dealloc and allocMemory(CacheSize=%d)' % (want_alloc, cs), found='dealloc<%s>, alloc %s' % (de, al))
        want_jit = bool(g['label'] & jitflag)
        R.check(jit_new == want_jit and jit_null == (not want_jit), 'cache->jit, case %s' % g['label'], loc(g['stmts'][0], f), expected='new JitCompiler()' if want_jit else 'nullptr', found='new' if jit_new else 'nullptr' if jit_null else 'unassigned')
        exp_init = '&randomx::initCacheCompile' if want_jit else '&randomx::initCache'
        R.check(init_fn == exp_init, 'cache->initialize, case %s' % g['label'], loc(g['stmts'][0], f), expected=exp_init, found=init_fn, rule='LIFE-PAIR')
        exp_ds = 'cache->jit.getDatasetInitFunc()' if want_jit else '&randomx::initDataset'
        R.check(dsinit == exp_ds, 'cache->datasetInit, case %s' % g['label'], loc(g['stmts'][0], f), expected=exp_ds, found=dsinit, rule='LIFE-PAIR')
    labels = sorted(g['label'] for g in cases if g['label'] != 'default')
    R.check(labels == sorted({0, jitflag, lpflag, jitflag | lpflag}), 'randomx_alloc_cache cases', '%s:%d' % (f['file'], f['line']), expected=sorted({0, jitflag, lpflag, jitflag | lpflag}), found=labels)
    for f in F.funcs(r'^randomx::deallocCache<'):
        a = f['q'].split('<', 1)[1].rsplit('>', 1)[0].replace('randomx::', '')
        fm = [c for c in calls(f['body']) if c.get('name') == 'freeMemory']
        R.check(len(fm) == 1 and alloc_cls(fm[0]) == a and val(fm[0]['a'][1]) == cs and show(fm[0]['a'][0]).endswith('->memory'), f['q'] + ' frees', '%s:%d' % (f['file'], f['line']), expected='%s::freeMemory(cache->memory, %d)' % (a, cs), found=[showv(c) for c in fm])
        de = [x for x in walk(f['body']) if x['k'] == 'Delete']
        R.check(len(de) == 1 and show(de[0]['e']).endswith('->jit'), f['q'] + ' deletes jit', '%s:%d' % (f['file'], f['line']), expected='delete cache->jit', found=[show(x) for x in de])
    f = F.func('randomx_alloc_dataset', unit='src/randomx.cpp')
    for i in [x for x in walk(f['body']) if x['k'] == 'If' and 'RANDOMX_FLAG_LARGE_PAGES' in show(x['c'])]:
        for arm, want in ((i['t'], 'LargePageAllocator'), (i['e'], 'AlignedAllocator<64>')):
            de = al = None
            for x in walk(arm):
                if x['k'] == 'Assign' and show(x['l']).endswith('->dealloc'):
                    m = re.search(r'deallocDataset<(.*)>', show(x['r']))
                    de = m.group(1).replace('randomx::', '') if m else None
                if x['k'] == 'Call' and x.get('name') == 'allocMemory':
                    al = (alloc_cls(x), val(x['a'][0]))
            R.check(de == want and al == (want, ds), 'dataset memory, %s arm' % want, loc(i, f), expected='%s dealloc and allocMemory(DatasetSize=%d)' % (want, ds), found='dealloc<%s>, alloc %s' % (de, al))
    for f in F.funcs(r'^randomx::deallocDataset<'):
        a = f['q'].split('<', 1)[1].rsplit('>', 1)[0].replace('randomx::', '')
        fm = [c for c in calls(f['body']) if c.get('name') == 'freeMemory']
        R.check(len(fm) == 1 and alloc_cls(fm[0]) == a and val(fm[0]['a'][1]) == ds, f['q'] + ' frees', '%s:%d' % (f['file'], f['line']), expected='%s::freeMemory(dataset->memory, %d)' % (a, ds), found=[showv(c) for c in fm])
    # scratchpad
    for f in F.funcs(r'^randomx::VmBase<.*>::~VmBase$'):
        a = f['q'].split('VmBase<', 1)[1].rsplit(',', 1)[0].replace('randomx::', '')
        fm = [c for c in calls(f['body']) if c.get('name') == 'freeMemory']
        R.check(len(fm) == 1 and alloc_cls(fm[0]) == a and val(fm[0]['a'][1]) == sp and show(fm[0]['a'][0]) == 'this->scratchpad', f['q'], '%s:%d' % (f['file'], f['line']), expected='%s::freeMemory(scratchpad, %d)' % (a, sp), found=[showv(c) for c in fm])
    for f in F.funcs(r'^randomx::VmBase<.*>::allocate$'):
        a = f['q'].split('VmBase<', 1)[1].rsplit(',', 1)[0].replace('randomx::', '')
        am = [c for c in calls(f['body']) if c.get('name') == 'allocMemory']
        asg = [x for x in walk(f['body']) if x['k'] == 'Assign' and show(x['l']) == 'this->scratchpad']
        R.check(len(am) == 1 and alloc_cls(am[0]) == a and val(am[0]['a'][0]) == sp and len(asg) == 1, f['q'], '%s:%d' % (f['file'], f['line']), expected='scratchpad = %s::allocMemory(%d)' % (a, sp), found=[showv(c) for c in am])
    # JIT code pages
    for cls in sorted({strip_targs(f['q']).rsplit('::', 1)[0] for f in F.funcs(r'^randomx::JitCompiler\w+::~JitCompiler')}):
        short = cls.split('::')[-1]
        ctor = F.func('%s::%s' % (cls, short))
        dtor = F.func('%s::~%s' % (cls, short))
        am = [c for c in calls(ctor['body']) if c.get('name') in ('allocMemoryPages',)]
        fm = [c for c in calls(dtor['body']) if c.get('name') in ('freePagedMemory',)]
        sizes_a = sorted(val(c['a'][0]) for c in am)
        sizes_f = sorted(val(c['a'][1]) for c in fm)
        R.check(len(am) >= 1 and len(am) == len(fm) and sizes_a == sizes_f and None not in sizes_a, '%s code pages' % short, '%s:%d' % (ctor['file'], ctor['line']), expected='allocMemoryPages(N) / freePagedMemory(code, N) with equal N', found='alloc %s free %s' % (sizes_a, sizes_f))
        # the destructor releases the member the constructor assigned
        asg = [show(x['l']) for x in walk(ctor['body']) if x['k'] == 'Assign' and any(c.get('name') == 'allocMemoryPages' for c in calls(x['r']))]
        fr = [show(c['a'][0]) for c in fm]
        R.check(sorted(asg) == sorted(fr), '%s frees what it mapped' % short, '%s:%d' % (dtor['file'], dtor['line']), expected=sorted(asg), found=sorted(fr))
    # class-level operator new/delete pairs
    n = 0
    for r in F.records(r'^randomx::(Interpreted|Compiled)(Light)?Vm<'):
        onew = [m for m in r['methods'] if m['name'] == 'operator new']
        odel = [m for m in r['methods'] if m['name'] == 'operator delete']
        if not onew and not odel:
            continue
        n += 1
        if not (onew and odel):
            R.violation(r['q'] + ' operator new/delete', '%s:%d' % (r['file'], r['line']), expected='both declared', found='new %d delete %d' % (len(onew), len(odel)))
            continue
        fn_, fd_ = F.func(onew[0]['q']), F.func(odel[0]['q'])
        an = [c for c in calls(fn_['body']) if c.get('name') == 'allocMemory']
        ad = [c for c in calls(fd_['body']) if c.get('name') == 'freeMemory']
        okp = len(an) == 1 and len(ad) == 1 and alloc_cls(an[0]) == alloc_cls(ad[0]) and val(ad[0]['a'][1]) == r.get('size')
        R.check(okp, r['q'] + ' operator new/delete', '%s:%d' % (r['file'], r['line']), expected='same allocator, sizeof(class)=%s' % r.get('size'),
                found='new via %s, delete via %s size %s' % ([alloc_cls(c) for c in an], [alloc_cls(c) for c in ad], [val(c['a'][1]) for c in ad]))
    if n < 24:
        raise AnalysisBroken('LIFE-PAIR: only %d VM class instantiations with operator new/delete' % n)


# ---------------------------------------------------------------------------------------------
NOTHROW_C = re.compile(r'^(mem(cpy|set|move|cmp)|__builtin_.*|str(len|cmp|ncmp)|abs|std::(min|max|move|forward|swap|addressof|memcpy|memset))$')
THROWING_STD = ('reserve', 'resize', 'push_back', 'emplace_back', 'assign', 'insert', 'emplace', 'append', 'at', 'operator=', 'operator+=', 'shrink_to_fit', 'vector', 'basic_string', 'string', 'function')
NOTHROW_STD = ('size', 'data', 'begin', 'end', 'cbegin', 'cend', 'empty', 'clear', 'operator[]', 'front', 'back', 'capacity', 'c_str', 'length', 'get', 'swap', 'pop_back', 'max', 'min', 'move', 'forward', 'operator==', 'operator!=', 'compare',
               'memory_order', 'load', 'store', 'exchange', 'fetch_add', 'fetch_sub', 'what')


def may_throw(F, node, acquired, depth=0, seen=None):
    """[(node, reason)] for expressions below `node` that can raise an exception; a throw that is guarded by a null test of the acquired pointer is
    the failure path of the acquisition itself (nothing has been acquired) and is not counted"""
    seen = seen if seen is not None else set()
    out = []
    par = parents_map(node)
    skip = set()
    for x in walk(node):
        if id(x) in skip:
            continue
        if x['k'] == 'Throw':
            guarded = False
            n = x
            while id(n) in par:
                n = par[id(n)]
                if n['k'] == 'If':
                    c = show(n['c'])
                    if acquired and any(a and a in c for a in acquired) and ('nullptr' in c or c.strip('()').startswith('!') or '== 0' in c):
                        guarded = True
                        break
            for y in walk(x):
                skip.add(id(y))       # the exception object of this throw is part of it
            if not guarded:
                out.append((x, 'throw'))
        elif x['k'] == 'New':
            out.append((x, 'operator new'))
        elif x['k'] == 'Construct' and not x.get('trivial') and str(x.get('ty', '')).startswith('std::') and x.get('a'):
            out.append((x, 'constructor of %s' % x.get('ty')))
        elif x['k'] == 'Call':
            nm = x.get('name') or ''
            fn = x.get('fn') or ''
            cls = x.get('cls') or ''
            if x.get('builtin') or NOTHROW_C.match(nm) or NOTHROW_C.match(fn):
                continue
            if cls.startswith('std::') or fn.startswith('std::'):
                base = nm
                if base in THROWING_STD:
                    out.append((x, 'std:: member %s (may allocate)' % nm))
                elif base in NOTHROW_STD:
                    continue
                else:
                    raise AnalysisBroken('LIFE-CTOR: exception behaviour of %s is not in the checker\'s tables' % (fn or nm))
                continue
            if fn and F.has_func(fn) and F.func(fn).get('body') is not None:
                if fn in seen or depth > 3:
                    continue
                seen.add(fn)
                sub = may_throw(F, F.func(fn)['body'], (), depth + 1, seen)
                if sub:
                    out.append((x, 'call of %s, which contains %s' % (fn, sub[0][1])))
                continue
            if x.get('ext') or not fn:
                # C library / assembly entry points / function pointers into generated code: cannot unwind through them
                continue
    return out


def rule_ctor(ctx, R, config='K0', classes=('randomx::JitCompilerX86',)):
    F = astq.Facts(ctx, config)
    R.rule('LIFE-CTOR', 'a constructor that maps memory which only its destructor unmaps performs nothing that can throw after the mapping succeeded (the destructor of a partially constructed object never runs, '
           'so an exception there leaks the mapping although the creating API call reports failure)', min_instances=1)
    for cls in classes:
        short = cls.split('::')[-1]
        if not F.has_func('%s::%s' % (cls, short)):
            raise AnalysisBroken('LIFE-CTOR: constructor of %s not found in %s' % (cls, config))
        f = F.func('%s::%s' % (cls, short))
        d = F.func('%s::~%s' % (cls, short))
        released = [show(c['a'][0]).replace('this->', '') for c in calls(d['body']) if c.get('name') in ('freePagedMemory',)]
        if not released:
            raise AnalysisBroken('LIFE-CTOR: destructor of %s releases nothing' % cls)
        ini = [i for i in f.get('inits', []) if astq.is_node(i.get('e'))]
        seq = [i['e'] for i in ini] + (f['body']['s'] if f['body']['k'] == 'Compound' else [f['body']])
        ALLOC = ('allocMemoryPages', 'allocLargePagesMemory')

        def targets(idx, st):
            """names of the members that receive a mapping in this statement"""
            out = []
            if idx < len(ini):
                if any(c.get('name') in ALLOC for c in calls(st)):
                    out.append(ini[idx]['member'])
                return out
            for x in walk(st):
                if x['k'] == 'Assign' and any(c.get('name') in ALLOC for c in calls(x['r'])):
                    out.append(show(x['l']).replace('this->', '').strip('()'))
            if not out and any(c.get('name') in ALLOC for c in calls(st)):
                out.append('?')
            return out
        acq = None
        for idx, st in enumerate(seq):
            if any(c.get('name') in ALLOC for c in calls(st)):
                acq = idx
                break
        if acq is None:
            raise AnalysisBroken('LIFE-CTOR: %s::%s maps nothing' % (cls, short))
        bad = []
        held = targets(acq, seq[acq])
        for idx in range(acq + 1, len(seq)):
            st = seq[idx]
            held = held + [t for t in targets(idx, st) if t not in held]
            # a throw under `if (p == nullptr)` is the failure path of p's own mapping; it leaks nothing only when p is the one mapping made so far
            excuse = tuple(held) + tuple('this->' + r for r in held) if len(held) == 1 and held[0] != '?' else ()
            bad += may_throw(F, st, excuse)
        R.check(not bad, '%s constructor [%s]' % (short, config), '%s:%d' % (f['file'], f['line']), expected='nothing that can throw after allocMemoryPages succeeded',
                found=['%s at line %s' % (why, x.get('ln')) for x, why in bad[:3]] or 'nothing')
