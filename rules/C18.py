"""C18 The IMUL_RCP reciprocal is exact for every divisor."""
import astq
from rules import decode, genreset, jit, rv64, sshash, x86hsem

LEVEL = 'other'
TECHNIQUE = ('control-dependence check of the no-op guard in every engine (decoder path enumeration) + definition check of the power-of-two predicate; IR effect check of the reciprocal routine'
         '; evaluation of the literal-slot arithmetic of the RVV generator for every literal index; needs / must-set summaries (generator state); symbolic execution of the x86 IMUL_RCP handler')
CLAIM = ('Decides statically the no-op clause of the property: in the interpreter decoder and in the x86/A64/RV64 emitters every effect of IMUL_RCP (field assignment, emitted code, '
         'last-writer mark) is control-dependent on !isZeroOrPowerOf2(zero-extended imm32) and the no-op arm does nothing. The exactness of randomx_reciprocal / randomx_reciprocal_fast '
         'for all 2^32 divisors is number theory over runtime values and is not claimed (not decidable by a static argument in reach).'
         ' Also: randomx_reciprocal is a pure function of its argument (no store, no mutable global, no call) in the compiled IR (RCP-PURE), so the multiplier cannot depend on history or on other threads.'
         ' The RV64 vector generator is included in RCP-NOOP / LW-SIB.'
         ' The multiplier an IMUL_RCP instruction uses is the reciprocal of its own divisor: on x86 the emitted bytes are `mov rax, reciprocal; imul dst, rax` for every dst (X86-HSEM); in the RVV generator literal n is stored in slot n and the emitted instruction multiplies by slot n for every n below RANDOMX_PROGRAM_MAX_SIZE (RVV-RCPPOOL; this rule found the displacement overflow repaired by b14ff87); the literal counters of all back-ends restart with every program (GEN-RESET).')
LEVEL_NOTE = 'Trusted: clang AST. Not covered: the numeric clause reciprocal(d) == floor(2^(63+bitlen d)/d) and fast == portable.'
EXPLANATION = ('RCP-NOOP evaluated on the IMUL_RCP decoder block and on h_IMUL_RCP of each JIT back-end; RCP-USE lists which reciprocal routine each engine calls. RCP-PURE on the LLVM IR of reciprocal.c; LW-SIB for the three back-ends.'
         ' RVV-RCPPOOL, GEN-RESET x3, X86-HSEM.')


def rule_rcp_pure(ctx, R):
    """[RCP-PURE] the reciprocal is a function of its argument alone"""
    import irq
    from core import AnalysisBroken
    R.rule('RCP-PURE', 'randomx_reciprocal (and randomx_reciprocal_fast where it is C code) is a pure function of its argument: no store, no load from mutable global state, no call other than compiler intrinsics '
           '(a memo or any other state would make the multiplier depend on history and on other threads)', min_instances=1)
    M = irq.Module(ctx.ir())
    mutable = {g['name'] for g in M.m['globals'] if not g['constant']}
    n = 0
    for name in ('randomx_reciprocal', 'randomx_reciprocal_fast'):
        f = M.fn.get(name)
        if f is None or not f['defined']:
            continue
        n += 1
        bad = []
        for i, addr, kind in M.write_sites(f):
            roots = M.roots(f, addr)
            if not all(r[0] == 'alloca' for r in roots):
                bad.append('%s to %s' % (kind, sorted(set(r[1] if len(r) > 1 else r[0] for r in roots))))
        for i in M.insts(f):
            if i['op'] == 'load':
                for r in M.roots(f, i['ops'][0]):
                    if r[0] == 'g' and r[1] in mutable:
                        bad.append('load from mutable global %s' % r[1])
            if i['op'] in ('call', 'invoke'):
                c = i.get('callee')
                if c is None or not (c.startswith('llvm.') or c in ('__assert_fail',)):
                    bad.append('call %s' % (c or 'indirect'))
        R.check(not bad, name, 'src/reciprocal.c', expected='no memory effects', found=bad or 'pure')
    if n == 0:
        raise AnalysisBroken('RCP-PURE: randomx_reciprocal not defined in the IR')


def run(ctx, R):
    F = astq.Facts(ctx, 'K0')
    R.saw(config='K0')
    decode.rule_rcp(ctx, R, F)
    jit.rule_rcp(ctx, R, 'x86')
    jit.rule_lw_sib(ctx, R, 'x86', F)
    sshash.rule_rules(ctx, R, F)
    jit.rule_rcp(ctx, R, 'a64')
    jit.rule_rcp(ctx, R, 'rv64')
    jit.rule_lw_sib(ctx, R, 'a64', F)
    jit.rule_lw_sib(ctx, R, 'rv64', F)
    rule_rcp_pure(ctx, R)
    jit.rule_rcp(ctx, R, 'rvv')
    jit.rule_lw_sib(ctx, R, 'rvv', F)
    genreset.rule_gen_reset(ctx, R, 'x86')
    genreset.rule_gen_reset(ctx, R, 'a64')
    genreset.rule_gen_reset(ctx, R, 'rv64')
    rv64.rule_rvv_rcp(ctx, R, F)
    x86hsem.rule_hsem(ctx, R)
