"""C18 The IMUL_RCP reciprocal is exact for every divisor."""
import astq
from rules import decode, genreset, jit, rtpreserve, rv64, sshash, x86hsem, x86loop

LEVEL = 'other'
TECHNIQUE = ('control-dependence check of the no-op guard in every engine (decoder path enumeration) + definition check of the power-of-two predicate; IR effect check of the reciprocal routine'
         '; evaluation of the literal-slot arithmetic of the RVV generator for every literal index; needs / must-set summaries (generator state); symbolic execution of the x86 IMUL_RCP handler')
CLAIM = ('Decides statically the no-op clause of the property: in the interpreter decoder and in the x86/A64/RV64 emitters every effect of IMUL_RCP (field assignment, emitted code, '
         'last-writer mark) is control-dependent on !isZeroOrPowerOf2(zero-extended imm32) and the no-op arm does nothing. The exactness of randomx_reciprocal / randomx_reciprocal_fast '
         'for all 2^32 divisors is number theory over runtime values and is not claimed (not decidable by a static argument in reach).'
         ' Also: randomx_reciprocal is a pure function of its argument (no store, no mutable global, no call) in the compiled IR (RCP-PURE), so the multiplier cannot depend on history or on other threads.'
         ' The RV64 vector generator is included in RCP-NOOP / LW-SIB.'
         ' The multiplier an IMUL_RCP instruction uses is the reciprocal of its own divisor: on x86 the emitted bytes are `mov rax, reciprocal; imul dst, rax` for every dst (X86-HSEM); in the RVV generator literal n is stored in slot n and the emitted instruction multiplies by slot n for every n below RANDOMX_PROGRAM_MAX_SIZE (RVV-RCPPOOL; this rule found the displacement overflow repaired by b14ff87); the literal counters of all back-ends restart with every program (GEN-RESET).')
LEVEL_NOTE = 'Trusted: clang AST. Not covered: the numeric clause reciprocal(d) == floor(2^(63+bitlen d)/d) and fast == portable.'
EXPLANATION = ('RCP-NOOP evaluated on the IMUL_RCP decoder block and on h_IMUL_RCP of each JIT back-end; RCP-USE lists which reciprocal routine each engine calls. RCP-PURE on the LLVM IR of reciprocal.c; LW-SIB for the three back-ends.'
         ' RVV-RCPPOOL, GEN-RESET x3, X86-HSEM.')


def rule_rcp_pure(ctx, R):
    """[RCP-PURE] the reciprocal is a function of its argument alone"""
    import irq
    from core import AnalysisBroken
    R.rule('RCP-PURE', 'randomx_reciprocal (and randomx_reciprocal_fast where it is C code) is a pure function of its argument: no store, no load from mutable global state, no call other than compiler intrinsics '
           '(a memo or any other state would make the multiplier depend on history and on other threads)', min_instances=1)
    M = irq.Module(ctx.ir())
    mutable = {g['name'] for g in M.m['globals'] if not g['constant']}
    n = 0
    for name in ('randomx_reciprocal', 'randomx_reciprocal_fast'):
        f = M.fn.get(name)
        if f is None or not f['defined']:
            continue
        n += 1
        bad = []
        for i, addr, kind in M.write_sites(f):
            roots = M.roots(f, addr)
            if not all(r[0] == 'alloca' for r in roots):
                bad.append('%s to %s' % (kind, sorted(set(r[1] if len(r) > 1 else r[0] for r in roots))))
        for i in M.insts(f):
            if i['op'] == 'load':
                for r in M.roots(f, i['ops'][0]):
                    if r[0] == 'g' and r[1] in mutable:
                        bad.append('load from mutable global %s' % r[1])
            if i['op'] in ('call', 'invoke'):
                c = i.get('callee')
                if c is None or not (c.startswith('llvm.') or c in ('__assert_fail',)):
                    bad.append('call %s' % (c or 'indirect'))
        R.check(not bad, name, 'src/reciprocal.c', expected='no memory effects', found=bad or 'pure')
    if n == 0:
        raise AnalysisBroken('RCP-PURE: randomx_reciprocal not defined in the IR')

CLAIM += (' randomx_reciprocal is evaluated with fixed-width arithmetic under the LP64 and the LLP64 data model over a grid of divisors (RCP-EVAL); the A64 IMUL_RCP handler multiplies by the register that the prologue loads from the literal slot the handler wrote (A64-RCPLIT); the vector dataset generator pages its literals consistently (RVV-SS-RCPPOOL).')
EXPLANATION += ' RCP-EVAL (K0 + K5), A64-RCPLIT, RVV-SS-RCPPOOL.'

TECHNIQUE += '; fixed-width evaluation of the reciprocal under two data models (LP64 parse and LLP64 cross parse); agreement of the A64 literal-register table with the prologue of the assembled runtime'

EXPLANATION += ' X86-ISA-BASE.'
CLAIM += (' randomx_reciprocal_fast and the rest of the hand-written x86-64 runtime contain no instruction of a later ISA extension (X86-ISA-BASE: `lzcnt` executes as `bsr` on CPUs without ABM and returns another value).')


def run(ctx, R):
    F = astq.Facts(ctx, 'K0')
    R.saw(config='K0')
    decode.rule_rcp(ctx, R, F)
    jit.rule_rcp(ctx, R, 'x86')
    jit.rule_lw_sib(ctx, R, 'x86', F)
    sshash.rule_rules(ctx, R, F)
    jit.rule_rcp(ctx, R, 'a64')
    jit.rule_rcp(ctx, R, 'rv64')
    jit.rule_lw_sib(ctx, R, 'a64', F)
    jit.rule_lw_sib(ctx, R, 'rv64', F)
    rule_rcp_pure(ctx, R)
    rule_rcp_eval(ctx, R)
    jit.rule_rcp(ctx, R, 'rvv')
    jit.rule_lw_sib(ctx, R, 'rvv', F)
    genreset.rule_gen_reset(ctx, R, 'x86')
    genreset.rule_gen_reset(ctx, R, 'a64')
    genreset.rule_gen_reset(ctx, R, 'rv64')
    rv64.rule_rvv_rcp(ctx, R, F)
    x86hsem.rule_hsem(ctx, R)
    rtpreserve.rule_a64_rcplit(ctx, R)
    x86loop.rule_isa_base(ctx, R)


def rule_rcp_eval(ctx, R):
    """[RCP-EVAL] fixed-width evaluation of randomx_reciprocal under two data models"""
    from astq import strip_all, val, show, walk
    from core import AnalysisBroken
    R.rule('RCP-EVAL', 'randomx_reciprocal, evaluated with the integer widths of the LP64 (host) and of the LLP64 (64-bit Windows: long is 32 bits) data model, returns floor(2^(63 + bitlength(d)) / d) for a grid of divisors '
           '(small values, every 2^k +- 1, dense and sparse bit patterns, the largest values); the function body is interpreted with fixed-width arithmetic, the count-leading-zeros builtins with the width of their parameter type', min_instances=250)

    def widths(model):
        w = {'bool': 1, 'char': 8, 'signed char': 8, 'unsigned char': 8, 'short': 16, 'unsigned short': 16, 'int': 32, 'unsigned int': 32, 'unsigned': 32,
             'long long': 64, 'unsigned long long': 64, 'long': 64 if model == 'LP64' else 32, 'unsigned long': 64 if model == 'LP64' else 32,
             'uint32_t': 32, 'uint64_t': 64, 'int32_t': 32, 'int64_t': 64, 'size_t': 64}
        return w

    def tinfo(ty, W):
        t = (ty or '').replace('const ', '').replace('volatile ', '').strip()
        if t in W:
            return W[t], not t.startswith('unsigned') and not t.startswith('uint') and t not in ('bool', 'size_t')
        raise AnalysisBroken('RCP-EVAL: type %r' % ty)

    def wrap(v, w, signed):
        v &= (1 << w) - 1
        return v - (1 << w) if signed and v >> (w - 1) else v

    def ev(n, env, W):
        k = n['k']
        if 'v' in n and k not in ('Assign', 'CAssign', 'Ref'):
            return n['v']
        if k == 'Cast':
            x = ev(n['e'], env, W)
            if n.get('ck') in ('IntegralCast',):
                w, sg = tinfo(n.get('ty'), W)
                return wrap(x, w, sg)
            return x
        if k == 'Ref':
            if n.get('id') in env:
                return env[n['id']]
            if 'v' in n:
                return n['v']
            raise AnalysisBroken('RCP-EVAL: value of %s' % show(n))
        if k == 'Bin':
            a, b = ev(n['l'], env, W), ev(n['r'], env, W)
            w, sg = tinfo(n.get('ty'), W)
            op = n['op']
            if op in ('<<', '>>'):
                lw, lsg = tinfo(n['l'].get('ty'), W)
                if b < 0 or b >= lw:
                    raise AnalysisBroken('RCP-EVAL: shift of a %d-bit value by %d (undefined) in %s' % (lw, b, show(n)[:50]))
                return wrap(a << b if op == '<<' else a >> b, w, sg)
            if op in ('/', '%'):
                if b == 0:
                    raise AnalysisBroken('RCP-EVAL: division by zero')
                q = abs(a) // abs(b) * (1 if (a < 0) == (b < 0) else -1)
                return wrap(q if op == '/' else a - q * b, w, sg)
            f = {'+': a + b, '-': a - b, '*': a * b, '&': a & b, '|': a | b, '^': a ^ b, '==': int(a == b), '!=': int(a != b), '<': int(a < b), '>': int(a > b), '<=': int(a <= b), '>=': int(a >= b)}.get(op)
            if f is None:
                raise AnalysisBroken('RCP-EVAL: operator %s' % op)
            return wrap(f, w, sg)
        if k == 'Un':
            a = ev(n['e'], env, W)
            w, sg = tinfo(n.get('ty'), W)
            if n.get('op') == '-':
                return wrap(-a, w, sg)
            if n.get('op') == '~':
                return wrap(~a, w, sg)
            if n.get('op') == '!':
                return int(not a)
        if k == 'Call':
            nm = n.get('name') or ''
            m = {'__builtin_clz': 'unsigned int', '__builtin_clzl': 'unsigned long', '__builtin_clzll': 'unsigned long long'}.get(nm)
            if m:
                w, _ = tinfo(m, W)
                a = ev(n['a'][0], env, W) & ((1 << w) - 1)
                if a == 0:
                    raise AnalysisBroken('RCP-EVAL: %s(0) is undefined' % nm)
                return w - a.bit_length()
        raise AnalysisBroken('RCP-EVAL: expression %s' % show(n)[:60])

    def run(f, d, W):
        env = {f['params'][0]['id']: d}
        for s_ in f['body']['s']:
            if s_['k'] == 'Decl':
                for dd in s_['d']:
                    if dd.get('init') is not None:
                        w, sg = tinfo(dd.get('ty'), W)
                        env[dd['id']] = wrap(ev(dd['init'], env, W), w, sg)
            elif s_['k'] == 'Return':
                w, sg = tinfo(f.get('ret') or 'unsigned long long', dict(W, **{'uint64_t': 64}))
                return wrap(ev(s_['e'], env, W), 64, False)
            elif s_['k'] in ('Cond', 'Call', 'Cast', 'Null') or strip_all(s_)['k'] in ('Cond', 'Call', 'Cast', 'Null') or val(strip_all(s_)) is not None:
                continue        # assert (compiled out or not)
            else:
                raise AnalysisBroken('RCP-EVAL: statement %s' % show(s_)[:60])
        raise AnalysisBroken('RCP-EVAL: no return')

    grid = set(range(3, 70)) | {0xFFFFFFFF, 0xFFFFFFFE, 0x80000001, 0x7FFFFFFF, 0xAAAAAAAB, 0x55555555, 0xDEADBEEF, 0x12345679, 0x00010001, 0x0000FFFF, 0xFFFF0001}
    for k_ in range(2, 32):
        grid |= {(1 << k_) + 1, (1 << k_) - 1, (1 << k_) + (1 << (k_ // 2)) | 1}
    grid = sorted(d for d in grid if d & (d - 1) and 0 < d < (1 << 32))
    for cfg, model in (('K0', 'LP64'), ('K5', 'LLP64')):
        F = astq.Facts(ctx, cfg)
        f = F.func('randomx_reciprocal')
        R.saw(fn=f['q'], config=cfg)
        W = widths(model)
        for d in grid:
            want = (1 << (63 + d.bit_length())) // d
            got = run(f, d, W)
            R.check(got == want, 'randomx_reciprocal(%#x) [%s]' % (d, model), '%s:%d' % (f['file'], f['line']), expected='%#x' % want, found='%#x' % got)
    rv64.rule_rvv_ss_rcp(ctx, R)
