"""C18 The IMUL_RCP reciprocal is exact for every divisor."""
import astq
from rules import decode, jit, sshash

LEVEL = 'other'
TECHNIQUE = 'control-dependence check of the no-op guard in every engine (decoder path enumeration) + definition check of the power-of-two predicate'
CLAIM = ('Decides statically the no-op clause of the property: in the interpreter decoder and in the x86/A64/RV64 emitters every effect of IMUL_RCP (field assignment, emitted code, '
         'last-writer mark) is control-dependent on !isZeroOrPowerOf2(zero-extended imm32) and the no-op arm does nothing. The exactness of randomx_reciprocal / randomx_reciprocal_fast '
         'for all 2^32 divisors is number theory over runtime values and is not claimed (not decidable by a static argument in reach).')
LEVEL_NOTE = 'Trusted: clang AST. Not covered: the numeric clause reciprocal(d) == floor(2^(63+bitlen d)/d) and fast == portable.'
EXPLANATION = 'RCP-NOOP evaluated on the IMUL_RCP decoder block and on h_IMUL_RCP of each JIT back-end; RCP-USE lists which reciprocal routine each engine calls.'


def run(ctx, R):
    F = astq.Facts(ctx, 'K0')
    R.saw(config='K0')
    decode.rule_rcp(ctx, R, F)
    jit.rule_rcp(ctx, R, 'x86')
    jit.rule_lw_sib(ctx, R, 'x86', F)
    sshash.rule_rules(ctx, R, F)
    jit.rule_rcp(ctx, R, 'a64')
    jit.rule_rcp(ctx, R, 'rv64')
    jit.rule_lw_sib(ctx, R, 'a64', F)
    jit.rule_lw_sib(ctx, R, 'rv64', F)
