"""C10 rules: A2-DISPATCH, A2-SKELETON, A2-XOR, A2-INDEX, A2-H0, A2-FIRST, A2-PASSES (+ SPEC-ARGON)."""
import re

import astq
from astq import calls, loc, show, showv, strip_all, val, walk
from core import AnalysisBroken
from rules.blake import loop_trip_any
from rules.driver import ref_id


FLAG_LOCALS = [set()]


def canon_tree(s, drop_ids, prev_marker, out):
    """normalised statement tree of a function body (declarations dropped)"""
    if s is None:
        return
    k = s['k']
    if k == 'Compound':
        for x in s['s']:
            canon_tree(x, drop_ids, prev_marker, out)
    elif k == 'Decl':
        return
    elif k == 'If':
        fb = [c for c in calls(s) if c.get('name') == 'fill_block']
        other = [x for x in walk(s) if x['k'] in ('Assign', 'CAssign', 'Return', 'For', 'While') or (x['k'] == 'Call' and x.get('name') != 'fill_block')]
        if fb and not other:
            # the overwrite-or-XOR decision (three calls in an if / else chain, or one call with a computed flag): its truth table is A2-XOR's business,
            # the skeleton only records which blocks are combined
            out.append(('fill', fb))
            return
        a, b = [], []
        canon_tree(s['t'], drop_ids, prev_marker, a)
        canon_tree(s.get('e'), drop_ids, prev_marker, b)
        out.append(('if', s['c'], a, b))
    elif k == 'For':
        body = []
        canon_tree(s['b'], drop_ids, prev_marker, body)
        out.append(('for', (s.get('init'), s.get('c'), s.get('inc')), body))
    elif k in ('While', 'Do'):
        body = []
        canon_tree(s['b'], drop_ids, prev_marker, body)
        out.append(('while', s['c'], body))
    elif k == 'Return':
        out.append(('return', s.get('e')))
    else:
        fb = [c for c in calls(s) if c.get('name') == 'fill_block']
        if fb:
            out.append(('fill', fb))
            return
        if any(x['k'] == 'Ref' and x.get('id') in drop_ids for x in walk(s)):
            return
        top = strip_all(s)
        if top['k'] == 'Assign' and strip_all(top['l'])['k'] == 'Ref' and strip_all(top['l']).get('id') in FLAG_LOCALS[0]:
            return        # the computed XOR flag itself
        out.append(('stmt', s))


def render(tree, ren, fb_abstract):
    """tree -> nested list of strings; locals alpha-renamed by first use"""
    def name(x):
        return x

    def sh(n):
        if n is None:
            return ''
        with astq.renaming(ren), astq.nocasts():
            if astq.is_node(n) and fb_abstract:
                # abstract the first argument of fill_block
                for c in calls(n):
                    if c.get('name') == 'fill_block':
                        args = [showv(a) for a in c['a']]
                        args[0] = 'PREVBLOCK'
                        return 'fill_block(%s)' % ', '.join(args)
            return showv(n)
    out = []
    for t in tree:
        if t[0] == 'stmt':
            out.append(sh(t[1]))
        elif t[0] == 'fill':
            with astq.renaming(ren), astq.nocasts():
                out.append('fill_block(PREVBLOCK, %s, ?)' % ' | '.join(sorted(set(', '.join(showv(a) for a in c['a'][1:3]) for c in t[1]))))
        elif t[0] == 'if':
            out.append(['if ' + sh(t[1]), render(t[2], ren, fb_abstract), render(t[3], ren, fb_abstract)])
        elif t[0] == 'for':
            out.append(['for %s; %s; %s' % (sh(t[1][0]), sh(t[1][1]), sh(t[1][2])), render(t[2], ren, fb_abstract)])
        elif t[0] == 'while':
            out.append(['while ' + sh(t[1]), render(t[2], ren, fb_abstract)])
        elif t[0] == 'return':
            out.append('return ' + sh(t[1]))
    return out


def first_use_renaming(f, tree, drop_ids):
    ren = {p['id']: 'P%d' % i for i, p in enumerate(f['params'])}
    n = [0]

    def visit(node):
        if not astq.is_node(node):
            return
        for x in walk(node):
            if x['k'] == 'Ref' and x.get('id') and x['id'] not in ren and x['id'] not in drop_ids:
                ren[x['id']] = 'L%d' % n[0]
                n[0] += 1

    def rec(tr):
        for t in tr:
            if t[0] == 'stmt':
                visit(t[1])
            elif t[0] == 'fill':
                for c in t[1]:
                    for a in c['a'][1:3]:
                        visit(a)
            elif t[0] == 'if':
                visit(t[1])
                rec(t[2])
                rec(t[3])
            elif t[0] == 'for':
                for x in t[1]:
                    visit(x)
                rec(t[2])
            elif t[0] == 'while':
                visit(t[1])
                rec(t[2])
            elif t[0] == 'return':
                visit(t[1])
    rec(tree)
    return ren


def skeleton(F, fq):
    f = F.func(fq)
    drop = set()
    for x in walk(f['body']):
        if x['k'] == 'Decl':
            for d in x['d']:
                if re.search(r'__m(128|256|512)i|__attribute__\(\(__vector_size__', d.get('ty', '')) and d.get('arrlen'):
                    drop.add(d['id'])
    flag_ids = set()
    for c in calls(f['body']):
        if c.get('name') == 'fill_block' and len(c['a']) > 3:
            r_ = strip_all(c['a'][3])
            if r_['k'] == 'Ref' and r_.get('id'):
                flag_ids.add(r_['id'])
    FLAG_LOCALS[0] = flag_ids
    tree = []
    canon_tree(f['body'], drop, None, tree)
    ren = first_use_renaming(f, tree, drop)
    return f, render(tree, ren, True), drop


def rule_skeleton(ctx, R, F):
    R.rule('A2-SKELETON', 'the reference, SSSE3 and AVX2 fill_segment implementations share the block-addressing skeleton: every statement that defines starting_index, curr_offset, prev_offset, the loop header, '
           'pseudo_rand, ref_lane, the index_alpha call, ref_block, curr_block and the overwrite-or-XOR decision is identical after abstracting where the previous block lives', min_instances=2)
    ref_f, ref_s, _ = skeleton(F, 'randomx_argon2_fill_segment_ref')
    R.saw(fn=ref_f['q'], unit=ref_f['_unit'])
    n = 0
    for name in ('randomx_argon2_fill_segment_ssse3', 'randomx_argon2_fill_segment_avx2'):
        if not F.has_func(name):
            raise AnalysisBroken('%s not compiled in this configuration' % name)
        f, s, drop = skeleton(F, name)
        R.saw(fn=f['q'], unit=f['_unit'])
        n += 1
        if s == ref_s:
            R.ok('%s == reference skeleton' % name, '%s:%d' % (f['file'], f['line']), detail='%d top-level items' % len(s))
        else:
            # first difference
            diff = first_diff(ref_s, s)
            R.violation('%s == reference skeleton' % name, '%s:%d' % (f['file'], f['line']), expected=diff[0], found=diff[1])
        # the SIMD state is initialised from the previous block before the loop
        mc = [c for c in calls(f['body']) if c.get('name') == 'memcpy' and any(x['k'] == 'Ref' and x.get('id') in drop for x in walk(c['a'][0]))]
        ren = {p['id']: 'P%d' % i for i, p in enumerate(f['params'])}
        with astq.renaming(ren), astq.nocasts():
            src = [re.sub(r'\bL?prev_offset\b', 'prev_offset', showv(c['a'][1])) for c in mc]
            size = [val(c['a'][2]) for c in mc]
        R.check(len(mc) == 1 and size == [1024] and 'P0->memory + prev_offset' in src[0], '%s loads the previous block into its state' % name, '%s:%d' % (f['file'], f['line']), expected='memcpy(state, (instance->memory + prev_offset)->v, 1024) before the loop', found=(src, size))
    R.rule('A2-XOR', 'the overwrite-or-XOR decision: version 0x10 always overwrites; otherwise pass 0 overwrites and later passes XOR (so re-initialising a cache leaves no trace of the previous content)', min_instances=3)
    import decoder as _dec
    v10 = F.enumerator('ARGON2_VERSION_10')
    if v10 is None:
        raise AnalysisBroken('A2-XOR: ARGON2_VERSION_10 not found')
    for name in ('randomx_argon2_fill_segment_ref', 'randomx_argon2_fill_segment_ssse3', 'randomx_argon2_fill_segment_avx2'):
        f = F.func(name)
        where = '%s:%d' % (f['file'], f['line'])
        loops = [x for x in walk(f['body']) if x['k'] in ('For', 'While') and any(c.get('name') == 'fill_block' for c in calls(x['b']))]
        if len(loops) != 1:
            raise AnalysisBroken('A2-XOR: block loop of %s not found' % name)
        ps_ = [p_ for p_ in _dec.paths(loops[0]['b']) if any(c.get('name') == 'fill_block' for e_ in p_.events if not isinstance(e_, tuple) for c in calls(e_))]
        ren = {p['id']: 'P%d' % i for i, p in enumerate(f['params'])}
        table = {}
        with astq.renaming(ren), astq.nocasts():
            def atomise(cnd):
                """truth value of a condition under (is version 0x10, pass != 0); None when it tests something else"""
                def ev(n, isv10, laterpass):
                    m = strip_all(n)
                    if m['k'] == 'Bin' and m['op'] in ('&&', '||'):
                        a_, b_ = ev(m['l'], isv10, laterpass), ev(m['r'], isv10, laterpass)
                        if m['op'] == '&&':
                            return False if (a_ is False or b_ is False) else (None if None in (a_, b_) else True)
                        return True if (a_ is True or b_ is True) else (None if None in (a_, b_) else False)
                    if m['k'] == 'Un' and m.get('op') == '!':
                        v_ = ev(m['e'], isv10, laterpass)
                        return None if v_ is None else not v_
                    if m['k'] == 'Bin' and m['op'] in ('==', '!='):
                        for x_, y_ in ((m['l'], m['r']), (m['r'], m['l'])):
                            if val(x_) is not None:
                                sy = showv(y_)
                                if sy.endswith('->version') and val(x_) == v10:
                                    return isv10 == (m['op'] == '==')
                                if sy.endswith('.pass') and val(x_) == 0:
                                    return (not laterpass) == (m['op'] == '==')
                        return None
                    if val(m) is not None:
                        return bool(val(m))
                    sy = showv(m)
                    if sy.endswith('.pass'):
                        return laterpass
                    return None
                return ev
            for isv10 in (True, False):
                for later in (False, True):
                    vals = set()
                    for p_ in ps_:
                        feas = True
                        for c_, t_ in p_.conds:
                            v_ = atomise(c_)(c_, isv10, later)
                            if v_ is not None and v_ != t_:
                                feas = False
                                break
                        if not feas:
                            continue
                        for e_ in p_.events:
                            if isinstance(e_, tuple):
                                continue
                            for c in calls(e_):
                                if c.get('name') == 'fill_block' and len(c['a']) > 3:
                                    a3 = c['a'][3]
                                    v_ = val(a3)
                                    if v_ is None:
                                        b_ = atomise(a3)(a3, isv10, later)
                                        v_ = None if b_ is None else int(b_)
                                    vals.add(v_ if v_ is not None else showv(a3))
                    table[('1.0' if isv10 else '1.3', 'later pass' if later else 'pass 0')] = sorted(vals, key=str)
        want = {('1.0', 'pass 0'): [0], ('1.0', 'later pass'): [0], ('1.3', 'pass 0'): [0], ('1.3', 'later pass'): [1]}
        R.check(table == want, '%s with_xor decision' % name, where, expected={'%s, %s' % k_: v_ for k_, v_ in want.items()}, found={'%s, %s' % k_: v_ for k_, v_ in table.items()})


def first_diff(a, b, path=''):
    if isinstance(a, list) and isinstance(b, list):
        for i, (x, y) in enumerate(zip(a, b)):
            if x != y:
                return first_diff(x, y, path + '[%d]' % i)
        if len(a) != len(b):
            return ('%s: %d items' % (path, len(a)), '%s: %d items; extra %s' % (path, len(b), (b[len(a):] or a[len(b):])[:1]))
    return ('%s: %s' % (path, a if not isinstance(a, list) else a[:1]), '%s: %s' % (path, b if not isinstance(b, list) else b[:1]))


def rule_dispatch(ctx, R, F):
    R.rule('A2-DISPATCH', 'the fill implementation is chosen only by flag: AVX2 flag -> avx2, SSSE3 flag -> ssse3, else reference; the getters return their own function; the cache records the choice once and initCache passes it to the instance; '
           'fill_memory_blocks calls instance->impl for every (pass, slice, lane)', min_instances=6)
    import decoder as _dec
    f = F.func('randomx::selectArgonImpl')
    fid = f['params'][0]['id']
    a2, s3 = F.enumerator('RANDOMX_FLAG_ARGON2_AVX2'), F.enumerator('RANDOMX_FLAG_ARGON2_SSSE3')

    def fev(n, flags):
        """value of a flag expression for one concrete flag word (None = not a flag expression)"""
        n = strip_all(n)
        v_ = val(n)
        if v_ is not None:
            return v_
        if n['k'] == 'Ref':
            return flags if n.get('id') == fid else None
        if n['k'] == 'Call' and n.get('name') in ('operator&', 'operator|', 'operator^') and len(n['a']) == 2:
            x_, y_ = fev(n['a'][0], flags), fev(n['a'][1], flags)
            if None in (x_, y_):
                return None
            return {'&': x_ & y_, '|': x_ | y_, '^': x_ ^ y_}[n['name'][-1]]
        if n['k'] == 'Bin' and n['op'] in ('&', '|', '^', '==', '!=', '&&', '||'):
            x_, y_ = fev(n['l'], flags), fev(n['r'], flags)
            if None in (x_, y_):
                return None
            return {'&': lambda: x_ & y_, '|': lambda: x_ | y_, '^': lambda: x_ ^ y_, '==': lambda: int(x_ == y_), '!=': lambda: int(x_ != y_),
                    '&&': lambda: int(bool(x_) and bool(y_)), '||': lambda: int(bool(x_) or bool(y_))}[n['op']]()
        if n['k'] == 'Un' and n.get('op') == '!':
            x_ = fev(n['e'], flags)
            return None if x_ is None else int(not x_)
        return None

    # decided per flag word: which value the function returns on the one path feasible for it (early returns, an if / else chain assigning a local, or ?: are all the same table)
    other = 0xFFFFFFFF & ~(a2 | s3)
    found, exp = {}, {}
    all_paths = _dec.paths(f['body'])
    with astq.nocasts():
        for av in (0, 1):
            for sv in (0, 1):
                for rest in (0, other):
                    flags = av * a2 | sv * s3 | rest
                    key = 'avx2=%d ssse3=%d other flags %s' % (av, sv, 'set' if rest else 'clear')
                    exp[key] = ['randomx_argon2_impl_avx2()'] if av else ['randomx_argon2_impl_ssse3()'] if sv else ['&randomx_argon2_fill_segment_ref']
                    rets = []
                    for p_ in all_paths:
                        feas = True
                        for c_, t_ in p_.conds:
                            v_ = fev(c_, flags)
                            if v_ is None:
                                raise AnalysisBroken('A2-DISPATCH: selectArgonImpl branches on %s, which is not an expression over its flag argument' % show(c_))
                            if bool(v_) != t_:
                                feas = False
                                break
                        if not feas:
                            continue
                        env = {}
                        for e_ in p_.events:
                            if isinstance(e_, tuple):
                                raise AnalysisBroken('A2-DISPATCH: selectArgonImpl contains a loop or switch')
                            t_ = strip_all(e_)
                            if t_['k'] == 'Assign' and strip_all(t_['l'])['k'] == 'Ref':
                                env[strip_all(t_['l']).get('id')] = t_['r']
                            elif t_['k'] == 'Decl':
                                for d_ in t_.get('d', [t_]):
                                    if d_.get('init') is not None:
                                        env[d_.get('id')] = d_['init']
                            elif t_['k'] == 'Return':
                                r_ = strip_all(t_['e'])
                                seen_ = 0
                                while r_['k'] == 'Ref' and r_.get('id') in env and seen_ < 8:
                                    r_ = strip_all(env[r_['id']])
                                    seen_ += 1
                                rets.append(showv(r_))
                    found[key] = rets
    R.eq('selectArgonImpl', '%s:%d' % (f['file'], f['line']), exp, found)
    for g, tgt in (('randomx_argon2_impl_avx2', 'randomx_argon2_fill_segment_avx2'), ('randomx_argon2_impl_ssse3', 'randomx_argon2_fill_segment_ssse3')):
        gf = F.func(g)
        rets = [show(x['e']) for x in walk(gf['body']) if x['k'] == 'Return']
        R.check(bool(rets) and rets[0] == '&' + tgt, g + ' returns its implementation', '%s:%d' % (gf['file'], gf['line']), expected='&' + tgt, found=rets)
    ac = F.func('randomx_alloc_cache', unit='src/randomx.cpp')
    asg = [x for x in walk(ac['body']) if x['k'] == 'Assign' and show(x['l']).endswith('->argonImpl')]
    sel = [c for c in calls(ac['body']) if c.get('name') == 'selectArgonImpl']
    R.check(len(asg) == 1 and len(sel) == 1 and ref_id(sel[0]['a'][0]) == ac['params'][0]['id'], 'cache->argonImpl = selectArgonImpl(flags)', '%s:%d' % (ac['file'], ac['line']), expected='one assignment from the flag-selected implementation', found='%d assignments, %d selections' % (len(asg), len(sel)))
    ic = F.func('randomx::initCache')
    with astq.renaming({ic['params'][0]['id']: 'CACHE'}):
        imp = [showv(x['r']) for x in walk(ic['body']) if x['k'] == 'Assign' and show(x['l']) == 'instance.impl']
    R.eq('instance.impl', '%s:%d' % (ic['file'], ic['line']), ['CACHE->argonImpl'], imp)
    # the function that walks passes x slices x lanes and calls through instance->impl -- found by what it does, whatever it is called or inlined into
    cands = [g_ for g_ in F.in_file('argon2_core.c') if any('callee' in c and '->impl' in show(c.get('callee')) for c in calls(g_['body']))]
    if len(cands) != 1:
        raise AnalysisBroken('A2-DISPATCH: expected one function of argon2_core.c that calls instance->impl, found %d' % len(cands))
    fm = cands[0]
    loops = [x for x in walk(fm['body']) if x['k'] == 'For']
    with astq.renaming({fm['params'][0]['id']: 'INST'}), astq.nocasts():
        hdr = [showv(l['c']) for l in loops]
        ic_ = [showv(c) for c in calls(fm['body']) if 'callee' in c]
    sp = F.macro('ARGON2_SYNC_POINTS')
    exp_hdr = ['(r < INST->passes)', '(s < 4)', '(l < INST->lanes)']
    hdr_n = [re.sub(r'\b[a-z]\b', lambda m: m.group(0), h) for h in hdr]
    R.check(len(loops) == 3 and [h.split(' < ')[1] for h in hdr] == ['INST->passes)', '4)', 'INST->lanes)'], 'fill order passes x slices x lanes', '%s:%d' % (fm['file'], fm['line']), expected=exp_hdr, found=hdr)
    R.check(len(ic_) == 1 and '->impl' in ic_[0], 'segments filled through instance->impl', '%s:%d' % (fm['file'], fm['line']), expected='(*instance->impl)(instance, position)', found=ic_)


def rule_index(ctx, R, F):
    import domains
    from domains import KB, KBEval
    R.rule('A2-INDEX', 'randomx_argon2_index_alpha equals the RFC 9106 3.4.1.2 mapping (reference area per pass / slice / same lane, x = J1^2 >> 32, relative = area - 1 - (area * x >> 32), start position, modulo lane length) '
           'for every (pass, slice, same-lane) case x block indices at both ends of a segment x boundary values of J1, with the instance geometry of RandomX; decided by fixed-width evaluation of the function body '
           '(so 32-bit truncation of an intermediate is seen)', min_instances=400)
    f = F.func('randomx_argon2_index_alpha')
    R.saw(fn=f['q'], unit=f['_unit'])
    where = '%s:%d' % (f['file'], f['line'])
    ps = f['params']
    if len(ps) != 4:
        raise AnalysisBroken('A2-INDEX: index_alpha has %d parameters' % len(ps))
    inst, pos = ps[0]['name'], ps[1]['name']
    mem = int(F.macro('RANDOMX_ARGON_MEMORY')['body'])
    lanes = int(F.macro('RANDOMX_ARGON_LANES')['body'])
    sync = 4
    rands = [0, 1, 0xFFFF, 0x10000, 0x7FFFFFFF, 0x80000000, 0xDEADBEEF, 0xFFFFFFFF]
    n = 0
    # the configured geometry and two reduced instances whose lane length is not a power of two (the function is shared by every instance the fill entry points accept)
    for mem_ in (mem, 24, 1000):
      seg = mem_ // (lanes * sync)
      lane_len = seg * sync
      for pas in (0, 1, 2):
          for sl_ in range(sync):
              idxs = [2, 3, 100, seg - 1] if (pas == 0 and sl_ == 0) else [0, 1, 2, 100, seg - 1]
              for idx in idxs:
                  for same in (1, 0):
                      if same == 0 and lanes == 1 and False:
                          continue
                      for j1 in rands:
                          if pas == 0:
                              area = (idx - 1) if sl_ == 0 else (sl_ * seg + idx - 1 if same else sl_ * seg + (-1 if idx == 0 else 0))
                          else:
                              area = lane_len - seg + idx - 1 if same else lane_len - seg + (-1 if idx == 0 else 0)
                          if area <= 0:
                              continue
                          x = (j1 * j1) >> 32
                          rel = area - 1 - ((area * x) >> 32)
                          start = 0 if pas == 0 else (0 if sl_ == sync - 1 else (sl_ + 1) * seg)
                          want = (start + rel) % lane_len
                          env = {ps[2]['id']: KB.const(32, j1), ps[3]['id']: KB.const(32, same),
                                 '%s->pass' % pos: KB.const(32, pas), '%s->slice' % pos: KB.const(8, sl_), '%s->index' % pos: KB.const(32, idx), '%s->lane' % pos: KB.const(32, 0),
                                 '%s->segment_length' % inst: KB.const(32, seg), '%s->lane_length' % inst: KB.const(32, lane_len), '%s->lanes' % inst: KB.const(32, lanes), '%s->memory_blocks' % inst: KB.const(32, mem_)}
                          r = KBEval(F, env).run_body(f)
                          v = r.value() if r is not None else None
                          n += 1
                          if v is None:
                              raise AnalysisBroken('A2-INDEX: the evaluator cannot follow index_alpha for pass %d slice %d index %d' % (pas, sl_, idx))
                          if v != want or (n % 8 == 1):
                              R.check(v == want, '%d blocks: pass %d slice %d index %d %s lane J1=%#x' % (mem_, pas, sl_, idx, 'same' if same else 'other', j1), where, expected=want, found=v)
                          else:
                              R.ok('%d blocks: pass %d slice %d index %d %s lane J1=%#x' % (mem_, pas, sl_, idx, 'same' if same else 'other', j1), where)
    if n < 400:
        raise AnalysisBroken('A2-INDEX: only %d cases' % n)


def rule_h0(ctx, R, F):
    R.rule('A2-H0', 'the initial hash H0 absorbs, in RFC 9106 order and as 32-bit little-endian words, lanes, tag length, memory, iterations, version, type, then (length, bytes) of password, salt, secret, associated data, '
           'with a 64-byte Blake2b; the first two blocks of each lane are H\'(H0 || 0 || lane) and H\'(H0 || 1 || lane)', min_instances=3)
    f = F.func('rxa2_initial_hash')
    R.saw(fn=f['q'], unit=f['_unit'])
    ren = {p['id']: 'P%d' % i for i, p in enumerate(f['params'])}
    for x in walk(f['body']):
        if x['k'] == 'Decl':
            for d in x['d']:
                ren[d['id']] = 'H' if 'blake2b_state' in d['ty'] else 'VALUE'
    seq = []
    with astq.renaming(ren), astq.nocasts():
        def rec(s):
            if s is None:
                return
            if s['k'] == 'Compound':
                for x in s['s']:
                    rec(x)
            elif s['k'] == 'If':
                c = showv(s['c'])
                if 'P1 ==' in c.replace('0 == ', '').replace('NULL', '') or 'P0' in c and '||' in c:
                    return
                inner = [showv(x).replace('randomx_', '') for x in s['t']['s']] if s['t']['k'] == 'Compound' else [showv(s['t'])]
                seq.append('if %s: %s' % (c, inner))
            elif s['k'] != 'Decl':
                seq.append(showv(s).replace('randomx_', ''))
        rec(f['body'])
    exp = ['blake2b_init(&H, 64)']
    for fld in ('lanes', 'outlen', 'm_cost', 't_cost', 'version'):
        exp += ['store32(&VALUE, P1->%s)' % fld, 'blake2b_update(&H, &VALUE, 4)']
    exp += ['store32(&VALUE, P2)', 'blake2b_update(&H, &VALUE, 4)']
    for lenf, ptr in (('pwdlen', 'pwd'), ('saltlen', 'salt'), ('secretlen', 'secret'), ('adlen', 'ad')):
        exp += ['store32(&VALUE, P1->%s)' % lenf, 'blake2b_update(&H, &VALUE, 4)', "if (P1->%s != 0): ['blake2b_update(&H, P1->%s, P1->%s)']" % (ptr, ptr, lenf)]
    exp += ['blake2b_final(&H, P0, 64)']
    R.eq('H0 absorption order', '%s:%d' % (f['file'], f['line']), exp, seq)
    g = F.func('rxa2_fill_first_blocks')
    ren = {p['id']: 'P%d' % i for i, p in enumerate(g['params'])}
    for x in walk(g['body']):
        if x['k'] == 'Decl':
            for d in x['d']:
                ren[d['id']] = 'BYTES' if d.get('arrlen') == 1024 else 'LANE'
    loops = [x for x in walk(g['body']) if x['k'] == 'For']
    with astq.renaming(ren), astq.nocasts():
        body = [showv(s).replace('randomx_', '') for s in loops[0]['b']['s']] if loops else None
        hdr = showv(loops[0]['c']) if loops else None
    exp = ['store32((P0 + 64), 0)', 'store32(((P0 + 64) + 4), LANE)', 'blake2b_long(BYTES, 1024, P0, 72)', 'load_block(&P1->memory[((LANE * P1->lane_length) + 0)], BYTES)',
           'store32((P0 + 64), 1)', 'blake2b_long(BYTES, 1024, P0, 72)', 'load_block(&P1->memory[((LANE * P1->lane_length) + 1)], BYTES)']
    R.eq('first two blocks per lane', '%s:%d' % (g['file'], g['line']), (exp, '(LANE < P1->lanes)'), (body, hdr))
    i = F.func('randomx_argon2_initialize')
    with astq.renaming({p['id']: 'P%d' % k for k, p in enumerate(i['params'])}):
        cs = [showv(c) for c in calls(i['body']) if c.get('name', '').startswith('rxa2_')]
    R.check(len(cs) == 2 and cs[0].startswith('rxa2_initial_hash(') and cs[0].endswith('P1, P0->type)') and cs[1].startswith('rxa2_fill_first_blocks('), 'initialize = H0 then first blocks', '%s:%d' % (i['file'], i['line']), expected='rxa2_initial_hash(blockhash, context, instance->type); rxa2_fill_first_blocks(blockhash, instance)', found=cs)


def rule_long(ctx, R, F):
    R.rule('A2-HPRIME', 'blake2b_long is the variable-length hash H\' of RFC 9106 3.3: 32-bit little-endian output length prefix; outputs <= 64 bytes use one Blake2b; longer outputs chain 64-byte digests, emitting 32 bytes of each, '
           'with a final digest of the remaining length', min_instances=2)
    f = F.func('randomx_blake2b_long') if F.has_func('randomx_blake2b_long') else F.func('blake2b_long')
    R.saw(fn=f['q'], unit=f['_unit'])
    ren = {p['id']: 'P%d' % i for i, p in enumerate(f['params'])}
    src = show(f['body'])
    with astq.renaming(ren), astq.nocasts():
        pre = [showv(c) for c in calls(f['body']) if c.get('name') == 'store32']
        loops = [x for x in walk(f['body']) if x['k'] == 'While']
        cond = [showv(l['c']) for l in loops]
        consts = sorted({val(x) for x in walk(f['body']) if x['k'] in ('Int',) and val(x) in (32, 64)})
    R.check(len(pre) == 1 and pre[0].endswith(', P1)'), 'length prefix', '%s:%d' % (f['file'], f['line']), expected='store32(outlen_bytes, (uint32_t)outlen)', found=pre)
    R.check(len(loops) == 1 and '> 64' in cond[0], 'chaining loop', '%s:%d' % (f['file'], f['line']), expected='while (toproduce > BLAKE2B_OUTBYTES)', found=cond)
    ifs = [x for x in walk(f['body']) if x['k'] == 'If' and '<= 64' in showv(x['c'])]
    R.check(len(ifs) == 1, 'short-output branch', '%s:%d' % (f['file'], f['line']), expected='if (outlen <= BLAKE2B_OUTBYTES)', found=len(ifs))
