"""[X86-HSEM] translation validation of the x86-64 integer register-form handlers by symbolic execution of the emitted bytes.

The handler (and the emit helpers it calls) is executed in the known-bits domain for constant instruction fields; the bytes it emits are disassembled by
objdump (trusted decoder; all sequences are decoded in one run, each in its own NOP-padded slot) and the decoded instructions are given their architectural
meaning on a register file of terms over r0..r7 (r8..r15).  Afterwards the eight VM registers must hold the terms of specification 5.2; rax / rcx / rdx are scratch."""
import os
import re
import subprocess
import tempfile

import astq
from astq import loc, show, strip_all, val
from core import AnalysisBroken
from domains import KB, KBEval, type_info
from rules import jit
from rules import a64hsem as T
from rules import rvhsem as V
from rules.a64hsem import Lin, M64, add, sub, mul, neg, scale, xor, const, atom, hi, ror, amount
import os as _os
from report import memoised

STRICT_FAMILY = bool(_os.environ.get('RXVERIF_STRICT_FAMILY'))

SLOT = 48
RCP_MARK = 0x9E3779B97F4A7C15
HANDLERS = T.HANDLERS + ('IMUL_RCP',)

REG64 = {'rax': 0, 'rcx': 1, 'rdx': 2, 'rbx': 3, 'rsp': 4, 'rbp': 5, 'rsi': 6, 'rdi': 7}
REG64.update({'r%d' % i: i for i in range(8, 16)})
REG32 = {'eax': 0, 'ecx': 1, 'edx': 2, 'ebx': 3, 'esp': 4, 'ebp': 5, 'esi': 6, 'edi': 7}
REG32.update({'r%dd' % i: i for i in range(8, 16)})


class X86Exec:
    """known-bits execution of a handler; collects the emitted bytes"""

    def __init__(self, F, cls, fields, overrides):
        self.F = F
        self.cls = cls
        self.fields = fields
        self.overrides = overrides
        self.bytes = []

    def run(self, f, args, depth=0):
        if depth > 4:
            raise AnalysisBroken('X86-HSEM: helper recursion')
        env = {}
        for p, a in zip(f['params'], args):
            if 'Instruction' in (p.get('ty') or ''):
                for fld, kb in self.fields.items():
                    env['%s.%s' % (p['name'], fld)] = kb
            elif a is not None:
                env[p['id']] = a
        env.update(getattr(self, 'env_extra', {}))
        ev = KBEval(self.F, env, 0, self.overrides)
        self._stmt(f, f['body'], ev, depth)

    def sync_pos(self, ev):
        """this->codePos as the emit primitives would have left it (only when the caller gave a start position)"""
        p0 = getattr(self, 'pos0', None)
        if p0 is not None:
            ev.env['this->codePos'] = KB.const(32, p0 + len(self.bytes) + getattr(self, 'base_len', 0))

    def put(self, kb, nbytes, where):
        v = kb.value()
        if v is None:
            raise AnalysisBroken('X86-HSEM: bytes emitted at %s are not constant for constant instruction fields (%s)' % (where, kb.hexpat()))
        for i in range(nbytes):
            self.bytes.append((v >> (8 * i)) & 0xff)

    def _stmt(self, f, s, ev, depth):
        if s is None:
            return
        k = s['k']
        if k == 'Compound':
            for x in s['s']:
                r_ = self._stmt(f, x, ev, depth)
                if r_:
                    return r_
            return
        if k == 'If':
            c = val(s['c'])
            if c is None:
                c = ev.ev(s['c']).value()
            if c is None:
                raise AnalysisBroken('X86-HSEM: condition %s at %s is not decided by the instruction fields' % (show(s['c'])[:60], loc(s, f)))
            return self._stmt(f, s['t'] if c else s.get('e'), ev, depth)
        if k == 'Return':
            return True
        if k == 'Break':
            return 'break'
        if k in ('While', 'For', 'Do'):
            # a loop over constants (e.g. computing a bit position): unrolled, every test must be decided
            if k == 'For' and astq.is_node(s.get('init')):
                self._stmt(f, s['init'], ev, depth) if s['init']['k'] in ('Decl',) else ev._exec(strip_all(s['init']), [])
            for it in range(130):
                if not (k == 'Do' and it == 0) and astq.is_node(s.get('c')):
                    c = val(s['c'])
                    if c is None:
                        c = ev.ev(s['c']).value()
                    if c is None:
                        raise AnalysisBroken('X86-HSEM: loop condition %s at %s is not decided by the instruction fields' % (show(s['c'])[:60], loc(s, f)))
                    if not c:
                        return
                r_ = self._stmt(f, s['b'], ev, depth)
                if r_ == 'break':
                    return
                if r_:
                    return r_
                if k == 'For' and astq.is_node(s.get('inc')):
                    ev._exec(strip_all(s['inc']), [])
                    self._unary(strip_all(s['inc']), ev)
            raise AnalysisBroken('X86-HSEM: loop at %s does not finish within 130 iterations for constant fields' % loc(s, f))
        if k == 'Switch':
            cn = strip_all(s['c'])
            while cn['k'] == 'Cast' and type_info(cn.get('ty')) is None:
                cn = strip_all(cn['e'])
            c = ev.ev(cn).value()
            if c is None:
                raise AnalysisBroken('X86-HSEM: switch on %s at %s is not decided by the instruction fields' % (show(s['c'])[:60], loc(s, f)))
            stmts = s['b']['s'] if s['b']['k'] == 'Compound' else [s['b']]
            active = False
            matched = any(val(x_['lhs']) == c for st in stmts for x_ in _labels(st) if x_['k'] == 'Case')
            for st in stmts:
                x_ = st
                for lab in _labels(st):
                    if (lab['k'] == 'Case' and val(lab['lhs']) == c) or (lab['k'] == 'Default' and not matched):
                        active = True
                while x_['k'] in ('Case', 'Default'):
                    x_ = x_['sub']
                if active:
                    r_ = self._stmt(f, x_, ev, depth)
                    if r_ == 'break':
                        return
                    if r_:
                        return r_
            return
        if k in ('Decl', 'Null'):
            ev._exec(s, [])
            return
        top = strip_all(s)
        if top['k'] == 'Call':
            nm = top.get('name')
            where = loc(top, f)
            self.sync_pos(ev)
            if nm == '__builtin_unreachable':
                raise AnalysisBroken('X86-HSEM: unreachable statement reached at %s' % where)
            if nm == 'emitByte':
                self.put(ev.ev(top['a'][0]).resize(8, False), 1, where)
                return
            if nm == 'emit32':
                self.put(ev.ev(top['a'][0]).resize(32, False), 4, where)
                return
            if nm == 'emit64':
                self.put(ev.ev(top['a'][0]).resize(64, False), 8, where)
                return
            if nm == 'emit':
                a = strip_all(top['a'][0])
                while a['k'] == 'Cast':
                    a = strip_all(a['e'])
                g = self.F.glob(a['q']) if a['k'] == 'Ref' and a.get('q') and self.F.has_glob(a['q']) else None
                if g is None or not g.get('init') or g['init']['k'] != 'InitList':
                    raise AnalysisBroken('X86-HSEM: emit of something that is not a constant byte table at %s' % where)
                els = [val(e) for e in g['init']['e']]
                if None in els:
                    raise AnalysisBroken('X86-HSEM: byte table %s is not constant' % a['q'])
                cnt = len(els)
                if len(top['a']) == 2:
                    cnt = ev.ev(top['a'][1]).value()
                    if cnt is None or cnt > len(els):
                        raise AnalysisBroken('X86-HSEM: emit length at %s' % where)
                self.bytes += els[:cnt]
                return
            fn_ = top.get('fn')
            if fn_ and fn_.startswith(self.cls + '::') and self.F.has_func(fn_) and self.F.func(fn_).get('body') is not None:
                g = self.F.func(fn_)
                args = []
                for prm, a in zip(g['params'], top['a']):
                    args.append(ev.ev(a) if type_info(prm.get('ty')) is not None else None)
                sub_ = X86Exec(self.F, self.cls, self.fields, self.overrides)
                sub_.env_extra = getattr(self, 'env_extra', {})
                sub_.run(g, args, depth + 1)
                self.bytes += sub_.bytes
                return
            raise AnalysisBroken('X86-HSEM: unexpected call %s at %s' % (show(top)[:60], where))
        if top['k'] in ('Assign', 'CAssign'):
            ev._exec(top, [])
            return
        if top['k'] == 'Un':
            self._unary(top, ev)
            return
        if not any(c.get('name') not in ('__assert_fail', '__builtin_expect') for c in astq.calls(top)):
            return
        raise AnalysisBroken('X86-HSEM: unsupported statement %s at %s' % (show(top)[:60], loc(s, f)))

    def _unary(self, top, ev):
        if top['k'] == 'Un' and ('++' in top.get('op', '') or '--' in top.get('op', '')):
            e = strip_all(top['e'])
            if e['k'] == 'Ref' and e.get('id') in ev.env:
                cur = ev.env[e['id']]
                one = KB.const(cur.w, 1)
                ev.env[e['id']] = cur.add(one) if '++' in top['op'] else cur.sub(one)


def _labels(st):
    out = []
    while st['k'] in ('Case', 'Default'):
        out.append(st)
        st = st['sub']
    return out


def disassemble(seqs):
    """{bytes tuple: [(mnemonic, operand string, length)]} -- one objdump run over NOP-padded slots"""
    uniq = sorted(set(seqs))
    for b in uniq:
        if len(b) > SLOT - 16:
            raise AnalysisBroken('X86-HSEM: a handler emits %d bytes for one register-form instruction' % len(b))
    blob = bytearray()
    for b in uniq:
        blob += bytes(b) + b'\x90' * (SLOT - len(b))
    d = tempfile.mkdtemp(prefix='rxx86_')
    try:
        p = os.path.join(d, 'code.bin')
        with open(p, 'wb') as fh:
            fh.write(blob)
        r = subprocess.run(['objdump', '-D', '-b', 'binary', '-mi386:x86-64', '-M', 'intel', '-w', p], stdout=subprocess.PIPE, stderr=subprocess.PIPE, text=True)
        if r.returncode:
            raise AnalysisBroken('X86-HSEM: objdump failed: %s' % r.stderr[-200:])
        out = {b: [] for b in uniq}
        for ln in r.stdout.split('\n'):
            m = re.match(r'^\s*([0-9a-f]+):\s+((?:[0-9a-f]{2} )+)\s*(.*)$', ln)
            if not m:
                continue
            addr = int(m.group(1), 16)
            nb = len(m.group(2).split())
            text = m.group(3).strip()
            slot, off = divmod(addr, SLOT)
            if slot >= len(uniq):
                continue
            b = uniq[slot]
            if off >= len(b):
                continue        # padding
            mn = text.split(None, 1)
            out[b].append((mn[0] if mn else '(bad)', mn[1].strip() if len(mn) > 1 else '', nb, off))
        return out
    finally:
        import shutil
        shutil.rmtree(d, ignore_errors=True)


class NotInteger(Exception):
    pass


class Machine:
    def __init__(self):
        self.r = {}
        for i in range(8):
            self.r[8 + i] = atom(('reg', i))

    def get(self, n):
        return self.r.get(n, atom(('undef', n)))

    def operand(self, s):
        """value of a source operand: 64-bit register or immediate"""
        s = s.strip()
        if s in REG64:
            return self.get(REG64[s])
        if re.match(r'^-?0x[0-9a-f]+$', s) or re.match(r'^-?\d+$', s):
            return const(int(s, 0))
        return None

    def lea(self, dst, mem):
        m = re.match(r'^\[(.*)\]$', mem)
        if not m or dst not in REG64:
            return False
        tot = const(0)
        for sign, part in re.findall(r'([+-]?)\s*([^+-]+)', m.group(1)):
            part = part.strip()
            mm = re.match(r'^(\w+)\*(\d)$', part)
            if mm and mm.group(1) in REG64:
                v = scale(self.get(REG64[mm.group(1)]), int(mm.group(2)))
            elif part in REG64:
                v = self.get(REG64[part])
            elif re.match(r'^0x[0-9a-f]+$', part) or part.isdigit():
                v = const(int(part, 0))
            else:
                return False
            tot = add(tot, neg(v) if sign == '-' else v)
        self.r[REG64[dst]] = tot
        return True

    def step(self, mn, ops):
        o = [x.strip() for x in ops.split(',')] if ops else []
        if mn == 'lea' and len(o) == 2:
            return self.lea(o[0], ops.split(',', 1)[1].strip())
        if mn in ('add', 'sub', 'xor', 'imul') and len(o) == 2 and o[0] in REG64:
            b = self.operand(o[1])
            if b is None:
                return False
            a = self.get(REG64[o[0]])
            self.r[REG64[o[0]]] = {'add': add, 'sub': sub, 'xor': xor, 'imul': mul}[mn](a, b)
            return True
        if mn == 'imul' and len(o) == 3 and o[0] in REG64:
            a, b = self.operand(o[1]), self.operand(o[2])
            if a is None or b is None:
                return False
            self.r[REG64[o[0]]] = mul(a, b)
            return True
        if mn in ('mul', 'imul') and len(o) == 1 and o[0] in REG64:
            a, b = self.get(0), self.get(REG64[o[0]])
            self.r[2] = hi('umulh' if mn == 'mul' else 'smulh', a, b)
            self.r[0] = mul(a, b)
            return True
        if mn == 'neg' and len(o) == 1 and o[0] in REG64:
            self.r[REG64[o[0]]] = neg(self.get(REG64[o[0]]))
            return True
        if mn in ('mov', 'movabs') and len(o) == 2:
            if o[0] in REG64:
                b = self.operand(o[1])
                if b is None:
                    return False
                self.r[REG64[o[0]]] = b
                return True
            if o[0] in REG32 and o[1] in REG32:
                self.r[REG32[o[0]]] = V.andd(self.get(REG32[o[1]]), const(0xffffffff))
                return True
            return False
        if mn in ('ror', 'rol') and len(o) == 2 and o[0] in REG64:
            a = self.get(REG64[o[0]])
            if o[1] == 'cl':
                c = self.get(1)
                at = V.single_atom(c)
                if at is not None and at[0] == 'and':
                    # only the low six bits of cl count: and(x, m) with m covering them is x
                    x1, x2 = V.lin_of(at[1]), V.lin_of(at[2])
                    for m_, x_ in ((x1, x2), (x2, x1)):
                        if m_.is_const() and (m_.c & 63) == 63:
                            c = x_
                amt = c
            else:
                b = self.operand(o[1])
                if b is None:
                    return False
                amt = b
            self.r[REG64[o[0]]] = ror(a, amt if mn == 'ror' else neg(amt))
            return True
        if mn in ('shl', 'sal', 'shr') and len(o) == 2 and o[0] in REG64:
            b = self.operand(o[1]) if o[1] != 'cl' else None
            if b is None or not b.is_const():
                return False
            a = self.get(REG64[o[0]])
            self.r[REG64[o[0]]] = scale(a, 1 << (b.c % 64)) if mn in ('shl', 'sal') else V.srl(a, b.c % 64)
            return True
        if mn == 'xchg' and len(o) == 2 and o[0] in REG64 and o[1] in REG64:
            a, b = REG64[o[0]], REG64[o[1]]
            self.r[a], self.r[b] = self.get(b), self.get(a)
            return True
        if mn == 'nop':
            return True
        return False


def expected(name, d, s, sh, imm):
    if name == 'IMUL_RCP':
        r = [atom(('reg', i)) for i in range(8)]
        if imm & (imm - 1):
            r[d] = mul(r[d], const(RCP_MARK))
        return r
    return T.expected(name, d, s, sh, imm, None)


@memoised('X86-HSEM')
def rule_hsem(ctx, R):
    if STRICT_FAMILY:
        R.note('rule_hsem skipped: RXVERIF_STRICT_FAMILY=1 (emitted-code / executor evaluation on terms switched off, see DESIGN.md 9.2)')
        return
    F, hs = jit.handlers(ctx, 'x86')
    cls = 'randomx::JitCompilerX86'
    R.rule('X86-HSEM', 'for the ten integer register-form instructions and IMUL_RCP the bytes the x86-64 handler emits, disassembled and given their architectural meaning on a register file of terms over r0..r7 (r8..r15), leave in the eight VM '
           'registers exactly the terms of specification 5.2 (sign-extended immediate when src == dst, scale and displacement of IADD_RS, rotation counts mod 64, high products through rax / rdx, reciprocal as a 64-bit multiplier); '
           'for every dst x src, every shift, 16 boundary immediates (rotation: all 64 counts)', min_instances=2500)
    R.saw(config='K0', unit='src/jit_compiler_x86.cpp')
    cases = []
    for name in HANDLERS:
        if name not in hs:
            raise AnalysisBroken('X86-HSEM: handler of %s not found' % name)
        h = hs[name].f
        R.saw(fn=h['q'])
        shifts = (0, 1, 2, 3) if name == 'IADD_RS' else (0,)
        if name in ('IROR_R', 'IROL_R'):
            imms = tuple(range(64)) + (0xFFFFFFC0, 0x80000040, 0xFFFFFFFF, 0x7FFFFFC1)
        elif name in ('ISUB_R', 'IMUL_R', 'IXOR_R', 'IADD_RS'):
            imms = T.IMMS
        elif name == 'IMUL_RCP':
            imms = (3, 0, 1, 0x80000000, 0xFFFFFFFF, 0x40000000, 6)
        else:
            imms = (0x12345678,)
        for d in range(8):
            for s in range(8):
                if name == 'IMUL_RCP' and s != 0:
                    continue
                for sh in shifts:
                    uses_imm = (s == d and name in ('ISUB_R', 'IMUL_R', 'IXOR_R', 'IROR_R', 'IROL_R')) or (name == 'IADD_RS' and d == 5) or name == 'IMUL_RCP'
                    for imm in (imms if uses_imm else imms[:1]):
                        fields = {'dst': KB.const(8, d), 'src': KB.const(8, s), 'mod': KB.const(8, sh << 2)}
                        ov = {'randomx::Instruction::getImm32': KB.const(32, imm), 'randomx::Instruction::getModShift': KB.const(32, sh),
                              'randomx::Instruction::getModMem': KB.const(32, 0), 'randomx::Instruction::getModCond': KB.const(32, 0),
                              'randomx_reciprocal_fast': KB.const(64, RCP_MARK), 'randomx_reciprocal': KB.const(64, RCP_MARK),
                              'randomx::isZeroOrPowerOf2': KB.const(8, int(imm & (imm - 1) == 0))}
                        ex = X86Exec(F, cls, fields, ov)
                        ex.run(h, [None, KB.const(32, 7)])
                        cases.append((name, h, d, s, sh, imm, uses_imm, tuple(ex.bytes)))
    dis = disassemble([c[-1] for c in cases if c[-1]])
    n = 0
    for name, h, d, s, sh, imm, uses_imm, code in cases:
        n += 1
        where = '%s:%d' % (h['file'], h['line'])
        m = Machine()
        tr = []
        bad = None
        pos = 0
        for mn, ops, nb, off in (dis.get(code, []) if code else []):
            tr.append((mn + ' ' + ops).strip())
            if off != pos or off + nb > len(code) or mn == '(bad)':
                bad = 'the bytes %s do not decode to whole instructions (%s)' % (bytes(code).hex(), ' ; '.join(tr))
                break
            pos = off + nb
            if not m.step(mn, ops):
                if re.match(r'^(j\w+|call|ret|push|pop|movs|stos|lods|cmps|scas|int\d?|hlt|ud2|syscall|f\w+|v\w+|p\w+|\w+pd|\w+ps|\w+sd|\w+ss|ldmxcsr|stmxcsr)$', mn) or '[' in ops:
                    bad = 'after `%s` the handler emits `%s %s`, which is not a register-to-register integer instruction' % (' ; '.join(tr[:-1]), mn, ops)
                    break
                raise AnalysisBroken('X86-HSEM: instruction `%s %s` emitted by %s is outside the modelled subset' % (mn, ops, h['q']))
        if bad is None and code and pos != len(code):
            bad = 'the bytes %s do not decode to whole instructions (%s)' % (bytes(code).hex(), ' ; '.join(tr))
        if bad is None:
            got = [m.get(8 + i) for i in range(8)]
            exp = expected(name, d, s, sh, imm)
            for i in range(8):
                if got[i] != exp[i]:
                    differs = None
                    for vals in T.VALUATIONS:
                        a_, b_ = T.term_eval(got[i].canon(), vals), T.term_eval(exp[i].canon(), vals)
                        if a_ != b_:
                            differs = (vals, a_, b_)
                            break
                    if differs is None:
                        raise AnalysisBroken('X86-HSEM: %s dst=r%d src=r%d: r%d is %s, the specification says %s; the two terms agree on every test valuation, equivalence undecided'
                                             % (name, d, s, i, T.term_show(got[i], None), T.term_show(exp[i], None)))
                    bad = 'r%d = %s after `%s` (specification: %s); e.g. with r%d = %#x%s the code gives %#x, the specification %#x' % (
                        i, T.term_show(got[i], None), ' ; '.join(tr), T.term_show(exp[i], None), d, differs[0][d], '' if s == d else ', r%d = %#x' % (s, differs[0][s]), differs[1], differs[2])
                    break
        inst = '%s dst=r%d src=r%d%s%s' % (name, d, s, ' shift=%d' % sh if name == 'IADD_RS' else '', ' imm32=%#x' % imm if uses_imm else '')
        if bad:
            R.violation(inst, where, expected='registers as in specification 5.2', found=bad)
        else:
            R.ok(inst, where)
    if n < 2500:
        raise AnalysisBroken('X86-HSEM: only %d cases evaluated' % n)


# ---------------------------------------------------------------------------------------------------------------------------
# SuperscalarHash emitter

def ss_expected(name, d, s, sh, imm):
    """specification Table 6.1.1"""
    r = [atom(('reg', i)) for i in range(8)]
    simm = const(imm | (0xffffffff00000000 if imm >> 31 else 0))
    if name == 'ISUB_R':
        r[d] = sub(r[d], r[s])
    elif name == 'IXOR_R':
        r[d] = xor(r[d], r[s])
    elif name == 'IADD_RS':
        r[d] = add(r[d], scale(r[s], 1 << sh))
    elif name == 'IMUL_R':
        r[d] = mul(r[d], r[s])
    elif name == 'IROR_C':
        r[d] = ror(r[d], const(imm & 63))
    elif name.startswith('IADD_C'):
        r[d] = add(r[d], simm)
    elif name.startswith('IXOR_C'):
        r[d] = xor(r[d], simm)
    elif name == 'IMULH_R':
        r[d] = hi('umulh', r[d], r[s])
    elif name == 'ISMULH_R':
        r[d] = hi('smulh', r[d], r[s])
    elif name == 'IMUL_RCP':
        r[d] = mul(r[d], const(RCP_MARK))
    else:
        raise AnalysisBroken('X86-HSEM: no specification term for SuperscalarHash instruction ' + name)
    return r


def ss_cases(types):
    """(name, dst, src, shift, imm) for every instruction kind; operand combinations the generator can produce (spec 6.1.1 rules: IADD_RS never targets r5,
    the rotation count and the reciprocal divisor are never trivial)"""
    for name in sorted(types):
        for d in range(8):
            for s in range(8):
                if name == 'IADD_RS' and d == 5:
                    continue
                if name in ('IROR_C',) or name.startswith('IADD_C') or name.startswith('IXOR_C') or name == 'IMUL_RCP':
                    if s != 0:
                        continue
                    imms = (1, 31, 32, 63) if name == 'IROR_C' else ((3, 0xFFFFFFFF, 0x80000001) if name == 'IMUL_RCP' else T.IMMS)
                    for imm in imms:
                        yield name, d, d, 0, imm
                    continue
                for sh in ((0, 1, 2, 3) if name == 'IADD_RS' else (0,)):
                    yield name, d, s, sh, 0x12345678


@memoised('X86-SS-HSEM')
def rule_ss_hsem(ctx, R):
    if STRICT_FAMILY:
        R.note('rule_ss_hsem skipped: RXVERIF_STRICT_FAMILY=1 (emitted-code / executor evaluation on terms switched off, see DESIGN.md 9.2)')
        return
    F, hs = jit.handlers(ctx, 'x86')
    cls = 'randomx::JitCompilerX86'
    R.rule('X86-SS-HSEM', 'for each of the 14 SuperscalarHash instruction kinds the bytes generateSuperscalarCode emits, disassembled and given their architectural meaning on terms over r0..r7, compute what specification Table 6.1.1 '
           'prescribes (sign-extended constants, rotation count, scaled source, high products, cached reciprocal as multiplier) and change no other register; every dst x src the generator can produce, boundary constants', min_instances=500)
    R.saw(config='K0', unit='src/jit_compiler_x86.cpp')
    g = F.func(cls + '::generateSuperscalarCode')
    R.saw(fn=g['q'])
    types = {k: v for k, v in F.enum('randomx::SuperscalarInstructionType').items() if k not in ('COUNT', 'INVALID')}
    cases = []
    for name, d, s, sh, imm in ss_cases(types):
        fields = {'dst': KB.const(8, d), 'src': KB.const(8, s), 'mod': KB.const(8, sh << 2), 'opcode': KB.const(8, types[name])}
        ov = {'randomx::Instruction::getImm32': KB.const(32, imm), 'randomx::Instruction::getModShift': KB.const(32, sh),
              'std::vector<unsigned long, std::allocator<unsigned long>>::operator[]': KB.const(64, RCP_MARK), 'randomx_reciprocal_fast': KB.const(64, RCP_MARK), 'randomx_reciprocal': KB.const(64, RCP_MARK)}
        ex = X86Exec(F, cls, fields, ov)
        ex.run(g, [None, None])
        cases.append((name, d, s, sh, imm, tuple(ex.bytes)))
    dis = disassemble([c[-1] for c in cases if c[-1]])
    where = '%s:%d' % (g['file'], g['line'])
    n = 0
    for name, d, s, sh, imm, code in cases:
        n += 1
        m = Machine()
        tr, bad, pos = [], None, 0
        if not code:
            bad = 'nothing is emitted'
        for mn, ops, nb, off in (dis.get(code, []) if code else []):
            tr.append((mn + ' ' + ops).strip())
            if off != pos or off + nb > len(code) or mn == '(bad)':
                bad = 'the bytes %s do not decode to whole instructions (%s)' % (bytes(code).hex(), ' ; '.join(tr))
                break
            pos = off + nb
            if not m.step(mn, ops):
                bad = 'after `%s` the emitter produces `%s %s`, which is not a register-to-register integer instruction of the modelled subset' % (' ; '.join(tr[:-1]), mn, ops)
                break
        if bad is None and pos != len(code):
            bad = 'the bytes %s do not decode to whole instructions' % bytes(code).hex()
        if bad is None:
            got = [m.get(8 + i) for i in range(8)]
            exp = ss_expected(name, d, s, sh, imm)
            for i in range(8):
                if got[i] != exp[i]:
                    differs = None
                    for vals in T.VALUATIONS:
                        a_, b_ = T.term_eval(got[i].canon(), vals), T.term_eval(exp[i].canon(), vals)
                        if a_ != b_:
                            differs = (vals, a_, b_)
                            break
                    if differs is None:
                        raise AnalysisBroken('X86-SS-HSEM: %s dst=r%d src=r%d: r%d is %s, the specification says %s; equivalence undecided' % (name, d, s, i, T.term_show(got[i], None), T.term_show(exp[i], None)))
                    bad = 'r%d = %s after `%s` (specification: %s); e.g. the code gives %#x, the specification %#x' % (i, T.term_show(got[i], None), ' ; '.join(tr), T.term_show(exp[i], None), differs[1], differs[2])
                    break
        inst = 'superscalar %s dst=r%d src=r%d%s imm32=%#x' % (name, d, s, ' shift=%d' % sh if name == 'IADD_RS' else '', imm)
        if bad:
            R.violation(inst, where, expected='registers as in specification Table 6.1.1', found=bad)
        else:
            R.ok(inst, where)
    if n < 500:
        raise AnalysisBroken('X86-SS-HSEM: only %d cases evaluated' % n)


# ---------------------------------------------------------------------------------------------------------------------------
# memory-form integer instructions and ISTORE

def and_(x, y):
    """and with merging of nested constant masks: and(and(a, c1), c2) = and(a, c1 & c2); under a mask below 2^k only the value mod 2^k of the other operand matters,
    so its linear form is reduced mod 2^k (x + (imm & (2^k - 1)) and x + sext(imm) become the same term)"""
    for a_, b_ in ((x, y), (y, x)):
        if b_.is_const() and not a_.is_const():
            k = b_.c.bit_length()
            if k < 64:
                mod = 1 << k
                red = Lin(a_.c % mod, {t_: c_ % mod for t_, c_ in a_.t.items()})
                if red != a_:
                    return and_(red, b_)
    for a_, b_ in ((x, y), (y, x)):
        if b_.is_const():
            at = V.single_atom(a_)
            if at is not None and at[0] == 'and':
                p1, p2 = V.lin_of(at[1]), V.lin_of(at[2])
                for m_, z_ in ((p1, p2), (p2, p1)):
                    if m_.is_const():
                        return and_(z_, const(m_.c & b_.c))
            if a_.is_const():
                return const(a_.c & b_.c)
    return V.andd(x, y)


def ld64(addr):
    return atom(('ld64', addr.canon()))


class MemMachine(Machine):
    """adds: rsi = scratchpad base, 32-bit lea / and on eax / ecx, 64-bit memory source operands, one 64-bit store"""

    def __init__(self):
        Machine.__init__(self)
        self.r[6] = atom(('spad',))
        self.stores = []

    def addr(self, text):
        m = re.match(r'^(?:QWORD PTR |DWORD PTR )?\[(.*)\]$', text.strip())
        if not m:
            return None
        tot = const(0)
        for sign, part in re.findall(r'([+-]?)\s*([^+-]+)', m.group(1)):
            part = part.strip()
            mm = re.match(r'^(\w+)\*(\d)$', part)
            if mm and mm.group(1) in REG64:
                v = scale(self.get(REG64[mm.group(1)]), int(mm.group(2)))
            elif part in REG64:
                v = self.get(REG64[part])
            elif re.match(r'^0x[0-9a-f]+$', part) or part.isdigit():
                v = const(int(part, 0))
            else:
                return None
            tot = add(tot, neg(v) if sign == '-' else v)
        return tot

    def operand(self, s):
        s = s.strip()
        if s.startswith('QWORD PTR'):
            a = self.addr(s)
            return None if a is None else ld64(a)
        return Machine.operand(self, s)

    def step(self, mn, ops):
        o = [x.strip() for x in ops.split(',')] if ops else []
        if mn == 'lea' and len(o) == 2 and o[0] in REG32:
            a = self.addr(ops.split(',', 1)[1].strip())
            if a is None:
                return False
            self.r[REG32[o[0]]] = and_(a, const(0xffffffff))
            return True
        if mn == 'and' and len(o) == 2 and o[0] in REG32 and re.match(r'^0x[0-9a-f]+$|^\d+$', o[1]):
            self.r[REG32[o[0]]] = and_(and_(self.get(REG32[o[0]]), const(0xffffffff)), const(int(o[1], 0) & 0xffffffff))
            return True
        if mn in ('mul', 'imul') and len(o) == 1 and o[0].startswith('QWORD PTR'):
            b = self.operand(o[0])
            if b is None:
                return False
            a = self.get(0)
            self.r[2] = hi('umulh' if mn == 'mul' else 'smulh', a, b)
            self.r[0] = mul(a, b)
            return True
        if mn == 'mov' and len(o) == 2 and o[0].startswith('QWORD PTR') and o[1] in REG64:
            a = self.addr(o[0])
            if a is None:
                return False
            self.stores.append((a, self.get(REG64[o[1]])))
            return True
        return Machine.step(self, mn, ops)


def mem_expected(name, d, s, imm, modmem, modcond, K):
    r = [atom(('reg', i)) for i in range(8)]
    simm = const(imm | (0xffffffff00000000 if imm >> 31 else 0))
    spad = atom(('spad',))
    if name == 'ISTORE':
        mask = (K['L1'] if modmem else K['L2']) if modcond < K['StoreL3Condition'] else K['L3']
        a = add(spad, and_(add(r[d], simm), const(mask)))
        return r, [(a, r[s])]
    if s != d:
        a = add(spad, and_(add(r[s], simm), const(K['L1'] if modmem else K['L2'])))
    else:
        a = add(spad, const(imm & K['L3']))
    v = ld64(a)
    op = {'IADD_M': lambda: add(r[d], v), 'ISUB_M': lambda: sub(r[d], v), 'IMUL_M': lambda: mul(r[d], v), 'IMULH_M': lambda: hi('umulh', r[d], v),
          'ISMULH_M': lambda: hi('smulh', r[d], v), 'IXOR_M': lambda: xor(r[d], v)}[name]
    r[d] = op()
    return r, []


_prev_atom_eval = T.atom_eval


def _atom_eval(a, regs):
    if a[0] == 'spad':
        return 0x00007F0012340000
    if a[0] == 'ld64':
        x = T.term_eval(a[1], regs)
        return (x * 0x9E3779B97F4A7C15 + 0x7F4A7C15) & M64      # an arbitrary fixed memory content: a function of the address
    return _prev_atom_eval(a, regs)


T.atom_eval = _atom_eval

MEM_HANDLERS = ('IADD_M', 'ISUB_M', 'IMUL_M', 'IMULH_M', 'ISMULH_M', 'IXOR_M', 'ISTORE')
MEM_IMMS = (0, 8, 0x7FF8, 0x3FF8, 0x4000, 0x1FFFF8, 0x200000, 0x7FFFFFFF, 0x80000000, 0xFFFFFFF8, 0xFFFFFFFF, 0x12345678)
# constant-address form (src == dst): the address is imm32 & L3 mask, and every back-end has encodings that change at a power of two
# (x86 disp8 at 0x80, RISC-V 12-bit displacement at 0x800, A64 scaled 12-bit offset at 0x8000, ...): every 2^k - 8, 2^k, 2^k + 8
MEM_IMMS_CONST = tuple(sorted(set(MEM_IMMS) | set(v for k in range(4, 22) for v in ((1 << k) - 8, 1 << k, (1 << k) + 8)) | {0x78, 0xF8, 0x100, 0xFF8, 0x7FF8, 0x8008}))


@memoised('X86-MEM-HSEM')
def rule_mem_hsem(ctx, R):
    if STRICT_FAMILY:
        R.note('rule_mem_hsem skipped: RXVERIF_STRICT_FAMILY=1 (emitted-code / executor evaluation on terms switched off, see DESIGN.md 9.2)')
        return
    F, hs = jit.handlers(ctx, 'x86')
    cls = 'randomx::JitCompilerX86'
    R.rule('X86-MEM-HSEM', 'for the six memory-form integer instructions and ISTORE the bytes the x86-64 handler emits, disassembled and interpreted on terms, read (write) the 8 bytes at scratchpad + ((src + sext(imm32)) & mask) with the L1 / L2 mask '
           'chosen by mod.mem (ISTORE: L3 when mod.cond >= StoreL3Condition; src == dst: the constant address imm32 & L3 mask) and combine them with dst as specification 5.2 prescribes; every dst x src, mod.mem in {0, 1, 3}, boundary immediates', min_instances=2500)
    R.saw(config='K0', unit='src/jit_compiler_x86.cpp')
    K = {'L1': F.const('randomx::ScratchpadL1Mask'), 'L2': F.const('randomx::ScratchpadL2Mask'), 'L3': F.const('randomx::ScratchpadL3Mask'), 'StoreL3Condition': F.const('randomx::StoreL3Condition')}
    if None in K.values():
        raise AnalysisBroken('X86-MEM-HSEM: scratchpad mask constants not found (%s)' % K)
    cases = []
    for name in MEM_HANDLERS:
        if name not in hs:
            raise AnalysisBroken('X86-MEM-HSEM: handler of %s not found' % name)
        h = hs[name].f
        R.saw(fn=h['q'])
        for d in range(8):
            for s in range(8):
                for modmem in (0, 1, 3):
                    for modcond in ((0, 13, 14, 15) if name == 'ISTORE' else (0,)):
                        imms = (MEM_IMMS_CONST if (modmem == 0 and (d % 3 == 0 or getattr(ctx, 'tier', 'quick') == 'thorough')) else MEM_IMMS[:3]) if (s == d and name != 'ISTORE') else (MEM_IMMS if (d + s + modmem) % (3 if getattr(ctx, 'tier', 'quick') == 'thorough' else 7) == 0 else MEM_IMMS[5:7])
                        for imm in imms:
                            mod = modmem | (modcond << 4)
                            fields = {'dst': KB.const(8, d), 'src': KB.const(8, s), 'mod': KB.const(8, mod)}
                            ov = {'randomx::Instruction::getImm32': KB.const(32, imm), 'randomx::Instruction::getModShift': KB.const(32, (mod >> 2) & 3),
                                  'randomx::Instruction::getModMem': KB.const(32, modmem), 'randomx::Instruction::getModCond': KB.const(32, modcond)}
                            ex = X86Exec(F, cls, fields, ov)
                            ex.run(h, [None, KB.const(32, 7)])
                            cases.append((name, h, d, s, imm, modmem, modcond, tuple(ex.bytes)))
    dis = disassemble([c[-1] for c in cases if c[-1]])
    n = 0
    for name, h, d, s, imm, modmem, modcond, code in cases:
        n += 1
        where = '%s:%d' % (h['file'], h['line'])
        m = MemMachine()
        tr, bad, pos = [], None, 0
        if not code:
            bad = 'nothing is emitted'
        for mn, ops, nb, off in (dis.get(code, []) if code else []):
            tr.append((mn + ' ' + ops).strip())
            if off != pos or off + nb > len(code) or mn == '(bad)':
                bad = 'the bytes %s do not decode to whole instructions (%s)' % (bytes(code).hex(), ' ; '.join(tr))
                break
            pos = off + nb
            if not m.step(mn, ops):
                if re.match(r'^(j\w+|call|ret|push|pop|int\d?|hlt|ud2|syscall|f\w+|v\w+|p\w+|\w+pd|\w+ps|\w+sd|\w+ss|ldmxcsr|stmxcsr)$', mn) or re.search(r'\b(rip|rsp|rbp|rbx|rdi)\b', ops):
                    bad = 'after `%s` the handler emits `%s %s`: not an access to the scratchpad through rsi and the masked address' % (' ; '.join(tr[:-1]), mn, ops)
                    break
                raise AnalysisBroken('X86-MEM-HSEM: instruction `%s %s` emitted by %s is outside the modelled subset' % (mn, ops, h['q']))
        if bad is None and pos != len(code):
            bad = 'the bytes %s do not decode to whole instructions' % bytes(code).hex()
        if bad is None:
            exp, exp_st = mem_expected(name, d, s, imm, modmem, modcond, K)
            got = [m.get(8 + i) for i in range(8)]
            pairs = [('r%d' % i, got[i], exp[i]) for i in range(8)]
            if len(m.stores) != len(exp_st):
                bad = '%d store(s) after `%s`, the specification has %d' % (len(m.stores), ' ; '.join(tr), len(exp_st))
            else:
                for (ga, gv), (ea, ev_) in zip(m.stores, exp_st):
                    pairs.append(('store address', ga, ea))
                    pairs.append(('stored value', gv, ev_))
            for what, g_, e_ in (pairs if bad is None else ()):
                if g_ != e_:
                    differs = None
                    for vals in T.VALUATIONS:
                        a_, b_ = T.term_eval(g_.canon(), vals), T.term_eval(e_.canon(), vals)
                        if a_ != b_:
                            differs = (vals, a_, b_)
                            break
                    if differs is None:
                        raise AnalysisBroken('X86-MEM-HSEM: %s dst=r%d src=r%d: %s is %s, the specification says %s; equivalence undecided' % (name, d, s, what, T.term_show(g_, None), T.term_show(e_, None)))
                    bad = '%s = %s after `%s` (specification: %s); e.g. the code gives %#x, the specification %#x' % (what, T.term_show(g_, None), ' ; '.join(tr), T.term_show(e_, None), differs[1], differs[2])
                    break
        inst = '%s dst=r%d src=r%d mod.mem=%d%s imm32=%#x' % (name, d, s, modmem, ' mod.cond=%d' % modcond if name == 'ISTORE' else '', imm)
        if bad:
            R.violation(inst, where, expected='as in specification 5.2 / 5.1.? (address = (src + sext(imm32)) & mask)', found=bad)
        else:
            R.ok(inst, where)
    if n < 2500:
        raise AnalysisBroken('X86-MEM-HSEM: only %d cases evaluated' % n)


# ---------------------------------------------------------------------------------------------------------------------------
# CFROUND: bit routing

@memoised('X86-CFR-BITS')
def rule_cfround(ctx, R, FI):
    if STRICT_FAMILY:
        R.note('rule_cfround skipped: RXVERIF_STRICT_FAMILY=1 (emitted-code / executor evaluation on terms switched off, see DESIGN.md 9.2)')
        return
    """[X86-CFR-BITS] what the bytes of h_CFROUND do to MXCSR, bit by bit"""
    F, hs = jit.handlers(ctx, 'x86')
    cls = 'randomx::JitCompilerX86'
    R.rule('X86-CFR-BITS', 'the bytes h_CFROUND emits load MXCSR with the interpreter\'s reset word in which bits 13-14 (rounding control) are bits imm32 and imm32+1 (mod 64) of the source register -- i.e. (ror(src, imm32) & 3) -- '
           'unconditionally in v1 and, in v2, exactly when bits imm32+2 .. imm32+5 of the source are all zero ((ror(src, imm32) & 60) == 0); nothing else is written; decided by routing symbolic bits of the source '
           'through the decoded instructions for every src, all 64 rotation counts and both versions', min_instances=1000)
    R.saw(config='K0', unit='src/jit_compiler_x86.cpp')
    from rules.driver import reset_word, CSR_CTRL
    _f, _kb, _n = reset_word(FI)
    if (_kb.ones | _kb.zeros) & CSR_CTRL != CSR_CTRL:
        raise AnalysisBroken('X86-CFR-BITS: the interpreter reset word is not a constant (see FP-RESETWORD)')
    dflt = _kb.ones & CSR_CTRL
    h = hs['CFROUND'].f
    R.saw(fn=h['q'])
    where = '%s:%d' % (h['file'], h['line'])
    v2flag = FI.enumerator('RANDOMX_FLAG_V2')
    # the member that holds the VM flags: the one tested against the V2 enumerator in the handler
    flag_keys = set()
    for x in astq.walk(h['body']):
        if x['k'] == 'Mem' and x.get('dk') == 'Field' and 'lags' in (x.get('m') or ''):
            flag_keys.add(show(x))
    cases = []
    for v2 in (0, 1):
        for s_ in range(8):
            for imm in list(range(64)) + [0xFFFFFFC0 | 5, 0x80000000 | 17, 0x7FFFFF80 | 63]:
                fields = {'dst': KB.const(8, (s_ + 1) % 8), 'src': KB.const(8, s_), 'mod': KB.const(8, 0)}
                ov = {'randomx::Instruction::getImm32': KB.const(32, imm)}
                ex = X86Exec(F, cls, fields, ov)
                ex.env_extra = {k_: KB.const(32, v2flag if v2 else 0) for k_ in flag_keys}
                ex.run(h, [None, KB.const(32, 7)])
                cases.append((v2, s_, imm, tuple(ex.bytes)))
    dis = disassemble([c[-1] for c in cases if c[-1]])
    n = 0
    for v2, s_, imm, code in cases:
        n += 1
        bad = None
        rax = None          # list of 64 bit descriptors: 0 / 1 / ('b', k)
        loads = []          # (guard: list of bits that must all be zero, 32 bit descriptors)
        stack = None
        skip_until = None
        guard = []
        tr = []
        pos = 0
        for mn, ops, nb, off in dis.get(code, []):
            tr.append((mn + ' ' + ops).strip())
            if off != pos or mn == '(bad)':
                bad = 'bytes do not decode to whole instructions (%s)' % ' ; '.join(tr)
                break
            pos = off + nb
            o = [x.strip() for x in ops.split(',')] if ops else []
            in_skipped = skip_until is not None and off < skip_until
            if skip_until is not None and off >= skip_until:
                if off != skip_until:
                    bad = 'the conditional jump lands inside an instruction'
                    break
                skip_until = None
                guard_after = []
            g_ = list(guard) if in_skipped else []
            if mn == 'mov' and len(o) == 2 and o[0] == 'rax' and o[1] in REG64 and 8 <= REG64[o[1]] < 16:
                rax = [('b', REG64[o[1]] - 8, k) for k in range(64)]
            elif mn in ('rol', 'ror') and len(o) == 2 and o[0] == 'rax' and rax is not None:
                c = int(o[1], 0) % 64
                rax = [rax[(k - c) % 64] for k in range(64)] if mn == 'rol' else [rax[(k + c) % 64] for k in range(64)]
            elif mn == 'test' and len(o) == 2 and o[0] == 'eax' and rax is not None:
                m_ = int(o[1], 0)
                tested = [rax[k] for k in range(32) if (m_ >> k) & 1]
            elif mn in ('jne', 'jnz') and rax is not None:
                tgt = int(ops.split()[0], 16) % SLOT if re.match(r'^0x[0-9a-f]+', ops) else None
                if tgt is None or tgt <= off:
                    bad = 'unexpected jump `%s %s`' % (mn, ops)
                    break
                skip_until = tgt
                guard = list(tested)
            elif mn in ('and', 'or') and len(o) == 2 and o[0] == 'eax' and rax is not None:
                m_ = int(o[1], 0) & 0xffffffff
                lo = [(rax[k] if (m_ >> k) & 1 else 0) if mn == 'and' else (1 if (m_ >> k) & 1 else rax[k]) for k in range(32)]
                rax = lo + [0] * 32
            elif mn == 'mov' and len(o) == 2 and o[0].replace(' ', '') == 'DWORDPTR[rsp]' and o[1] == 'eax' and rax is not None:
                stack = list(rax[:32])
            elif mn == 'ldmxcsr' and stack is not None:
                loads.append((g_, list(stack)))
            elif mn == 'nop':
                pass
            else:
                bad = 'instruction `%s %s` is not part of a rounding-mode change' % (mn, ops)
                break
        if bad is None and pos != len(code):
            bad = 'bytes do not decode to whole instructions'
        if bad is None:
            c = imm & 63
            want_bits = [(dflt >> k) & 1 for k in range(32)]
            want_bits[13] = ('b', s_, c % 64)
            want_bits[14] = ('b', s_, (c + 1) % 64)
            want_guard = sorted(('b', s_, (c + j) % 64) for j in (2, 3, 4, 5)) if v2 else []
            if len(loads) != 1:
                bad = '%d MXCSR loads' % len(loads)
            else:
                g_, bits = loads[0]
                if sorted(g_, key=str) != sorted(want_guard, key=str):
                    bad = 'MXCSR is loaded when %s are zero; the specification says %s' % ([('bit %d' % x[2]) for x in g_] or 'always', [('bit %d' % x[2]) for x in want_guard] or 'always')
                elif bits != want_bits:
                    diff = [k for k in range(32) if bits[k] != want_bits[k]]
                    bad = 'MXCSR bits %s are %s, expected %s' % (diff, [bits[k] for k in diff][:4], [want_bits[k] for k in diff][:4])
        inst = 'CFROUND %s src=r%d imm32=%#x' % ('v2' if v2 else 'v1', s_, imm)
        if bad:
            R.violation(inst, where, expected='MXCSR = reset word with bits 13-14 = ror(src, imm32) & 3%s' % (', only if (ror(src, imm32) & 60) == 0' if v2 else ''), found=bad + ' [' + ' ; '.join(tr) + ']')
        else:
            R.ok(inst, where)
    if n < 1000:
        raise AnalysisBroken('X86-CFR-BITS: only %d cases' % n)


# ---------------------------------------------------------------------------------------------------------------------------
# floating-point instructions: uninterpreted packed-double operations on xmm0..15

FP_HANDLERS = ('FSWAP_R', 'FADD_R', 'FADD_M', 'FSUB_R', 'FSUB_M', 'FSCAL_R', 'FMUL_R', 'FDIV_M', 'FSQRT_R')
FP_COMM = ('add', 'mul', 'xor', 'and', 'or')


def fop(name, *args):
    if name in FP_COMM:
        args = tuple(sorted(args, key=repr))
    return (name,) + tuple(args)


class FpMachine(MemMachine):
    """xmm0-3 = f0-3, xmm4-7 = e0-3, xmm8-11 = a0-3, xmm12 scratch, xmm13 = mantissa mask, xmm14 = exponent mask of the program, xmm15 = scale mask
    (what the prologue and the loop head load into xmm13-15 is the template's business: DS-ASM / SPEC rules)"""

    def __init__(self):
        MemMachine.__init__(self)
        self.v = {}
        for i in range(4):
            self.v[i] = ('f', i)
            self.v[4 + i] = ('e', i)
            self.v[8 + i] = ('a', i)
        self.v[13], self.v[14], self.v[15] = ('mant',), ('emask',), ('scale',)

    def vget(self, n):
        return self.v.get(n, ('undef', n))

    def step(self, mn, ops):
        o = [x.strip() for x in ops.split(',')] if ops else []
        xr = lambda t: int(t[3:]) if re.match(r'^xmm\d+$', t) else None
        if mn in ('addpd', 'subpd', 'mulpd', 'divpd', 'xorps', 'xorpd', 'andps', 'andpd', 'orps', 'orpd') and len(o) == 2 and xr(o[0]) is not None and xr(o[1]) is not None:
            nm = {'addpd': 'add', 'subpd': 'sub', 'mulpd': 'mul', 'divpd': 'div', 'xorps': 'xor', 'xorpd': 'xor', 'andps': 'and', 'andpd': 'and', 'orps': 'or', 'orpd': 'or'}[mn]
            self.v[xr(o[0])] = fop(nm, self.vget(xr(o[0])), self.vget(xr(o[1])))
            return True
        if mn == 'sqrtpd' and len(o) == 2 and xr(o[0]) is not None and xr(o[1]) is not None:
            self.v[xr(o[0])] = ('sqrt', self.vget(xr(o[1])))
            return True
        if mn == 'shufpd' and len(o) == 3 and xr(o[0]) is not None and xr(o[1]) is not None:
            imm = int(o[2], 0)
            a, b = self.vget(xr(o[0])), self.vget(xr(o[1]))
            self.v[xr(o[0])] = ('swap', a) if (a == b and imm == 1) else ('shuf', a, b, imm)
            return True
        if mn == 'cvtdq2pd' and len(o) == 2 and xr(o[0]) is not None and 'PTR' in o[1]:
            a = self.addr(o[1].replace('XMMWORD', 'QWORD'))
            if a is None:
                return False
            self.v[xr(o[0])] = ('cvt', a.canon())
            return True
        return MemMachine.step(self, mn, ops)


def fp_show(t):
    if not isinstance(t, tuple):
        return str(t)
    if t[0] in ('f', 'e', 'a'):
        return '%s%d' % (t[0], t[1])
    if t[0] in ('mant', 'emask', 'scale'):
        return {'mant': 'mantissaMask', 'emask': 'exponentMask', 'scale': 'scaleMask'}[t[0]]
    if t[0] == 'cvt':
        return 'cvt(mem[%s])' % T.term_show(Lin(t[1][0], dict(t[1][1])), None)
    if t[0] == 'undef':
        return 'xmm%d(unset)' % t[1]
    return '%s(%s)' % (t[0], ', '.join(fp_show(x) if isinstance(x, tuple) else str(x) for x in t[1:]))


@memoised('X86-FP-HSEM')
def rule_fp_hsem(ctx, R):
    if STRICT_FAMILY:
        R.note('rule_fp_hsem skipped: RXVERIF_STRICT_FAMILY=1 (emitted-code / executor evaluation on terms switched off, see DESIGN.md 9.2)')
        return
    F, hs = jit.handlers(ctx, 'x86')
    cls = 'randomx::JitCompilerX86'
    R.rule('X86-FP-HSEM', 'for the nine floating-point instructions the bytes the x86-64 handler emits, disassembled and interpreted on a register file of uninterpreted packed-double terms (xmm0-3 = f, xmm4-7 = e, xmm8-11 = a), '
           'apply the operation of specification 5.3 to the right registers: f[dst] +/- a[src], f[dst] xor scaleMask, e[dst] * a[src], sqrt(e[dst]), the lane swap of f / e, and for the memory forms the operand converted from the 8 bytes at '
           'scratchpad + ((src + sext(imm32)) & mask), masked with the mantissa / exponent masks for FDIV_M; no other f / e / a register changes', min_instances=1000)
    R.saw(config='K0', unit='src/jit_compiler_x86.cpp')
    K = {'L1': F.const('randomx::ScratchpadL1Mask'), 'L2': F.const('randomx::ScratchpadL2Mask')}
    cases = []
    for name in FP_HANDLERS:
        if name not in hs:
            raise AnalysisBroken('X86-FP-HSEM: handler of %s not found' % name)
        h = hs[name].f
        R.saw(fn=h['q'])
        for d in range(8):
            for s in range(8):
                for modmem in ((0, 1, 3) if name.endswith('_M') else (0,)):
                    for imm in ((0, 0x7FFFFFF8, 0x80000000, 0xFFFFFFFF) if name.endswith('_M') and (d + s) % 4 == 0 else (0x12345678,)):
                        fields = {'dst': KB.const(8, d), 'src': KB.const(8, s), 'mod': KB.const(8, modmem)}
                        ov = {'randomx::Instruction::getImm32': KB.const(32, imm), 'randomx::Instruction::getModMem': KB.const(32, modmem), 'randomx::Instruction::getModCond': KB.const(32, 0),
                              'randomx::Instruction::getModShift': KB.const(32, 0)}
                        ex = X86Exec(F, cls, fields, ov)
                        ex.run(h, [None, KB.const(32, 7)])
                        cases.append((name, h, d, s, imm, modmem, tuple(ex.bytes)))
    dis = disassemble([c[-1] for c in cases if c[-1]])
    n = 0
    for name, h, d, s, imm, modmem, code in cases:
        n += 1
        where = '%s:%d' % (h['file'], h['line'])
        m = FpMachine()
        tr, bad, pos = [], None, 0
        if not code:
            bad = 'nothing is emitted'
        for mn, ops, nb, off in (dis.get(code, []) if code else []):
            tr.append((mn + ' ' + ops).strip())
            if off != pos or off + nb > len(code) or mn == '(bad)':
                bad = 'the bytes %s do not decode to whole instructions (%s)' % (bytes(code).hex(), ' ; '.join(tr))
                break
            pos = off + nb
            if not m.step(mn, ops):
                bad = 'after `%s` the handler emits `%s %s`, which is outside the packed-double subset' % (' ; '.join(tr[:-1]), mn, ops)
                break
        if bad is None and pos != len(code):
            bad = 'the bytes %s do not decode to whole instructions' % bytes(code).hex()
        if bad is None:
            exp = {}
            for i in range(4):
                exp[i], exp[4 + i], exp[8 + i] = ('f', i), ('e', i), ('a', i)
            fd, fs = d % 4, s % 4
            simm = const(imm | (0xffffffff00000000 if imm >> 31 else 0))
            cv = ('cvt', add(atom(('spad',)), and_(add(atom(('reg', s)), simm), const(K['L1'] if modmem else K['L2']))).canon())
            if name == 'FSWAP_R':
                exp[d] = ('swap', exp[d])
            elif name == 'FADD_R':
                exp[fd] = fop('add', ('f', fd), ('a', fs))
            elif name == 'FADD_M':
                exp[fd] = fop('add', ('f', fd), cv)
            elif name == 'FSUB_R':
                exp[fd] = ('sub', ('f', fd), ('a', fs))
            elif name == 'FSUB_M':
                exp[fd] = ('sub', ('f', fd), cv)
            elif name == 'FSCAL_R':
                exp[fd] = fop('xor', ('f', fd), ('scale',))
            elif name == 'FMUL_R':
                exp[4 + fd] = fop('mul', ('e', fd), ('a', fs))
            elif name == 'FDIV_M':
                exp[4 + fd] = ('div', ('e', fd), fop('or', fop('and', cv, ('mant',)), ('emask',)))
            elif name == 'FSQRT_R':
                exp[4 + fd] = ('sqrt', ('e', fd))
            for i in range(12):
                if m.vget(i) != exp[i]:
                    bad = 'xmm%d = %s after `%s` (specification: %s)' % (i, fp_show(m.vget(i)), ' ; '.join(tr), fp_show(exp[i]))
                    break
            if bad is None:
                for i in range(8):
                    if m.get(8 + i) != atom(('reg', i)):
                        bad = 'integer register r%d changed by a floating-point instruction (`%s`)' % (i, ' ; '.join(tr))
                        break
            if bad is None and m.stores:
                bad = 'a store is emitted'
        inst = '%s dst=%d src=%d%s' % (name, d, s, ' mod.mem=%d imm32=%#x' % (modmem, imm) if name.endswith('_M') else '')
        if bad:
            R.violation(inst, where, expected='as in specification 5.3', found=bad)
        else:
            R.ok(inst, where)
    if n < 1000:
        raise AnalysisBroken('X86-FP-HSEM: only %d cases evaluated' % n)


# ---------------------------------------------------------------------------------------------------------------------------
# CBRANCH

@memoised('X86-CBR-HSEM')
def rule_cbranch(ctx, R):
    if STRICT_FAMILY:
        R.note('rule_cbranch skipped: RXVERIF_STRICT_FAMILY=1')
        return
    F, hs = jit.handlers(ctx, 'x86')
    cls = 'randomx::JitCompilerX86'
    R.rule('X86-CBR-HSEM', 'the bytes h_CBRANCH emits are `add dst, imm` with the immediate of specification 5.4.3 (bit mod.cond + 8 set, the bit below it cleared, sign-extended), `test dst, 0xFF << (mod.cond + 8)` on the same register '
           'and a `jz` whose displacement, added to the address after the jump, is the code offset recorded for the instruction after the last one that modified the register (registerUsage[dst] + 1); '
           'for every dst, every mod.cond, boundary immediates and several (target offset, current position) pairs, forwards never', min_instances=500)
    R.saw(config='K0', unit='src/jit_compiler_x86.cpp')
    h = hs['CBRANCH'].f
    R.saw(fn=h['q'])
    where = '%s:%d' % (h['file'], h['line'])
    co = F.const('randomx::ConditionOffset')
    cm = F.const('randomx::ConditionMask')
    if co is None or cm is None:
        raise AnalysisBroken('X86-CBR-HSEM: ConditionOffset / ConditionMask not found')
    # the table read for the jump target and the member read for the last writer
    vec_fn = None
    usage_keys = set()
    for c in astq.calls(h['body']):
        if c.get('opcall') == '[]' and 'vector' in (c.get('fn') or ''):
            vec_fn = c['fn']
    for x in astq.walk(h['body']):
        if x['k'] == 'Idx' and show(x['b']).split('>')[-1].split('.')[-1] in ('registerUsage',) and strip_all(x['i'])['k'] != 'Ref' or (x['k'] == 'Idx' and 'registerUsage' in show(x['b'])):
            usage_keys.add(show(x))
    if vec_fn is None:
        raise AnalysisBroken('X86-CBR-HSEM: the jump-target table access was not found in h_CBRANCH')
    cases = []
    for d in range(8):
        for cond in range(16):
            for imm in (0, 0xFFFFFFFF, 0x80000000, 0x7FFFFFFF, 0x00FF00FF):
                for pos0, tgt_off, last in ((0x400, 0x123, 3), (0x7FF0, 0x40, 0), (0x900, 0x8F0, 250)):
                    if (d + cond + (imm & 1)) % 3 and pos0 != 0x400:
                        continue
                    fields = {'dst': KB.const(8, d), 'src': KB.const(8, (d + 1) % 8), 'mod': KB.const(8, cond << 4)}
                    ov = {'randomx::Instruction::getImm32': KB.const(32, imm), 'randomx::Instruction::getModCond': KB.const(32, cond), vec_fn: KB.const(32, tgt_off)}
                    ex = X86Exec(F, cls, fields, ov)
                    ex.pos0 = pos0
                    ex.env_extra = {k_: KB.const(32, last) for k_ in usage_keys}
                    ex.env_extra['this->codePos'] = KB.const(32, pos0)
                    ex.run(h, [None, KB.const(32, last + 5)])
                    cases.append((d, cond, imm, pos0, tgt_off, tuple(ex.bytes)))
    dis = disassemble([c[-1] for c in cases if c[-1]])
    uniq = sorted(set(c[-1] for c in cases if c[-1]))
    slot_of = {b: i for i, b in enumerate(uniq)}
    n = 0
    for d, cond, imm, pos0, tgt_off, code in cases:
        n += 1
        shift = cond + co
        want_imm = ((imm | (1 << shift)) & ~(1 << (shift - 1))) & 0xffffffff if (co > 0 or shift > 0) else (imm | (1 << shift)) & 0xffffffff
        want_imm_s = want_imm | (0xffffffff00000000 if want_imm >> 31 else 0)
        want_mask = (cm << shift) & 0xffffffff
        ins = dis.get(code, [])
        bad = None
        tr = [(mn + ' ' + ops).strip() for mn, ops, nb, off in ins]
        reg = 'r%d' % (8 + d)
        if len(ins) != 3 or [i_[0] for i_ in ins] != ['add', 'test', 'je']:
            bad = 'expected add / test / je, found `%s`' % ' ; '.join(tr)
        else:
            (m1, o1, n1, f1), (m2, o2, n2, f2), (m3, o3, n3, f3) = ins
            a1 = [x.strip() for x in o1.split(',')]
            a2 = [x.strip() for x in o2.split(',')]
            if a1[0] != reg or (int(a1[1], 0) & M64) != want_imm_s:
                bad = '`%s`: the specification adds %#x to r%d' % (tr[0], want_imm_s, d)
            elif a2[0] != reg or (int(a2[1], 0) & 0xffffffff) != want_mask or (int(a2[1], 0) >> 32) not in (0,):
                bad = '`%s`: the specification tests r%d against %#x' % (tr[1], d, want_mask)
            else:
                tgt_abs = int(o3.split()[0], 16)
                if tgt_abs >> 63:
                    tgt_abs -= 1 << 64
                rel = tgt_abs - (slot_of[code] * SLOT + f3 + n3)
                lands = pos0 + f3 + n3 + rel
                if lands != tgt_off:
                    bad = 'the jump lands at code offset %#x, the target instruction starts at %#x (`%s`, emitted at %#x)' % (lands & 0xffffffff, tgt_off, tr[2], pos0)
        inst = 'CBRANCH dst=r%d mod.cond=%d imm32=%#x at %#x -> %#x' % (d, cond, imm, pos0, tgt_off)
        if bad:
            R.violation(inst, where, expected='add r, imm\' ; test r, mask ; jz target', found=bad)
        else:
            R.ok(inst, where)
    if n < 500:
        raise AnalysisBroken('X86-CBR-HSEM: only %d cases' % n)
