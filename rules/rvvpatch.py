"""[RVV-PATCH-MUST] in-place patches of the per-VM copy of the RISC-V vector code template are written on every path.

generateProgramVectorRV64 does not regenerate the template: it overwrites single words of the copy that the constructor made once.  Whatever a call leaves at such
a word is still there at the next call, which may come with other flags (v1 <-> v2 switch, another program).  A word that is an instruction on a path from the
program entry must therefore be written by every call - a word written under one condition only keeps, under the other, what the previous program needed.

Must-write / may-write sets of (label, byte offset) are computed structurally over the function body (if: intersection / union; loops and switches contribute
to may only); a site in may \\ must is reported when the assembled template shows it is an instruction reachable from the program entry; for data words it is only noted."""
import re

import astq
from astq import loc, show, strip_all, val, walk
from core import AnalysisBroken
from rules import jit

PFX = 'randomx_riscv64_vector_'


def _labels(e):
    return [x.get('n') for x in walk(e) if x['k'] == 'Ref' and (x.get('n') or '').startswith(PFX)]


def _label_of(e):
    ls = set(_labels(e))
    if PFX + 'code_begin' in ls and len(ls) == 2 and any(x['k'] == 'Ref' and x.get('n') == 'buf' for x in walk(e)):
        return [l for l in ls if l != PFX + 'code_begin'][0]
    return None


def _base_off(e, vars_):
    """(variable id, byte offset | None) of a pointer expression built from a known pointer variable and constants"""
    e = strip_all(e)
    while e['k'] == 'Cast':
        e = strip_all(e['e'])
    if e['k'] == 'Ref' and e.get('id') in vars_:
        return e['id'], 0
    if e['k'] == 'Bin' and e.get('op') in ('+',):
        for a, b in ((e['l'], e['r']), (e['r'], e['l'])):
            bo = _base_off(a, vars_)
            if bo is not None:
                c = val(b)
                if c is None or bo[1] is None:
                    return bo[0], None
                sz = _elem(a)
                return bo[0], bo[1] + c * sz
    return None


def _elem(e):
    t = (strip_all(e).get('ty') or '')
    if re.match(r'^(const )?(unsigned )?char \*|^(const )?u?int8_t \*|^void \*', t):
        return 1
    if re.match(r'^(const )?(unsigned )?short \*|u?int16_t \*', t):
        return 2
    if re.match(r'^(const )?(unsigned )?int \*|u?int32_t \*', t):
        return 4
    if re.match(r'^(const )?(unsigned )?long( long)? \*|u?int64_t \*', t):
        return 8
    return 1


class _An:
    def __init__(self, f):
        self.f = f
        self.vars = {}      # id -> label
        self.cursor = set()
        for x in walk(f['body']):
            if x['k'] == 'Decl':
                for d in x.get('d', []):
                    if astq.is_node(d.get('init')) and d.get('ty', '').endswith('*'):
                        l = _label_of(d['init'])
                        if l:
                            self.vars[d['id']] = l
        for x in walk(f['body']):
            if x['k'] in ('Assign', 'CAssign'):
                t = strip_all(x['l'])
                if t['k'] == 'Ref' and t.get('id') in self.vars:
                    self.cursor.add(t['id'])
            if x['k'] == 'Un' and ('++' in x.get('op', '') or '--' in x.get('op', '')):
                t = strip_all(x['e'])
                if t['k'] == 'Ref' and t.get('id') in self.vars:
                    self.cursor.add(t['id'])
        self.where = {}

    def site(self, ptr_expr, node):
        bo = _base_off(ptr_expr, self.vars)
        if bo is None or bo[0] in self.cursor:
            return None
        s = (self.vars[bo[0]], bo[1])
        self.where.setdefault(s, loc(node, self.f))
        return s

    def writes(self, e):
        out = set()
        for x in walk(e):
            if x['k'] in ('Assign', 'CAssign'):
                t = strip_all(x['l'])
                if t['k'] == 'Un' and t.get('op') == '*':
                    s = self.site(t['e'], x)
                    if s:
                        out.add(s)
                elif t['k'] == 'Idx':
                    k = val(t['i'])
                    bo = _base_off(t['b'], self.vars)
                    if bo is not None and bo[0] not in self.cursor:
                        s = (self.vars[bo[0]], None if (k is None or bo[1] is None) else bo[1] + k * _elem(t['b']))
                        self.where.setdefault(s, loc(x, self.f))
                        out.add(s)
            elif x['k'] == 'Call' and x.get('name') in ('memcpy', '__builtin_memcpy', '__builtin___memcpy_chk', 'memset') and x.get('a'):
                s = self.site(x['a'][0], x)
                if s:
                    out.add(s)
        return out

    def mm(self, s):
        """(must, may)"""
        if s is None or not astq.is_node(s):
            return set(), set()
        k = s['k']
        if k == 'Compound':
            must, may = set(), set()
            for x in s['s']:
                a, b = self.mm(x)
                must |= a
                may |= b
                if x['k'] == 'Return':
                    break
            return must, may
        if k == 'If':
            c = self.writes(s['c'])
            a1, b1 = self.mm(s['t'])
            a2, b2 = self.mm(s.get('e'))
            return c | (a1 & a2), c | b1 | b2
        if k in ('While', 'For'):
            w = set()
            for key in ('init', 'c', 'inc', 'b'):
                if astq.is_node(s.get(key)):
                    w |= self.mm(s[key])[1] if s[key]['k'] in ('Compound', 'If', 'While', 'For', 'Do', 'Switch') else self.writes(s[key])
            return set(), w
        if k == 'Do':
            return self.mm(s['b'])
        if k == 'Switch':
            return set(), self.mm(s['b'])[1] | self.writes(s['c'])
        if k in ('Case', 'Default'):
            return set(), self.mm(s['sub'])[1]
        w = self.writes(s)
        return set(w), set(w)


def rule_patch_must(ctx, R):
    import rtasm
    F, hs = jit.handlers(ctx, 'rvv')
    R.rule('RVV-PATCH-MUST', 'the generators of the RISC-V vector back-end patch single words of the per-VM copy of the code template in place, and the copy keeps them until the next call (other program, other flags, v1 <-> v2): '
           'every patched word that is an instruction on a path from the entry of the generated routine is written on every path through the generator (must-write = may-write); a word patched under one condition only '
           'would keep under the other what the previous program needed', min_instances=6)
    R.saw(config='K3', unit='src/jit_compiler_rv64_vector.cpp')
    P = rtasm.Prog(ctx.obj('rvv'), 'rv')
    R.saw(config='K3', unit='src/jit_compiler_rv64_vector_static.S')
    total = 0
    for fn, entry in (('generateProgramVectorRV64', PFX + 'program_begin'), ('generateDatasetInitVectorRV64', PFX + 'sshash_dataset_init')):
        gs = [f for f in F.in_file('jit_compiler_rv64_vector.cpp') if f['name'] == fn and f.get('body') is not None]
        if len(gs) != 1:
            raise AnalysisBroken('RVV-PATCH-MUST: %s not found' % fn)
        g = gs[0]
        R.saw(fn=g['q'])
        an = _An(g)
        must, may = an.mm(g['body'])
        if fn == 'generateProgramVectorRV64' and len(may) < 6:
            raise AnalysisBroken('RVV-PATCH-MUST: only %d patch sites recognised in %s' % (len(may), fn))
        # instructions reachable from the entry of the generated routine and from every other template label the generator names (jump targets it writes)
        named = set(_labels(g['body'])) - set(an.vars[v] for v in an.vars if v not in an.cursor) - {PFX + 'code_begin'}
        roots = [P.sym(entry)] + [P.sym(n) for n in sorted(named) if n in P.obj.symbols]
        # the instruction cursors start at labels inside the routine: what is generated there runs
        seen = set()
        work = [a for a in roots if a in P.ins]
        while work:
            a = work.pop()
            if a in seen:
                continue
            seen.add(a)
            for s in P.succs(P.ins[a]):
                if s is not None and s not in seen:
                    work.append(s)
        for s in sorted(may, key=lambda t: (t[0], -1 if t[1] is None else t[1])):
            lab, off = s
            total += 1
            inst = '%s: %s%s' % (fn, lab[len(PFX):], '' if not off else ('+%d' % off) if off is not None else '[variable index]')
            if lab not in P.obj.symbols:
                raise AnalysisBroken('RVV-PATCH-MUST: label %s is not a symbol of the assembled template' % lab)
            if off is None:
                R.note('RVV-PATCH-MUST: %s is written at a computed index (%s); not a single word, not decided' % (inst, an.where.get(s)))
                continue
            a = P.sym(lab) + off
            covering = [x for x in seen if x <= a < x + P.ins[x].size]
            if s in must:
                R.ok(inst + ' written on every path', an.where.get(s))
                continue
            if not covering:
                R.note('RVV-PATCH-MUST: %s is written on some paths only (%s); it is not an instruction reachable from %s - a data word whose readers are not decided here' % (inst, an.where.get(s), entry[len(PFX):]))
                continue
            R.violation(inst + ' written on every path', an.where.get(s), expected='the instruction word at %s is assigned on every path through %s' % (P.name_at(a), fn),
                        found='assigned on some paths only: on the others the word keeps what the previous call (other flags, other program) wrote')
    if total < 6:
        raise AnalysisBroken('RVV-PATCH-MUST: %d sites' % total)
