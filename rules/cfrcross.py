"""[A64-CFR-BITS] [RV-CFR-BITS] CFROUND in the two cross back-ends, decided bit by bit.

Specification 5.4.1 / Table 4.3.1: the rounding mode becomes bits 0-1 of (src rotated right by imm32 mod 64); RandomX v2 executes the instruction only if bits 2-5 of
the rotated value are zero.  The words the handler emits are executed on registers whose 64 bits are sets of input bits (rotation, shifts, and / or with constants,
bit-field insert and bit reversal are all GF(2)-linear), so for every rotation count the rule can say which source bit reaches which bit of the control register:
  A64   FPCR.RMode (bits 23:22) encodes nearest / +inf / -inf / zero as 00 / 01 / 10 / 11, i.e. RMode<1> = mode bit 0 and RMode<0> = mode bit 1; nothing else of FPCR changes
  RV64  frm is loaded from the four-word table of the literal pool indexed by the mode; the table must be nearest, down, up, zero = 0, 2, 3, 1
"""
import astq
from astq import val
from core import AnalysisBroken
from domains import KB
from report import memoised
from rules import a64hsem as T
from rules import jit, rvhsem as V

ONE = ('one',)


def inp(name):
    return [frozenset([(name, i)]) for i in range(64)]


def const_bits(c):
    return [frozenset([ONE]) if (c >> i) & 1 else frozenset() for i in range(64)]


def ror(a, n):
    n %= 64
    return a[n:] + a[:n]


def shl(a, n):
    return [frozenset()] * n + a[:64 - n] if n else list(a)


def shr(a, n):
    return a[n:] + [frozenset()] * n if n else list(a)


def andc(a, c):
    return [a[i] if (c >> i) & 1 else frozenset() for i in range(64)]


def disjoint_or(a, b, where):
    for i in range(64):
        if a[i] and b[i]:
            raise AnalysisBroken('CFR-BITS: or / add of overlapping bit ranges at %s' % where)
    return [x | y for x, y in zip(a, b)]


def _flag_v2(FI):
    v = FI.enumerator('RANDOMX_FLAG_V2')
    if v is None:
        raise AnalysisBroken('CFR-BITS: RANDOMX_FLAG_V2 not found')
    return v


@memoised('A64-CFR-BITS')
def rule_a64(ctx, R):
    if T.STRICT_FAMILY:
        R.note('A64-CFR-BITS skipped: RXVERIF_STRICT_FAMILY=1')
        return
    from rules.a64sem import Exec
    F, hs = jit.handlers(ctx, 'a64')
    FI = astq.Facts(ctx, 'K0')
    R.rule('A64-CFR-BITS', 'CFROUND on A64, for all 64 rotation counts, v1 and v2: the words the handler emits route bit (imm32 mod 64) of the source register to FPCR<23> and the next bit to FPCR<22> (Table 4.3.1 in the AArch64 RMode '
           'encoding), leave every other FPCR bit as it was, change no VM register, and under v2 skip exactly the rest of the handler when bits 2-5 of the rotated value are not all zero', min_instances=1000)
    R.saw(config='K2', unit='src/jit_compiler_a64.cpp')
    cls = 'randomx::JitCompilerA64'
    h = hs.get('CFROUND')
    if h is None:
        raise AnalysisBroken('A64-CFR-BITS: h_CFROUND not found')
    h = h.f
    R.saw(fn=h['q'])
    where = '%s:%d' % (h['file'], h['line'])
    g = F.glob('randomx::IntRegMap')
    regmap = [val(e) for e in g['init']['e']]
    v2flag = _flag_v2(FI)
    ip = h['params'][0]
    n = 0
    for v2 in (0, 1):
        for s in range(8):
            for imm in list(range(64)) + ([0xFFFFFFC1, 0x80000040] if s == 0 else []):
                n += 1
                ex = Exec(F, cls, None, {}, 64)
                pname = ip['name']
                env0 = {'%s.dst' % pname: KB.const(8, 0), '%s.src' % pname: KB.const(8, s), '%s.mod' % pname: KB.const(8, 0), 'this->flags': KB.const(32, v2flag if v2 else 0)}
                ov = {'randomx::Instruction::getImm32': KB.const(32, imm), 'randomx::Instruction::getModShift': KB.const(32, 0), 'randomx::Instruction::getModMem': KB.const(32, 0), 'randomx::Instruction::getModCond': KB.const(32, 0)}
                ex.run_with(h, [None, KB.const(32, 0x1000)], env0, ov)
                words = []
                for w, wh in ex.words:
                    v = w.value()
                    if v is None:
                        raise AnalysisBroken('A64-CFR-BITS: a word emitted at %s is not constant (%s)' % (wh, w.hexpat()))
                    words.append(v)
                x = {r: inp('x%d' % r) for r in range(31)}
                fpcr, cond, bad, tr = None, None, None, []
                for k, w in enumerate(words):
                    f = lambda lo, nb: (w >> lo) & ((1 << nb) - 1)
                    rd, rn, rm = f(0, 5), f(5, 5), f(16, 5)
                    if (w & 0xFFE00000) == 0x93C00000 and rn == rm:                    # EXTR with both sources equal: ROR
                        x[rd] = ror(x[rn], f(10, 6))
                        tr.append('ror x%d, x%d, #%d' % (rd, rn, f(10, 6)))
                    elif (w & 0xFF80001F) == 0xF200001F:                                # ANDS XZR, Xn, #imm: TST
                        m_ = T.decode_bitmask(f(22, 1), f(10, 6), f(16, 6))
                        if m_ is None:
                            bad = 'reserved logical immediate in the tst'
                            break
                        cond = (andc(x[rn], m_), k)
                        tr.append('tst x%d, #%#x' % (rn, m_))
                    elif (w & 0xFF00001F) == 0x54000001:                                # B.NE
                        off = f(5, 19)
                        if cond is None or cond[1] != k - 1:
                            bad = 'a conditional branch without the test in front of it'
                            break
                        if off != len(words) - k:
                            bad = 'b.ne skips %d words, the rest of the handler has %d' % (off, len(words) - k)
                            break
                        tr.append('b.ne +%d' % off)
                    elif (w & 0xFFC00000) == 0xB3400000:                                # BFM, 64-bit
                        immr, imms = f(16, 6), f(10, 6)
                        if imms >= immr:
                            bad = 'bfxil form of bfm'
                            break
                        lsb, width = 64 - immr, imms + 1
                        new = list(x[rd])
                        for j in range(width):
                            new[lsb + j] = x[rn][j]
                        x[rd] = new
                        tr.append('bfi x%d, x%d, #%d, #%d' % (rd, rn, lsb, width))
                    elif (w & 0xFFFFFC00) == 0xDAC00000:                                # RBIT
                        x[rd] = x[rn][::-1]
                        tr.append('rbit x%d, x%d' % (rd, rn))
                    elif (w & 0xFFFFFFE0) == 0xD51B4400:                                # MSR FPCR, Xt
                        fpcr = x[rd]
                        tr.append('msr fpcr, x%d' % rd)
                    else:
                        bad = 'word %#010x is outside the subset of this rule' % w
                        break
                inst = 'CFROUND src=r%d imm32=%#x %s' % (s, imm, 'v2' if v2 else 'v1')
                if bad and 'outside the subset' in bad:
                    raise AnalysisBroken('A64-CFR-BITS: %s (%s)' % (bad, inst))
                src = inp('x%d' % regmap[s])
                rot = imm & 63
                if bad is None and fpcr is None:
                    bad = 'FPCR is not written'
                if bad is None:
                    # which register holds the image of FPCR: the one whose reversed bits reach the control register elsewhere
                    other = [b for i, b in enumerate(fpcr) if i not in (22, 23)]
                    srcs = {list(b)[0][0] for b in other if len(b) == 1}
                    if len(srcs) != 1 or any(len(b) != 1 for b in other):
                        bad = 'FPCR bits other than RMode are not copied from one register'
                    else:
                        holder = list(srcs)[0]
                        if any(fpcr[i] != frozenset([(holder, 63 - i)]) for i in range(64) if i not in (22, 23)):
                            bad = 'FPCR bits other than RMode change'
                        elif fpcr[23] != src[rot] or fpcr[22] != src[(rot + 1) % 64]:
                            bad = 'RMode<1> (FPCR bit 23) comes from %s and RMode<0> (bit 22) from %s; Table 4.3.1 needs source bits %d and %d' % (sorted(fpcr[23]), sorted(fpcr[22]), rot, (rot + 1) % 64)
                if bad is None:
                    if v2:
                        want = [frozenset()] * 64
                        want = [src[(rot + i) % 64] if 2 <= i <= 5 else frozenset() for i in range(64)]
                        if cond is None or cond[0] != want:
                            bad = 'the v2 condition tests %s; specification: bits 2-5 of the rotated value' % ('nothing' if cond is None else sorted(b for bs in cond[0] for b in bs))
                    elif cond is not None:
                        bad = 'a condition is emitted for v1'
                if bad is None:
                    for i in range(8):
                        if x[regmap[i]] != inp('x%d' % regmap[i]):
                            bad = 'VM register r%d changed' % i
                            break
                if bad:
                    R.violation(inst, where, expected='as in specification 5.4.1 / Table 4.3.1', found='%s (`%s`)' % (bad, ' ; '.join(tr)))
                else:
                    R.ok(inst, where)
    if n < 1000:
        raise AnalysisBroken('A64-CFR-BITS: only %d cases' % n)


@memoised('RV-CFR-BITS')
def rule_rv(ctx, R):
    if V.STRICT_FAMILY:
        R.note('RV-CFR-BITS skipped: RXVERIF_STRICT_FAMILY=1')
        return
    F, hs = jit.handlers(ctx, 'rv64')
    FI = astq.Facts(ctx, 'K0')
    R.rule('RV-CFR-BITS', 'CFROUND on RV64, for all 64 rotation counts, v1 and v2: the words the handler emits compute literal pool + 64 + 4 * (bits imm32 mod 64 and the next one of the source register), load that word into frm, '
           'change no VM register, and under v2 skip exactly the rest of the handler when bits 2-5 of the rotated value are not all zero; the four table words of the assembled literal pool are the RISC-V encodings of '
           'nearest, down, up, zero (0, 2, 3, 1: Table 4.3.1)', min_instances=1000)
    R.saw(config='K3', unit='src/jit_compiler_rv64.cpp')
    h = hs.get('CFROUND')
    if h is None:
        raise AnalysisBroken('RV-CFR-BITS: h_CFROUND not found')
    h = h.f
    R.saw(fn=h['q'])
    where = '%s:%d' % (h['file'], h['line'])
    from rules.rvdsread import _regmap
    regmap = _regmap(ctx)
    v2flag = _flag_v2(FI)
    lit = F.const('randomx::LiteralPoolReg')
    if lit is None:
        raise AnalysisBroken('RV-CFR-BITS: LiteralPoolReg not found')
    o = ctx.obj('rv64')
    pool = o.sym('literal_pool') if o.has('literal_pool') else o.sym('randomx_riscv64_literals')
    n = 0
    table_offsets = set()
    for v2 in (0, 1):
        for s in range(8):
            for imm in list(range(64)) + ([0xFFFFFFC1, 0x80000042] if s == 0 else []):
                n += 1
                fields = {'dst': KB.const(8, 0), 'src': KB.const(8, s), 'mod': KB.const(8, 0)}
                ov = {'randomx::Instruction::getImm32': KB.const(32, imm), 'randomx::Instruction::getModShift': KB.const(32, 0), 'randomx::Instruction::getModMem': KB.const(32, 0), 'randomx::Instruction::getModCond': KB.const(32, 0)}
                ex = V.RvExec(F, fields, ov)
                ex.run(h, [None, None, KB.const(32, 7), KB.const(32, v2flag if v2 else 0)])
                words = []
                for size, w, wh in ex.words:
                    v = w.value()
                    if v is None:
                        raise AnalysisBroken('RV-CFR-BITS: a word emitted at %s is not constant (%s)' % (wh, w.hexpat()))
                    words.append((size, v))
                total = sum(sz for sz, _ in words)
                x = {r: inp('x%d' % r) for r in range(1, 32)}
                x[0] = [frozenset()] * 64
                frm, cond, bad, tr, pos = None, None, None, [], 0
                load = None
                for k, (sz, w) in enumerate(words):
                    if sz == 4:
                        opc, rd, f3, rs1, rs2 = w & 0x7f, (w >> 7) & 31, (w >> 12) & 7, (w >> 15) & 31, (w >> 20) & 31
                        if opc == 0x13 and f3 == 5 and (w >> 26) == 0x18:                   # rori
                            x[rd] = ror(x[rs1], (w >> 20) & 63)
                            tr.append('rori')
                        elif opc == 0x13 and f3 == 5 and (w >> 26) == 0:                    # srli
                            x[rd] = shr(x[rs1], (w >> 20) & 63)
                            tr.append('srli')
                        elif opc == 0x13 and f3 == 1 and (w >> 26) == 0:                    # slli
                            x[rd] = shl(x[rs1], (w >> 20) & 63)
                            tr.append('slli')
                        elif opc == 0x13 and f3 == 7:                                       # andi
                            x[rd] = andc(x[rs1], V.sx(w >> 20, 12) & ((1 << 64) - 1))
                            tr.append('andi %d' % V.sx(w >> 20, 12))
                            if rd not in (8, 9) and rd != 0:
                                pass
                        elif opc == 0x73 and f3 == 1 and (w >> 20) == 2:                    # csrrw rd, frm, rs1 (fsrm)
                            frm = ('reg', rs1)
                            tr.append('fsrm x%d' % rs1)
                        else:
                            raise AnalysisBroken('RV-CFR-BITS: word %#010x is outside the subset of this rule' % w)
                    else:
                        q, f3 = w & 3, (w >> 13) & 7
                        rdp, rs2p = 8 + ((w >> 7) & 7), 8 + ((w >> 2) & 7)
                        if q == 1 and f3 == 4 and ((w >> 10) & 3) == 3 and not (w >> 12) & 1 and ((w >> 5) & 3) == 2:       # c.or
                            x[rdp] = disjoint_or(x[rdp], x[rs2p], where)
                            tr.append('c.or')
                        elif q == 1 and f3 == 4 and ((w >> 10) & 3) == 2:                    # c.andi
                            immv = V.sx((((w >> 12) & 1) << 5) | ((w >> 2) & 31), 6) & ((1 << 64) - 1)
                            x[rdp] = andc(x[rdp], immv)
                            tr.append('c.andi %d' % V.sx(immv, 64))
                        elif q == 1 and f3 == 7:                                            # c.bnez
                            r1 = 8 + ((w >> 7) & 7)
                            off = (((w >> 12) & 1) << 8) | (((w >> 10) & 3) << 3) | (((w >> 5) & 3) << 6) | (((w >> 3) & 3) << 1) | (((w >> 2) & 1) << 5)
                            off = V.sx(off, 9)
                            cond = x[r1]
                            if pos + off != total:
                                bad = 'c.bnez skips to byte %d of the handler, which ends at byte %d' % (pos + off, total)
                                break
                            tr.append('c.bnez +%d' % off)
                        elif q == 2 and f3 == 4 and (w >> 12) & 1 and ((w >> 2) & 31) != 0:  # c.add
                            rdf, rs2f = (w >> 7) & 31, (w >> 2) & 31
                            if rs2f == lit:
                                load = ('index', x[rdf])
                                x[rdf] = [frozenset([('pool+idx', i)]) for i in range(64)]
                            else:
                                x[rdf] = disjoint_or(x[rdf], x[rs2f], where)
                            tr.append('c.add')
                        elif q == 0 and f3 == 2:                                            # c.lw
                            r1, r2 = 8 + ((w >> 7) & 7), 8 + ((w >> 2) & 7)
                            off = (((w >> 10) & 7) << 3) | (((w >> 6) & 1) << 2) | (((w >> 5) & 1) << 6)
                            if load is None or load[0] != 'index' or x[r1] != [frozenset([('pool+idx', i)]) for i in range(64)]:
                                bad = 'a 32-bit load that is not from literal pool + index'
                                break
                            load = ('table', load[1], off)
                            x[r2] = [frozenset([('tableword', i)]) for i in range(64)]
                            tr.append('c.lw %d' % off)
                        else:
                            raise AnalysisBroken('RV-CFR-BITS: half-word %#06x is outside the subset of this rule' % w)
                    pos += sz
                inst = 'CFROUND src=r%d imm32=%#x %s' % (s, imm, 'v2' if v2 else 'v1')
                src = inp('x%d' % regmap[s])
                rot = imm & 63
                if bad is None:
                    if frm is None or load is None or load[0] != 'table' or x[frm[1]] != [frozenset([('tableword', i)]) for i in range(64)]:
                        bad = 'frm is not written with a word loaded from the table'
                    else:
                        idx = load[1]
                        want = [frozenset()] * 64
                        want = [src[rot] if i == 2 else src[(rot + 1) % 64] if i == 3 else frozenset() for i in range(64)]
                        if idx != want:
                            bad = 'table index bits come from %s; Table 4.3.1 needs 4 * (source bits %d, %d)' % ({i: sorted(b) for i, b in enumerate(idx) if b}, rot, (rot + 1) % 64)
                        else:
                            table_offsets.add(load[2])
                if bad is None:
                    if v2:
                        if cond is None:
                            bad = 'no v2 condition is emitted'
                        else:
                            got = sorted(b for bs in cond for b in bs)
                            wantc = sorted(list(src[(rot + j) % 64])[0] for j in range(2, 6))
                            if got != wantc or any(len(bs) > 1 for bs in cond):
                                bad = 'the v2 condition tests %s; specification: bits 2-5 of the rotated value %s' % (got, wantc)
                    elif cond is not None:
                        bad = 'a condition is emitted for v1'
                if bad is None:
                    for i in range(8):
                        if x[regmap[i]] != inp('x%d' % regmap[i]):
                            bad = 'VM register r%d changed' % i
                            break
                if bad:
                    R.violation(inst, where, expected='as in specification 5.4.1 / Table 4.3.1', found='%s (`%s`)' % (bad, ' ; '.join(tr)))
                else:
                    R.ok(inst, where)
    if len(table_offsets) == 1:
        off = list(table_offsets)[0]
        words = [o.u32(pool + off + 4 * k) for k in range(4)]
        R.check(words == [0, 2, 3, 1], 'rounding table at literal pool + %d' % off, 'src/jit_compiler_rv64_static.S:literal_pool', expected='nearest, down, up, zero = frm 0, 2, 3, 1', found=words)
    elif table_offsets:
        R.violation('rounding table', where, expected='one table offset', found=sorted(table_offsets))
    if n < 1000:
        raise AnalysisBroken('RV-CFR-BITS: only %d cases' % n)
