"""RACE-RANGE / DS-EXACT: affine + case analysis of randomx_init_dataset (C08, C14), DS-INITSEL, SPEC-DSCONST, DS-ITEM."""
import re

import astq
import decoder
from astq import calls, loc, show, showv, strip_all, val, walk
from core import AnalysisBroken


class Lin:
    """a*s + b*q + c*m + k   (itemCount = 4q + m, 0 <= m <= 3)"""

    def __init__(self, s=0, q=0, m=0, k=0):
        self.s, self.q, self.m, self.k = s, q, m, k

    def __add__(self, o):
        return Lin(self.s + o.s, self.q + o.q, self.m + o.m, self.k + o.k)

    def __sub__(self, o):
        return Lin(self.s - o.s, self.q - o.q, self.m - o.m, self.k - o.k)

    def scale(self, c):
        return Lin(self.s * c, self.q * c, self.m * c, self.k * c)

    def is_const(self):
        return self.s == 0 and self.q == 0 and self.m == 0

    def __eq__(self, o):
        return (self.s, self.q, self.m, self.k) == (o.s, o.q, o.m, o.k)

    def rng(self, region):
        """(min, max) over a region dict(q=(lo,hi), m=value, s=(lo,hi))"""
        lo = hi = self.k + self.m * region['m']
        for coef, (a, b) in ((self.s, region['s']), (self.q, region['q'])):
            if coef >= 0:
                lo += coef * a
                hi += coef * b
            else:
                lo += coef * b
                hi += coef * a
        return lo, hi

    def __repr__(self):
        parts = []
        for c, n in ((self.s, 'start'), (self.q, 'q'), (self.m, 'm')):
            if c:
                parts.append('%s%s' % ('' if c == 1 else '%d*' % c, n))
        if self.k or not parts:
            parts.append(str(self.k))
        return ' + '.join(parts)


def lin(n, env, ids):
    n = strip_all(n)
    if 'v' in n and n['k'] not in ('Ref',):
        return Lin(k=n['v'])
    if n['k'] == 'Ref':
        if n.get('id') in env:
            return env[n['id']]
        if 'v' in n:
            return Lin(k=n['v'])
        raise AnalysisBroken('init_dataset: unknown variable %s' % show(n))
    if n['k'] == 'Bin':
        op = n['op']
        if op == '+':
            return lin(n['l'], env, ids) + lin(n['r'], env, ids)
        if op == '-':
            return lin(n['l'], env, ids) - lin(n['r'], env, ids)
        if op == '*':
            a, b = lin(n['l'], env, ids), lin(n['r'], env, ids)
            if b.is_const():
                return a.scale(b.k)
            if a.is_const():
                return b.scale(a.k)
        if op == '%':
            a, b = lin(n['l'], env, ids), lin(n['r'], env, ids)
            if b.is_const() and b.k == 4 and (a.s, a.q, a.m, a.k) == (0, 4, 1, 0):
                return Lin(m=1)
        if op == '/':
            a, b = lin(n['l'], env, ids), lin(n['r'], env, ids)
            if b.is_const() and b.k == 4 and (a.s, a.q, a.m, a.k) == (0, 4, 1, 0):
                return Lin(q=1)
    raise AnalysisBroken('init_dataset: expression outside the affine fragment: %s' % show(n)[:100])


def cond_truth(c, env, ids, region):
    """True / False / None for a comparison over a region."""
    c = strip_all(c)
    if c['k'] == 'Bin' and c['op'] in ('<', '<=', '>', '>=', '==', '!='):
        d = lin(c['l'], env, ids) - lin(c['r'], env, ids)
        lo, hi = d.rng(region)
        op = c['op']
        if op == '<':
            return True if hi < 0 else False if lo >= 0 else None
        if op == '<=':
            return True if hi <= 0 else False if lo > 0 else None
        if op == '>':
            return True if lo > 0 else False if hi <= 0 else None
        if op == '>=':
            return True if lo >= 0 else False if hi < 0 else None
        if op == '==':
            return True if lo == hi == 0 else False if (lo > 0 or hi < 0) else None
        if op == '!=':
            return False if lo == hi == 0 else True if (lo > 0 or hi < 0) else None
    if c['k'] == 'Un' and c['op'] == '!':
        t = cond_truth(c['e'], env, ids, region)
        return None if t is None else not t
    raise AnalysisBroken('init_dataset: unsupported condition %s' % show(c)[:80])


def step_env(e, env, penv, bufs, ids, ptr_off):
    """update the symbolic environments with one simple statement"""
    if e['k'] == 'Decl':
        for d in e['d']:
            if d.get('arrlen') is not None:
                bufs[d['id']] = dict(size=d.get('size'), static=d.get('static'), name=d['name'], ln=e.get('ln'))
            elif 'init' in d:
                if d.get('ty', '').rstrip('const ').endswith('*') or d.get('ty', '').endswith('*const'):
                    po = ptr_off(d['init'], env, penv, bufs)
                    if po is not None:
                        penv[d['id']] = po
                        continue
                try:
                    env[d['id']] = lin(d['init'], env, ids)
                except AnalysisBroken:
                    pass
        return
    for x in walk(e):
        if x['k'] == 'CAssign' and strip_all(x['l'])['k'] == 'Ref' and strip_all(x['l']).get('id') in env:
            vid = strip_all(x['l'])['id']
            r = lin(x['r'], env, ids)
            if x['op'] == '+=':
                env[vid] = env[vid] + r
            elif x['op'] == '-=':
                env[vid] = env[vid] - r
            else:
                raise AnalysisBroken('init_dataset: unsupported compound assignment %s' % show(x))
        elif x['k'] == 'CAssign' and strip_all(x['l'])['k'] == 'Ref' and strip_all(x['l']).get('id') in penv:
            vid = strip_all(x['l'])['id']
            r = lin(x['r'], env, ids)
            penv[vid] = (penv[vid][0], penv[vid][1] + r if x['op'] == '+=' else penv[vid][1] - r)
        elif x['k'] == 'Assign' and strip_all(x['l'])['k'] == 'Ref' and strip_all(x['l']).get('id') in env:
            env[strip_all(x['l'])['id']] = lin(x['r'], env, ids)


def rule_range_affine(ctx, R, F):
    R.rule('RACE-RANGE', 'randomx_init_dataset(dataset, cache, start, count): for every (count mod 4, count < 4 or not) case every datasetInit call writes items [S, E) with E - S a positive multiple of 4 '
           '(what the compiled initialiser requires), the destination is either a local buffer of at least (E-S) items that is copied to exactly the requested items, or dataset->memory + S*64 '
           'with [S, E) inside [start, start+count); the union of the written ranges is exactly the requested range', min_instances=8)
    f = F.func('randomx_init_dataset', unit='src/randomx.cpp')
    R.saw(fn=f['q'], unit='src/randomx.cpp')
    ps = f['params']
    ids = dict(ds=ps[0]['id'], cache=ps[1]['id'], s=ps[2]['id'], c=ps[3]['id'])
    cls = F.const('randomx::CacheLineSize')
    dic = F.const('DatasetItemCount') if F.has_glob('DatasetItemCount') else None
    if dic is None:
        dic = F.const('randomx::DatasetSize') // cls
    where = '%s:%d' % (f['file'], f['line'])
    regions = []
    for m in range(4):
        regions.append(dict(name='count=%d' % m, q=(0, 0), m=m, s=(0, dic - 1)))
        regions.append(dict(name='count=4q+%d, q>=1' % m, q=(1, dic // 4), m=m, s=(0, dic - 1)))
    allpaths = decoder.paths(f['body'], record_conds=True)
    checked = 0

    def ptr_off(e, env, penv, bufs):
        """(base, byte offset Lin) of a pointer expression: base 'DS' = dataset->memory, ('BUF', id) = local buffer"""
        e = strip_all(e)
        while e['k'] == 'Cast':
            e = strip_all(e['e'])
        if e['k'] == 'Ref' and e.get('id') in bufs:
            return (('BUF', e['id']), Lin())
        if e['k'] == 'Ref' and e.get('id') in penv:
            return penv[e['id']]
        if e['k'] == 'Mem' and show(e).endswith('->memory') and ref_of_base(e) == ids['ds']:
            return ('DS', Lin())
        if e['k'] == 'Bin' and e['op'] == '+':
            l = ptr_off(e['l'], env, penv, bufs)
            if l is not None:
                return (l[0], l[1] + lin(e['r'], env, ids))
            r = ptr_off(e['r'], env, penv, bufs)
            if r is not None:
                return (r[0], r[1] + lin(e['l'], env, ids))
        if e['k'] == 'Un' and e['op'] == '&':
            inner = strip_all(e['e'])
            if inner['k'] == 'Idx':
                b_ = ptr_off(inner['b'], env, penv, bufs)
                if b_ is not None:
                    return (b_[0], b_[1] + lin(inner['i'], env, ids))
        return None

    def ref_of_base(m):
        b_ = strip_all(m['b'])
        return b_.get('id') if b_['k'] == 'Ref' else None

    for region in regions:
        feasible = []
        for p in allpaths:
            env = {ids['s']: Lin(s=1), ids['c']: Lin(q=4, m=1)}
            penv = {}
            bufs = {}
            ok = True
            for e in p.events:
                if isinstance(e, tuple) and e[0] == 'cond':
                    t = cond_truth(e[1], env, ids, region)
                    if t is None:
                        raise AnalysisBroken('init_dataset: condition %s undecided in region %s' % (show(e[1]), region['name']))
                    if t != e[2]:
                        ok = False
                        break
                elif isinstance(e, tuple):
                    raise AnalysisBroken('init_dataset: loop/switch not supported at %s' % loc(e[1], f))
                else:
                    step_env(e, env, penv, bufs, ids, ptr_off)
            if ok:
                feasible.append(p)
        if len(feasible) != 1:
            R.violation('region %s' % region['name'], where, expected='exactly one feasible path', found=len(feasible))
            continue
        p = feasible[0]
        env = {ids['s']: Lin(s=1), ids['c']: Lin(q=4, m=1)}
        penv = {}
        bufs = {}
        written = []        # (S, E) on the dataset
        pending = {}        # local buffer id -> (S, E)
        count_here = region['q'][0] * 4 + region['m'] if region['q'] == (0, 0) else None
        for e in p.events:
            if isinstance(e, tuple):
                continue
            if e['k'] == 'Decl':
                for d in e['d']:
                    if d.get('arrlen') is not None:
                        R.check(not d.get('static') and not d.get('tls'), 'bounce buffer %s is an automatic variable' % d['name'], loc(e, f), expected='stack buffer (per call, per thread)', found='static' if d.get('static') else 'auto')
            step_env(e, env, penv, bufs, ids, ptr_off)
            cs = [c for c in calls(e) if 'callee' in c and 'datasetInit' in show(c['callee'])]
            for c in cs:
                checked += 1
                a = c['a']
                S, E = lin(a[2], env, ids), lin(a[3], env, ids)
                inst = '%s: datasetInit@%s' % (region['name'], c.get('ln'))
                n_lo, n_hi = (E - S).rng(region)
                multiple4 = (E - S).s == 0 and (E - S).q % 4 == 0 and ((E - S).m * region['m'] + (E - S).k) % 4 == 0
                R.check(n_lo >= 4 and multiple4, inst + ' item count', loc(c, f), expected='E - S >= 4 and divisible by 4 for every count in the region', found='E - S = %r in [%d, %d]' % (E - S, n_lo, n_hi))
                R.check(strip_all(a[0]).get('id') == ids['cache'], inst + ' cache argument', loc(c, f), expected='the caller\'s cache', found=show(a[0]))
                dst = ptr_off(a[1], env, penv, bufs)
                if dst is None:
                    R.violation(inst + ' destination', loc(c, f), expected='local buffer or dataset->memory + S*CacheLineSize', found=show(a[1]))
                elif dst[0] != 'DS':
                    b = bufs[dst[0][1]]
                    R.check(n_hi * cls <= b['size'] and dst[1] == Lin(), inst + ' fits local buffer', loc(c, f), expected='(E-S)*%d <= sizeof(%s)=%d' % (cls, b['name'], b['size']), found=n_hi * cls)
                    pending[dst[0][1]] = (S, E)
                else:
                    X = dst[1]
                    R.check(X == S.scale(cls), inst + ' destination matches first item', loc(c, f), expected='dataset->memory + S*%d with S = %r' % (cls, S), found='byte offset %r' % X)
                    lo1, _ = (S - Lin(s=1)).rng(region)
                    lo2, _ = (Lin(s=1, q=4, m=1) - E).rng(region)
                    R.check(lo1 >= 0 and lo2 >= 0, inst + ' inside requested range', loc(c, f), expected='start <= S and E <= start + count', found='S - start >= %d, start + count - E >= %d' % (lo1, lo2))
                    written.append((S, E))
            for c in [c for c in calls(e) if c.get('name') == 'memcpy']:
                a = c['a']
                inst = '%s: memcpy@%s' % (region['name'], c.get('ln'))
                src = ptr_off(a[1], env, penv, bufs)
                dst = ptr_off(a[0], env, penv, bufs)
                if src is not None and src[0] != 'DS' and src[0][1] in pending and dst is not None and dst[0] == 'DS' and src[1] == Lin():
                    L = lin(a[2], env, ids)
                    S, E = pending.pop(src[0][1])
                    okc = dst[1] == S.scale(cls) and L.s % cls == 0 and L.q % cls == 0 and L.m % cls == 0 and L.k % cls == 0
                    items = Lin(L.s // cls, L.q // cls, L.m // cls, L.k // cls) if okc else Lin()
                    _, over = (items - (E - S)).rng(region)
                    lo1, _ = (S - Lin(s=1)).rng(region)
                    lo2, _ = (Lin(s=1, q=4, m=1) - (S + items)).rng(region)
                    R.check(okc and over <= 0 and lo1 >= 0 and lo2 >= 0, inst, loc(c, f), expected='copies whole items of the buffer (which holds items [%r, %r)) to dataset->memory + %r*%d, inside the requested range' % (S, E, S, cls),
                            found='byte offset %r, length %r' % (dst[1], L))
                    if okc:
                        written.append((S, S + items))
                else:
                    R.violation(inst, loc(c, f), expected='copy from the bounce buffer to the dataset', found=show(c)[:120])
        for bid, (S, E) in pending.items():
            R.violation('%s: bounce buffer never copied' % region['name'], where, expected='memcpy of the requested items', found='missing')
        # coverage: union == [start, start+count)
        req_lo, req_hi = Lin(s=1), Lin(s=1, q=4, m=1)
        if count_here == 0 and not written:
            R.ok('%s: nothing written for an empty request' % region['name'], where)
            continue
        cover_ok = bool(written)
        cur = req_lo
        for (S, E) in sorted(written, key=lambda se: (se[0] - req_lo).rng(region)[0]):
            _, gap_hi = (S - cur).rng(region)
            if gap_hi > 0:
                cover_ok = False
            lo_adv, _ = (E - cur).rng(region)
            if lo_adv >= 0:
                cur = E
        lo_end, hi_end = (cur - req_hi).rng(region)
        cover_ok = cover_ok and lo_end == 0 and hi_end == 0
        R.check(cover_ok, '%s: union of written ranges' % region['name'], where, expected='exactly [start, start+count)', found=['[%r, %r)' % w for w in written])
    if checked < 8:
        raise AnalysisBroken('RACE-RANGE: only %d datasetInit calls analysed' % checked)
    # source-order sanity: no reassignment of start/count before a branch condition that reads them
    first_assign = min([x.get('ln', 10 ** 9) for x in walk(f['body']) if x['k'] in ('Assign', 'CAssign') and strip_all(x['l'])['k'] == 'Ref' and strip_all(x['l']).get('id') in (ids['s'], ids['c'])] or [10 ** 9])
    last_cond = max([x['c'].get('ln', 0) for x in walk(f['body']) if x['k'] == 'If'] or [0])
    R.check(first_assign > last_cond, 'branch conditions read the entry values', where, expected='parameters reassigned only after the last branch test', found='first reassignment line %s, last condition line %s' % (first_assign, last_cond))


def rule_initsel(ctx, R, F):
    R.rule('DS-INITSEL', 'cache->datasetInit / cache->initialize are the interpreted functions without the JIT flag and the compiled ones with it; initCacheCompile regenerates SuperscalarHash and '
           'the init loop after every initCache; the dataset-init entry of the compiled path is the start of the code buffer the generator filled', min_instances=4)
    f = F.func('randomx::initCacheCompile')
    with astq.renaming({p['id']: 'P%d' % i for i, p in enumerate(f['params'])}):
        seq = [show(c) for c in calls(f['body']) if c.get('name') in ('initCache', 'enableWriting', 'generateSuperscalarHash', 'generateDatasetInitCode', 'enableExecution')]
    exp = ['randomx::initCache(P0, P1, P2)', 'P0->jit.enableWriting()', 'P0->jit.generateSuperscalarHash(P0->programs, P0->reciprocalCache)', 'P0->jit.generateDatasetInitCode()', 'P0->jit.enableExecution()']
    R.eq('initCacheCompile sequence', '%s:%d' % (f['file'], f['line']), exp, seq)
    for cls in ('randomx::JitCompilerX86',):
        if not F.has_func(cls + '::getDatasetInitFunc'):
            continue
        g = F.func(cls + '::getDatasetInitFunc')
        rets = [x for x in walk(g['body']) if x['k'] == 'Return']
        R.check(len(rets) == 1 and show(rets[0]['e']) == 'this->code', cls + '::getDatasetInitFunc', '%s:%d' % (g['file'], g['line']), expected='returns code (start of buffer)', found=show(rets[0]['e']) if rets else None)
        h = F.func(cls + '::generateDatasetInitCode')
        mc = [c for c in calls(h['body']) if c.get('name') == 'memcpy']
        R.check(len(mc) == 1 and show(mc[0]['a'][0]) == 'this->code' and 'codeDatasetInit' in show(mc[0]['a'][1]) and 'datasetInitSize' in show(mc[0]['a'][2]), cls + '::generateDatasetInitCode', '%s:%d' % (h['file'], h['line']),
                expected='memcpy(code, codeDatasetInit, datasetInitSize)', found=[show(c) for c in mc])
    # light VM computes items with the same function the interpreted initialiser uses
    from rules import dsrange
    dsrange.rule_initdataset_eval(ctx, R, F)
    for lf in F.funcs(r'^randomx::InterpretedLightVm<.*>::datasetRead$'):
        cs = [c for c in calls(lf['body']) if c.get('name') == 'initDatasetItem']
        okl = len(cs) == 1 and show(cs[0]['a'][0]) == 'this->cachePtr'
        d = [x for x in walk(lf['body']) if x['k'] == 'Decl']
        item = None
        for x in d:
            for dd in x['d']:
                if 'init' in dd and dd['name'] == 'itemNumber' or ('init' in dd and 'address' in show(dd['init'])):
                    with astq.renaming({lf['params'][0]['id']: 'ADDR'}):
                        item = showv(dd['init'])
        R.check(okl and item == '(ADDR / 64)', lf['q'], '%s:%d' % (lf['file'], lf['line']), expected='initDatasetItem(cachePtr, buf, address / CacheLineSize)', found='item %s' % item)


def rule_dsconst(ctx, R, F):
    """SPEC-DSCONST + DS-ITEM: constants of spec 7.3 = C++ = x86 asm; item construction order."""
    R.rule('SPEC-DSCONST', 'the eight dataset-item constants of spec 7.3 equal superscalarMul0/Add1..7 in dataset.cpp and the quadwords at r0_mul/r1_add.. in the assembled x86 runtime', min_instances=16)
    S = ctx.spec()
    lines, base = S.section_text('7.3')
    spec_consts = {}
    for ln in lines:
        m = re.search(r'`?r(\d)`?\s*=\s*`?\(?\s*r0\s*\^\s*(\d+)', ln)
        if m:
            spec_consts[int(m.group(1))] = int(m.group(2))
        m = re.search(r'`?r0`?\s*=\s*`?\(itemNumber \+ 1\)\s*\*\s*(\d+)', ln)
        if m:
            spec_consts[0] = int(m.group(1))
    if len(spec_consts) != 8:
        raise AnalysisBroken('spec 7.3: found %d of 8 register-initialisation constants' % len(spec_consts))
    names = ['superscalarMul0'] + ['superscalarAdd%d' % i for i in range(1, 8)]
    o = ctx.obj('x86')
    asm = ['r0_mul'] + ['r%d_add' % i for i in range(1, 8)]
    for i in range(8):
        v = F.const('randomx::' + names[i])
        R.eq('%s == spec r%d' % (names[i], i), 'src/dataset.cpp', spec_consts[i], v)
        if o.has(asm[i]):
            R.eq('asm %s == spec r%d' % (asm[i], i), 'src/asm/program_sshash_constants.inc', spec_consts[i], o.u64(o.sym(asm[i])))
        else:
            R.violation('asm %s' % asm[i], 'src/asm/program_sshash_constants.inc', expected='label present', found='missing')
    from rules import dsitem
    dsitem.rule_item(ctx, R, F, getattr(F, 'config', None) or 'K0')


def rule_range(ctx, R, F):
    """DS-RANGE-EVAL (shape-independent evaluation of the address slice on a sample set) always runs; the affine proof for *all*
    (start, count) is attempted on top of it and is skipped -- with a recorded note, not a broken analysis -- when the current shape of
    randomx_init_dataset is outside the affine fragment (opaque conditions, inner loops, ...)."""
    from rules import dsrange
    dsrange.rule_range_eval(ctx, R, F)
    n0 = len(R.obls)
    try:
        rule_range_affine(ctx, R, F)
    except AnalysisBroken as e:
        if not str(e).startswith('init_dataset:'):
            raise
        r = R.rules.get('RACE-RANGE')
        if r is not None and r['viol'] == 0:
            del R.obls[n0:]
            del R.rules['RACE-RANGE']
            R.assume('RACE-RANGE (affine proof for every start / count) does not apply to the current shape of randomx_init_dataset (%s); the range property is decided on the DS-RANGE-EVAL sample set only' % str(e)[:160])
