"""[INT-EXEC] what the integer executors of the bytecode interpreter compute.

Each exe_* function of BytecodeMachine for an integer instruction is evaluated symbolically on the term domain of rules/a64hsem.py: *ibc.idst = D, *ibc.isrc = S,
ibc.imm = IMM (64-bit), ibc.shift = the constant of the case, ibc.memMask = M (one of the three masks), scratchpad = the symbolic base; calls of the helpers
mulh / smulh / rotr / rotl / load64 / store64 / getScratchpadAddress get their meaning (PORT-INT decides that mulh / smulh / rotr / rotl are what their names say).
The result written through idst (and isrc for ISWAP_R, the scratchpad for ISTORE) must be the term specification 5.2 prescribes for that instruction.
Together with DEC-OPERANDS (which operand pointers, immediate extension, shift and mask the decoder assigns) this is the integer part of
step_impl(w, state) == step_spec(w, state) for the interpreter."""
import astq
from astq import loc, show, strip_all, val, walk
from core import AnalysisBroken
from rules import a64hsem as T
from rules.a64hsem import Lin, M64, add, sub, mul, neg, scale, xor, const, atom, hi
import os as _os

STRICT_FAMILY = bool(_os.environ.get('RXVERIF_STRICT_FAMILY'))

D, S, IMM, SPAD = atom(('reg', 0)), atom(('reg', 1)), atom(('reg', 2)), atom(('spad',))

EXECUTORS = ('IADD_RS', 'IADD_M', 'ISUB_R', 'ISUB_M', 'IMUL_R', 'IMUL_M', 'IMULH_R', 'IMULH_M', 'ISMULH_R', 'ISMULH_M', 'INEG_R', 'IXOR_R', 'IXOR_M', 'IROR_R', 'IROL_R', 'ISWAP_R', 'ISTORE')


class Undecided(Exception):
    pass


class Eval:
    def __init__(self, F, ibc_id, spad_id, shift, mask):
        from rules import x86hsem as X
        self.X = X
        self.F = F
        self.ibc = ibc_id
        self.spad = spad_id
        self.shift = shift
        self.mask = mask
        self.mem = {'idst': D, 'isrc': S}       # current pointees
        self.env = {}
        self.stores = []

    def field(self, n):
        """name of the InstructionByteCode field a Mem chain denotes (through the anonymous unions), or None"""
        n = strip_all(n)
        while n['k'] == 'Cast':
            n = strip_all(n['e'])
        if n['k'] != 'Mem':
            return None
        name = n.get('m')
        b = strip_all(n['b'])
        while b['k'] == 'Mem' and not b.get('m'):
            b = strip_all(b['b'])
        if b['k'] == 'Ref' and b.get('id') == self.ibc and name:
            return name
        return None

    def ror(self, x, y):
        """only the count mod 64 matters: inside the count, and(z, m) with m covering the low six bits is z"""
        V = self.X.V
        out = const(y.c)
        for at, k_ in y.t.items():
            rep = None
            if at[0] == 'and':
                p1, p2 = V.lin_of(at[1]), V.lin_of(at[2])
                for m_, z_ in ((p1, p2), (p2, p1)):
                    if m_.is_const() and (m_.c & 63) == 63:
                        rep = z_
            out = add(out, scale(rep if rep is not None else Lin(0, {at: 1}), k_))
        return T.ror(x, out)

    def ev(self, n):
        n0 = n
        n = strip_all(n)
        v = val(n)
        if v is not None and n['k'] not in ('Assign', 'CAssign', 'Call', 'Un'):
            return const(v)
        k = n['k']
        if k == 'Cast':
            inner = self.ev(n['e'])
            ck = n.get('ck')
            if ck == 'IntegralCast':
                from domains import type_info
                tw, fw = type_info(n.get('ty')), type_info(n.get('from'))
                if tw and fw and tw[0] < fw[0]:
                    return self.X.and_(inner, const((1 << tw[0]) - 1))
                if tw and fw and tw[0] > fw[0] and fw[1]:
                    raise Undecided('sign extension of a %d-bit value in %s' % (fw[0], show(n)[:50]))
            return inner
        if k == 'Ref':
            if n.get('id') in self.env:
                return self.env[n['id']]
            if n.get('id') == self.spad:
                return SPAD
            raise Undecided('value of %s' % show(n))
        if k == 'Mem':
            f_ = self.field(n)
            if f_ in ('imm', 'simm'):
                return IMM
            if f_ == 'shift':
                return const(self.shift)
            if f_ == 'memMask':
                return const(self.mask)
            raise Undecided('field %s' % show(n))
        if k == 'Un':
            op = n.get('op')
            if op == '*':
                f_ = self.field(n['e'])
                if f_ in self.mem:
                    return self.mem[f_]
                raise Undecided('dereference of %s' % show(n['e']))
            a = self.ev(n['e'])
            if op == '~':
                return sub(neg(a), const(1))
            if op == '-':
                return neg(a)
            if op == '+':
                return a
            raise Undecided('operator %s' % op)
        if k == 'Bin':
            op = n['op']
            a, b = self.ev(n['l']), self.ev(n['r'])
            if op == '+':
                return add(a, b)
            if op == '-':
                return sub(a, b)
            if op == '*':
                return mul(a, b)
            if op == '^':
                return xor(a, b)
            if op == '&':
                return self.X.and_(a, b)
            if op == '|':
                return T.orr(a, b)
            if op == '<<' and b.is_const() and b.c < 64:
                return scale(a, 1 << b.c)
            if op == '>>' and b.is_const() and b.c < 64:
                return self.X.V.srl(a, b.c)
            raise Undecided('operator %s in %s' % (op, show(n)[:50]))
        if k == 'Call':
            nm = n.get('name')
            args = n.get('a', [])
            if nm == 'mulh':
                return hi('umulh', self.ev(args[0]), self.ev(args[1]))
            if nm == 'smulh':
                return hi('smulh', self.ev(args[0]), self.ev(args[1]))
            if nm == 'rotr':
                return self.ror(self.ev(args[0]), self.ev(args[1]))
            if nm == 'rotl':
                return self.ror(self.ev(args[0]), neg(self.ev(args[1])))
            if nm in ('unsigned64ToSigned2sCompl', 'signed64ToUnsigned2sCompl'):
                return self.ev(args[0])
            if nm == 'load64':
                return self.X.ld64(self.ev(args[0]))
            fn_ = n.get('fn')
            if fn_ and self.F.has_func(fn_) and self.F.func(fn_).get('body') is not None and nm == 'getScratchpadAddress':
                g = self.F.func(fn_)
                sub_ = Eval(self.F, g['params'][0]['id'], g['params'][1]['id'], self.shift, self.mask)
                sub_.mem = dict(self.mem)
                r = sub_.run(g['body'])
                if r is None:
                    raise Undecided('getScratchpadAddress returns nothing')
                return r
            raise Undecided('call of %s' % (fn_ or nm))
        raise Undecided('expression %s' % show(n)[:60])

    def run(self, body):
        for s in body['s']:
            k = s['k']
            if k == 'Decl':
                for d in s['d']:
                    if d.get('init') is not None:
                        v = self.ev(d['init'])
                        from domains import type_info
                        ti = type_info(d.get('ty'))
                        if ti and ti[0] < 64:
                            v = self.X.and_(v, const((1 << ti[0]) - 1))
                        self.env[d['id']] = v
                continue
            if k == 'Return':
                return self.ev(s['e']) if astq.is_node(s.get('e')) else None
            top = strip_all(s)
            if top['k'] in ('Assign', 'CAssign'):
                l = strip_all(top['l'])
                tgt = None
                if l['k'] == 'Un' and l.get('op') == '*':
                    tgt = self.field(l['e'])
                if tgt not in self.mem:
                    raise Undecided('assignment to %s' % show(l)[:50])
                r = self.ev(top['r'])
                if top['k'] == 'CAssign':
                    cur = self.mem[tgt]
                    op = top['op'][:-1]
                    r = {'+': add, '-': sub, '*': mul, '^': xor, '&': self.X.and_, '|': T.orr}.get(op, None)(cur, r) if op in '+-*^&|' else None
                    if r is None:
                        raise Undecided('compound assignment %s' % top['op'])
                self.mem[tgt] = r
                continue
            if top['k'] == 'Call' and top.get('name') == 'store64':
                self.stores.append((self.ev(top['a'][0]), self.ev(top['a'][1])))
                continue
            if not any(c.get('name') not in ('__assert_fail', '__builtin_expect') for c in astq.calls(top)) and top['k'] not in ('Assign', 'CAssign'):
                continue
            raise Undecided('statement %s' % show(top)[:60])
        return None


def expected(name, sh, mask):
    addr = add(SPAD, T_and(add(S, IMM), mask))
    from rules import x86hsem as X
    v = X.ld64(addr)
    tbl = {
        'IADD_RS': lambda: add(add(D, scale(S, 1 << sh)), IMM), 'IADD_M': lambda: add(D, v), 'ISUB_R': lambda: sub(D, S), 'ISUB_M': lambda: sub(D, v),
        'IMUL_R': lambda: mul(D, S), 'IMUL_M': lambda: mul(D, v), 'IMULH_R': lambda: hi('umulh', D, S), 'IMULH_M': lambda: hi('umulh', D, v),
        'ISMULH_R': lambda: hi('smulh', D, S), 'ISMULH_M': lambda: hi('smulh', D, v), 'INEG_R': lambda: neg(D), 'IXOR_R': lambda: xor(D, S), 'IXOR_M': lambda: xor(D, v),
        'IROR_R': lambda: T.ror(D, S), 'IROL_R': lambda: T.ror(D, neg(S)),
    }
    if name == 'ISWAP_R':
        return S, D, []
    if name == 'ISTORE':
        return D, S, [(add(SPAD, T_and(add(D, IMM), mask)), S)]
    return tbl[name](), S, []


def T_and(x, mask):
    from rules import x86hsem as X
    return X.and_(x, const(mask))


def rule_int_exec(ctx, R, F):
    if STRICT_FAMILY:
        R.note('rule_int_exec skipped: RXVERIF_STRICT_FAMILY=1 (emitted-code / executor evaluation on terms switched off, see DESIGN.md 9.2)')
        return
    R.rule('INT-EXEC', 'each integer executor of the interpreter computes the term of specification 5.2 from the pointees of idst / isrc, the immediate, the shift and the mask of its bytecode: '
           'dst + (src << shift) + imm, dst - src, dst * src, the high halves of the unsigned / signed product, -dst, dst ^ src, rotations by src mod 64, the swap, the same with the 8 bytes at '
           'scratchpad + ((src + imm) & mask) for the memory forms, and the store of src at scratchpad + ((dst + imm) & mask); decided by symbolic evaluation of the executor bodies on terms', min_instances=17)
    K = [F.const('randomx::ScratchpadL1Mask'), F.const('randomx::ScratchpadL2Mask'), F.const('randomx::ScratchpadL3Mask')]
    if None in K:
        raise AnalysisBroken('INT-EXEC: scratchpad masks not found')
    n = 0
    for name in EXECUTORS:
        q = 'randomx::BytecodeMachine::exe_' + name
        if not F.has_func(q):
            raise AnalysisBroken('INT-EXEC: %s not found' % q)
        f = F.func(q)
        R.saw(fn=f['q'])
        where = '%s:%d' % (f['file'], f['line'])
        ibc = f['params'][0]['id']
        spad = [p['id'] for p in f['params'] if 'unsigned char *' in (p.get('ty') or '') or 'uint8_t *' in (p.get('ty') or '')]
        for sh in ((0, 1, 2, 3) if name == 'IADD_RS' else (0,)):
            for mask in (K if name.endswith('_M') or name == 'ISTORE' else K[:1]):
                n += 1
                e = Eval(F, ibc, spad[0] if spad else None, sh, mask)
                try:
                    e.run(f['body'])
                except Undecided as u:
                    raise AnalysisBroken('INT-EXEC: %s: %s is outside the evaluated subset' % (name, u))
                exp_d, exp_s, exp_st = expected(name, sh, mask)
                pairs = [('*idst', e.mem['idst'], exp_d), ('*isrc', e.mem['isrc'], exp_s)]
                bad = None
                if len(e.stores) != len(exp_st):
                    bad = '%d store(s), the specification has %d' % (len(e.stores), len(exp_st))
                else:
                    for (ga, gv), (ea, ev_) in zip(e.stores, exp_st):
                        pairs += [('store address', ga, ea), ('stored value', gv, ev_)]
                for what, g_, e_ in (pairs if bad is None else ()):
                    if g_ != e_:
                        differs = None
                        for vals in T.VALUATIONS:
                            a_, b_ = T.term_eval(g_.canon(), vals), T.term_eval(e_.canon(), vals)
                            if a_ != b_:
                                differs = (a_, b_)
                                break
                        if differs is None:
                            raise AnalysisBroken('INT-EXEC: %s: %s is %s, the specification says %s; equivalence undecided' % (name, what, T.term_show(g_, None), T.term_show(e_, None)))
                        bad = '%s = %s (specification: %s), with dst = r0, src = r1, imm = r2; e.g. %#x instead of %#x' % (what, T.term_show(g_, None), T.term_show(e_, None), differs[0], differs[1])
                        break
                inst = 'exe_%s%s%s' % (name, ' shift=%d' % sh if name == 'IADD_RS' else '', ' mask=%#x' % mask if (name.endswith('_M') or name == 'ISTORE') else '')
                if bad:
                    R.violation(inst, where, expected='as in specification 5.2', found=bad)
                else:
                    R.ok(inst, where)
    if n < 17:
        raise AnalysisBroken('INT-EXEC: only %d cases' % n)


# ---------------------------------------------------------------------------------------------------------------------------
# floating-point executors: uninterpreted vector operations

FP_EXECUTORS = ('FSWAP_R', 'FADD_R', 'FADD_M', 'FSUB_R', 'FSUB_M', 'FSCAL_R', 'FMUL_R', 'FDIV_M', 'FSQRT_R')
FP_OPS = {'rx_swap_vec_f128': 'swap', 'rx_add_vec_f128': 'add', 'rx_sub_vec_f128': 'sub', 'rx_mul_vec_f128': 'mul', 'rx_div_vec_f128': 'div', 'rx_sqrt_vec_f128': 'sqrt',
          'rx_xor_vec_f128': 'xor', 'rx_and_vec_f128': 'and', 'rx_or_vec_f128': 'or'}
COMMUTATIVE = ('add', 'mul', 'xor', 'and', 'or')


class FpEval:
    def __init__(self, F, ibc_id, spad_id, cfg_id, mask):
        self.F = F
        self.ibc, self.spad, self.cfg, self.mask = ibc_id, spad_id, cfg_id, mask
        self.mem = {'fdst': ('FD',), 'fsrc': ('FS',)}
        self.env = {}
        self.int_eval = Eval(F, ibc_id, spad_id, 0, mask)

    def op(self, name, *args):
        if name in COMMUTATIVE:
            args = tuple(sorted(args, key=repr))
        return (name,) + tuple(args)

    def ev(self, n):
        n = strip_all(n)
        while n['k'] == 'Cast':
            n = strip_all(n['e'])
        k = n['k']
        if k == 'Ref' and n.get('id') in self.env:
            return self.env[n['id']]
        if k == 'Un' and n.get('op') == '*':
            f_ = self.int_eval.field(n['e'])
            if f_ in self.mem:
                return self.mem[f_]
            raise Undecided('dereference of %s' % show(n['e']))
        if k in ('Construct', 'Temp', 'Bind') and n.get('a'):
            return self.ev(n['a'][0])
        if k == 'Call':
            nm = n.get('name')
            args = n.get('a', [])
            if nm in FP_OPS:
                return self.op(FP_OPS[nm], *[self.ev(a) for a in args])
            if nm == 'rx_set1_vec_f128':
                v = val(args[0])
                if v is None:
                    raise Undecided('non-constant broadcast %s' % show(args[0])[:40])
                return ('set', v & M64, v & M64)
            if nm == 'rx_set_vec_f128':
                vs = [val(a) for a in args]
                if None in vs:
                    vs = [self.F.const(strip_all(a).get('q')) if strip_all(a)['k'] == 'Ref' and strip_all(a).get('q') else None for a in args]
                if None in vs:
                    raise Undecided('non-constant vector %s' % show(n)[:50])
                return ('set',) + tuple(v & M64 for v in vs)
            if nm == 'rx_load_vec_f128':
                a = strip_all(args[0])
                while a['k'] == 'Cast':
                    a = strip_all(a['e'])
                if a['k'] == 'Un' and a.get('op') == '&':
                    m = strip_all(a['e'])
                    if m['k'] == 'Mem' and strip_all(m['b']).get('id') == self.cfg:
                        return ('load', 'config.' + (m.get('m') or '?'))
                raise Undecided('vector load from %s' % show(args[0])[:50])
            if nm == 'rx_cvt_packed_int_vec_f128':
                return ('cvt', self.int_eval.ev(args[0]).canon())
            fn_ = n.get('fn')
            if fn_ and self.F.has_func(fn_) and self.F.func(fn_).get('body') is not None and any('rx_vec_f128' in (p.get('ty') or '') for p in self.F.func(fn_)['params']):
                g = self.F.func(fn_)
                sub_ = FpEval(self.F, self.ibc, self.spad, None, self.mask)
                for prm, a in zip(g['params'], args):
                    if 'rx_vec_f128' in (prm.get('ty') or '') or '__m128d' in (prm.get('ty') or ''):
                        sub_.env[prm['id']] = self.ev(a)
                    elif 'ProgramConfiguration' in (prm.get('ty') or ''):
                        sub_.cfg = prm['id']
                return sub_.run(g['body'])
            raise Undecided('call of %s' % (fn_ or nm))
        raise Undecided('expression %s' % show(n)[:60])

    def run(self, body):
        for s in body['s']:
            if s['k'] == 'Decl':
                for d in s['d']:
                    if d.get('init') is not None:
                        self.env[d['id']] = self.ev(d['init'])
                continue
            if s['k'] == 'Return':
                return self.ev(s['e'])
            top = strip_all(s)
            if top['k'] == 'Assign':
                l = strip_all(top['l'])
                if l['k'] == 'Ref' and l.get('id') in self.env:
                    self.env[l['id']] = self.ev(top['r'])
                    continue
                if l['k'] == 'Un' and l.get('op') == '*' and self.int_eval.field(l['e']) in self.mem:
                    self.mem[self.int_eval.field(l['e'])] = self.ev(top['r'])
                    continue
            if top['k'] == 'Call' and top.get('opcall') == '=' and top.get('a'):
                # vector types with an assignment operator (struct-based fallback of the portable configuration)
                tgt = strip_all(top['this']) if astq.is_node(top.get('this')) else strip_all(top['a'][0])
                rhs = top['a'][0] if astq.is_node(top.get('this')) else top['a'][1]
                while tgt['k'] == 'Cast':
                    tgt = strip_all(tgt['e'])
                if tgt['k'] == 'Ref' and tgt.get('id') in self.env:
                    self.env[tgt['id']] = self.ev(rhs)
                    continue
                if tgt['k'] == 'Un' and tgt.get('op') == '*' and self.int_eval.field(tgt['e']) in self.mem:
                    self.mem[self.int_eval.field(tgt['e'])] = self.ev(rhs)
                    continue
                raise Undecided('overloaded assignment %s' % show(top)[:50])
            raise Undecided('statement %s' % show(top)[:60])
        return None


def fp_term_show(t):
    if not isinstance(t, tuple):
        return hex(t) if isinstance(t, int) else str(t)
    if t[0] in ('FD', 'FS'):
        return {'FD': 'dst', 'FS': 'src'}[t[0]]
    if t[0] == 'cvt':
        return 'cvt(mem[%s])' % T.term_show(Lin(t[1][0], dict(t[1][1])), None)
    return '%s(%s)' % (t[0], ', '.join(fp_term_show(x) for x in t[1:]))


def rule_fp_exec(ctx, R, F, F_host=None):
    if STRICT_FAMILY:
        R.note('rule_fp_exec skipped: RXVERIF_STRICT_FAMILY=1 (emitted-code / executor evaluation on terms switched off, see DESIGN.md 9.2)')
        return
    R.rule('FP-EXEC', 'each floating-point executor of the interpreter applies the operation of specification 5.3 to the right operands: swap, dst + src, dst - src, dst xor 0x80F0000000000000, dst * src, sqrt(dst), with '
           'the 8 scratchpad bytes at scratchpad + ((src + imm) & mask) converted from two signed 32-bit integers for the memory forms, and for FDIV_M the divisor (cvt & mantissa mask) | exponent mask of the program; '
           'decided by symbolic evaluation of the executor bodies over uninterpreted vector operations (commutative ones compared as sets)', min_instances=9)
    K = [F.const('randomx::ScratchpadL1Mask'), F.const('randomx::ScratchpadL2Mask')]
    mant = F.const('randomx::dynamicMantissaMask')
    if None in K or mant is None:
        raise AnalysisBroken('FP-EXEC: constants not found')
    n = 0
    for name in FP_EXECUTORS:
        q = 'randomx::BytecodeMachine::exe_' + name
        f = F.func(q)
        R.saw(fn=f['q'])
        where = '%s:%d' % (f['file'], f['line'])
        ibc = f['params'][0]['id']
        spad = [p['id'] for p in f['params'] if 'unsigned char *' in (p.get('ty') or '')]
        cfg = [p['id'] for p in f['params'] if 'ProgramConfiguration' in (p.get('ty') or '')]
        for mask in (K if name.endswith('_M') else K[:1]):
            n += 1
            e = FpEval(F, ibc, spad[0], cfg[0] if cfg else None, mask)
            try:
                e.run(f['body'])
            except Undecided as u:
                raise AnalysisBroken('FP-EXEC: %s: %s is outside the evaluated subset' % (name, u))
            from rules import x86hsem as X
            addr = add(SPAD, X.and_(add(S, IMM), const(mask))).canon()
            cv = ('cvt', addr)
            FD, FS = ('FD',), ('FS',)
            o = e.op
            want = {'FSWAP_R': o('swap', FD), 'FADD_R': o('add', FD, FS), 'FADD_M': o('add', FD, cv), 'FSUB_R': ('sub', FD, FS), 'FSUB_M': ('sub', FD, cv),
                    'FSCAL_R': o('xor', FD, ('set', 0x80F0000000000000, 0x80F0000000000000)), 'FMUL_R': o('mul', FD, FS),
                    'FDIV_M': ('div', FD, o('or', o('and', cv, ('set', mant & M64, mant & M64)), ('load', 'config.eMask'))), 'FSQRT_R': ('sqrt', FD)}[name]
            got = e.mem['fdst']
            ok = got == want and e.mem['fsrc'] == FS
            R.check(ok, 'exe_%s%s' % (name, ' mask=%#x' % mask if name.endswith('_M') else ''), where, expected='*fdst = ' + fp_term_show(want),
                    found='as specified' if ok else '*fdst = %s%s' % (fp_term_show(got), '' if e.mem['fsrc'] == FS else '; *fsrc written'))
    if n < 9:
        raise AnalysisBroken('FP-EXEC: only %d cases' % n)
    if F_host is not None:
        # host (SSE2) configuration: the rx_* names used by the executors are macros for the packed-double intrinsic of the same operation
        want = {'rx_add_vec_f128': '_mm_add_pd', 'rx_sub_vec_f128': '_mm_sub_pd', 'rx_mul_vec_f128': '_mm_mul_pd', 'rx_div_vec_f128': '_mm_div_pd', 'rx_sqrt_vec_f128': '_mm_sqrt_pd',
                'rx_xor_vec_f128': '_mm_xor_pd', 'rx_and_vec_f128': '_mm_and_pd', 'rx_or_vec_f128': '_mm_or_pd'}
        for nm, intr in sorted(want.items()):
            m = F_host.macro(nm)
            if m is None:
                if F_host.has_func(nm):
                    continue      # a real function in this configuration: its body is PORT-LANEOPS' business
                raise AnalysisBroken('FP-EXEC: %s is neither a macro nor a function in the host configuration' % nm)
            R.check((m.get('body') or '').strip() == intr, 'host wrapper %s' % nm, '%s:%s' % (m.get('file'), m.get('line')), expected=intr, found=m.get('body'))
        if F_host.has_func('rx_swap_vec_f128'):
            g = F_host.func('rx_swap_vec_f128')
            cs = [c for c in astq.calls(g['body']) if 'shuf' in (c.get('name') or '')]
            ok = len(cs) == 1 and len(cs[0]['a']) == 3 and val(cs[0]['a'][2]) == 1 and show(strip_all(cs[0]['a'][0])) == show(strip_all(cs[0]['a'][1]))
            R.check(ok, 'host wrapper rx_swap_vec_f128', '%s:%d' % (g['file'], g['line']), expected='shuffle(a, a, 1): the two lanes exchanged', found=[show(c)[:60] for c in cs])


# ---------------------------------------------------------------------------------------------------------------------------
# executeSuperscalar: the interpreter of SuperscalarHash programs

class SsEval(Eval):
    """r[instr.dst] = D, r[instr.src] = S; instr.getImm32() and getModShift() are constants of the case"""

    def __init__(self, F, r_id, instr_id, shift, imm):
        Eval.__init__(self, F, None, None, shift, 0)
        self.r_id, self.instr_id, self.imm32 = r_id, instr_id, imm

    def reg(self, n):
        n = strip_all(n)
        if n['k'] != 'Idx':
            return None
        b = strip_all(n['b'])
        while b['k'] == 'Cast':
            b = strip_all(b['e'])
        i = strip_all(n['i'])
        while i['k'] == 'Cast':
            i = strip_all(i['e'])
        if b['k'] == 'Ref' and b.get('id') == self.r_id and i['k'] == 'Mem' and strip_all(i['b']).get('id') == self.instr_id and i.get('m') in ('dst', 'src'):
            return 'idst' if i['m'] == 'dst' else 'isrc'
        return None

    def ev(self, n):
        m = strip_all(n)
        while m['k'] == 'Cast' and m.get('ck') != 'IntegralCast':
            m = strip_all(m['e'])
        if m['k'] == 'Idx':
            r = self.reg(m)
            if r is None:
                raise Undecided('element %s' % show(m)[:50])
            return self.mem[r]
        if m['k'] == 'Call':
            nm = m.get('name')
            if nm == 'getImm32':
                return const(self.imm32)
            if nm == 'getModShift':
                return const(self.shift)
            if nm == 'signExtend2sCompl':
                a = self.ev(m['a'][0])
                if not a.is_const():
                    raise Undecided('sign extension of a non-constant')
                v = a.c & 0xffffffff
                return const(v | (0xffffffff00000000 if v >> 31 else 0))
        return Eval.ev(self, n)

    def exec_stmt(self, s):
        top = strip_all(s)
        if top['k'] in ('Assign', 'CAssign'):
            r = self.reg(top['l'])
            if r is None:
                raise Undecided('assignment to %s' % show(top['l'])[:50])
            v = self.ev(top['r'])
            if top['k'] == 'CAssign':
                op = top['op'][:-1]
                fn = {'+': add, '-': sub, '*': mul, '^': xor}.get(op)
                if fn is None:
                    raise Undecided('compound assignment %s' % top['op'])
                v = fn(self.mem[r], v)
            self.mem[r] = v
            return
        raise Undecided('statement %s' % show(top)[:60])


def rule_ss_exec_terms(ctx, R, F, cases, f):
    """term-level replacement for the per-kind statement comparison of SS-EXEC (all kinds except IMUL_RCP, whose two arms are compared by the caller)"""
    from rules import x86hsem as X
    r_id = f['params'][0]['id']
    instr_id = None
    for x in walk(f['body']):
        if x['k'] == 'Decl':
            for d in x['d']:
                if 'randomx::Instruction' in (d.get('ty') or ''):
                    instr_id = d['id']
    if instr_id is None:
        raise AnalysisBroken('SS-EXEC: the Instruction local of executeSuperscalar was not found')
    where = '%s:%d' % (f['file'], f['line'])
    for name in sorted(cases):
        if name in ('default', 'IMUL_RCP'):
            continue
        stmts = [s for s in cases[name] if s['k'] != 'Break']
        for sh in ((0, 1, 2, 3) if name == 'IADD_RS' else (0,)):
            imms = (1, 31, 63) if name == 'IROR_C' else ((0, 1, 0x7FFFFFFF, 0x80000000, 0xFFFFFFFF, 0x12345678) if name[:6] in ('IADD_C', 'IXOR_C') else (0x12345678,))
            for imm in imms:
                e = SsEval(F, r_id, instr_id, sh, imm)
                try:
                    for s_ in stmts:
                        e.exec_stmt(s_)
                except Undecided as u:
                    raise AnalysisBroken('SS-EXEC: %s: %s is outside the evaluated subset' % (name, u))
                exp = X.ss_expected(name, 0, 1, sh, imm)
                got_d, got_s = e.mem['idst'], e.mem['isrc']
                bad = None
                for what, g_, e_ in (('r[dst]', got_d, exp[0]), ('r[src]', got_s, exp[1])):
                    if g_ != e_:
                        differs = None
                        for vals in T.VALUATIONS:
                            a_, b_ = T.term_eval(g_.canon(), vals), T.term_eval(e_.canon(), vals)
                            if a_ != b_:
                                differs = (a_, b_)
                                break
                        if differs is None:
                            raise AnalysisBroken('SS-EXEC: %s: %s is %s, Table 6.1.1 says %s; equivalence undecided' % (name, what, T.term_show(g_, None), T.term_show(e_, None)))
                        bad = '%s = %s (Table 6.1.1: %s) with dst = r0, src = r1' % (what, T.term_show(g_, None), T.term_show(e_, None))
                        break
                R.check(bad is None, '%s semantics%s%s' % (name, ' shift=%d' % sh if name == 'IADD_RS' else '', ' imm32=%#x' % imm if len(imms) > 1 else ''), where, expected='as in Table 6.1.1', found=bad or 'as specified')
