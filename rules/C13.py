"""C13 Hashing neither depends on nor disturbs the caller's FP environment."""
import astq
from rules import driver, jit, cfrcross
from rules.C14 import rule_globals, rule_globals_ast

LEVEL = 'other'
TECHNIQUE = ('dominator / post-dominator analysis on the driver CFGs (CSR and fenv builds), known-bits abstract interpretation of the control words, whole-library scan for FP-control writers'
         '; bit routing through the decoded x86 CFROUND sequence')
CLAIM = ('Decides statically that (1) in randomx_calculate_hash the FP-environment save dominates and the restore of the saved value post-dominates every '
         'other effect, in the SSE build and in the fenv build no test compiles; (2) a reset to the fixed default word dominates every program run in all three drivers; '
         '(3) every control word the interpreter writes is a function of constants and two mode bits (known-bits), and the x86 JIT template carries the same constants; '
         '(4) no other function of the library writes the FP control state. These are the necessary structural conditions of the property; equality of digests is numeric and not claimed.'
         ' FP-RESETWORD is an abstract interpretation of the MXCSR reads and writes of rx_reset_float_state / rx_set_rounding_mode in the known-bits domain: whatever the caller left in MXCSR, bits 6-15 become 0x9FC0 (| mode << 13).'
         ' The bytes of the x86 CFROUND handler change only the rounding-control bits of MXCSR and keep the other control bits at the reset word (X86-CFR-BITS); the saved control word is not kept in shared static storage (RACE-GLOBALS).')
LEVEL_NOTE = ('Trusted: clang 14 AST/IR of the build flags; that JIT-emitted code changes MXCSR only through the CFROUND template (constants cross-checked); '
              'libm/libc do not change the control word.')
EXPLANATION = ('CFG dominance rules on randomx_calculate_hash/_next/_last in configurations K0 (MXCSR intrinsics) and K1 (fenv fallback), '
               'known-bits evaluation of rx_reset_float_state / rx_set_rounding_mode / exe_CFROUND, IR scan of all functions for FP-control writers, '
               'disassembly scan of the hand-written x86 runtime for ldmxcsr.'
         ' X86-CFR-BITS, RACE-GLOBALS.')

EXPLANATION += ' DRV-FPENV also on the fenv build (K1); feupdateenv is not a restore.'

EXPLANATION += ' A64-CFR-BITS, RV-CFR-BITS.'
CLAIM += (' On the A64 and RV64 back-ends CFROUND writes a control word that depends on two bits of the source register only and maps them as Table 4.3.1 prescribes (A64-CFR-BITS, RV-CFR-BITS).')

EXPLANATION += ' RACE-GLOBALS-AST.'


def run(ctx, R):
    F = astq.Facts(ctx, 'K0')
    driver.rule_fpenv(ctx, R, F, 'K0')
    driver.rule_fpenv(ctx, R, astq.Facts(ctx, 'K1'), 'K1')     # the fenv build (every target without SSE2: AArch64, RISC-V, PPC, generic)
    driver.rule_reset(ctx, R, F, 'K0')
    driver.rule_resetword(ctx, R, F)
    driver.rule_noleak(ctx, R)
    jit.rule_cfr_x86(ctx, R, F)
    rule_globals(ctx, R)    # the saved control word lives in the calling thread (no shared static state between concurrent hashes)
    rule_globals_ast(ctx, R)
    cfrcross.rule_a64(ctx, R)
    cfrcross.rule_rv(ctx, R)
