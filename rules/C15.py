"""C15 Object lifecycle is leak- and crash-free, also when allocations fail."""
import astq
from rules import life
from rules.C14 import rule_globals, rule_globals_ast

LEVEL = 'other'
TECHNIQUE = 'structural exception-safety analysis on the resolved AST (try coverage of every allocation, thrown-type vs handler-type hierarchy, acquire/release pairing table with folded sizes and allocator identity, value-initialisation, null-guard shape)'
CLAIM = ('Decides statically, for all flag combinations and all instantiations at once (including fault points no test can inject): every allocation made by the three creating '
         'functions is inside a try whose handler catches a base of every type the library throws, releases the partial object and returns NULL; failed memory requests surface as '
         'exceptions; dealloc pointers are set before anything can throw; partial objects are value-initialised and release functions tolerate them; every owned resource '
         '(cache/dataset memory, scratchpad, JIT pages, cache->jit, VM objects) is released by the matching call with the same allocator and size. '
         'Process growth itself (allocator and kernel behaviour) is not observed.'
         ' A constructor that maps a code buffer performs nothing that can throw after the mapping succeeded (x86, A64 and RV64 compilers; LIFE-CTOR); failed allocations surface as exceptions on every path on which the result is null (LIFE-ALLOCNULL, path-based).'
         ' Every expression of the three creating functions that can raise (operator new, throwing std:: members such as a std::string copy, calls into library code that throws) lies inside the try block (LIFE-TRY, generalised); the library keeps no mutable global state that a failed request could latch (RACE-GLOBALS).')
LEVEL_NOTE = ('Trusted: clang AST; _mm_malloc/_mm_free/mmap/munmap behave as documented (free(NULL) is a no-op); exceptions propagate only from the listed throw sites and from operator new '
              '(std::bad_alloc derives from std::exception). Unverified observation: munmap of a hugetlb mapping with a length that is not a multiple of the huge page size (DatasetSize) '
              'fails on Linux - cannot be exercised here (no huge pages), see DESIGN.md.')
EXPLANATION = ('LIFE-TRY, LIFE-THROW, LIFE-ALLOCNULL, LIFE-ORDER, LIFE-VALUEINIT, LIFE-NULL, LIFE-PAIR over randomx.cpp, allocator.cpp, dataset.cpp/.hpp, virtual_machine.cpp, vm_*.hpp, jit_compiler_x86.cpp, virtual_memory.c. LIFE-CTOR.'
         ' RACE-GLOBALS.')

EXPLANATION += ' RACE-GLOBALS-AST.'


def run(ctx, R):
    F = astq.Facts(ctx, 'K0')
    R.saw(config='K0')
    life.rule_try(ctx, R, F)
    life.rule_throw(ctx, R, F)
    life.rule_allocnull(ctx, R, F)
    life.rule_order(ctx, R, F)
    life.rule_valueinit(ctx, R, F)
    life.rule_null_pair(ctx, R, F)
    life.rule_ctor(ctx, R, 'K0', ('randomx::JitCompilerX86',))
    life.rule_ctor(ctx, R, 'K2', ('randomx::JitCompilerA64',))
    life.rule_ctor(ctx, R, 'K3', ('randomx::JitCompilerRV64',))
    rule_globals(ctx, R)    # a failed request leaves no latch behind: the library keeps no mutable global state
    rule_globals_ast(ctx, R)
