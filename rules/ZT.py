from rules import x86loop
LEVEL='other'
EXPLANATION='tmp'
def run(ctx, R):
    x86loop.rule_dsread(ctx, R)
