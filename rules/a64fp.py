"""[A64-FP-HSEM] the floating-point handlers of the A64 back-end, validated at word level.

The words a handler emits are given their architectural meaning on a vector register file whose lanes are uninterpreted terms: v16-19 = f0-3, v20-23 = e0-3,
v24-27 = a0-3 (two 64-bit lanes each), the other vector registers are named symbols (the scale mask and the two E-register masks are whatever the prologue
put there; which registers the *loop head* uses for the E masks is read from the assembled runtime, and FDIV_M must use the same).  The integer part of the
memory forms runs on the term machine of A64-MEM-HSEM.  Expected: specification 5.3.
"""
import astq
import rtasm
from astq import val
from core import AnalysisBroken
from domains import KB
from report import memoised
from rules import a64hsem as T
from rules import jit, x86hsem as X
from rules.a64hsem import add, atom, const
from rules.a64sem import Exec

FP_HANDLERS = ('FSWAP_R', 'FADD_R', 'FADD_M', 'FSUB_R', 'FSUB_M', 'FSCAL_R', 'FMUL_R', 'FDIV_M', 'FSQRT_R')
COMM = ('add', 'mul', 'xor')


def fop(name, a, b):
    if name in COMM:
        a, b = sorted((a, b), key=repr)
    return (name, a, b)


class FpMachine(T.MemMachine):
    def __init__(self, regmap):
        T.MemMachine.__init__(self, regmap)
        self.v = {}
        for i in range(4):
            for l in (0, 1):
                self.v[(16 + i, l)] = ('f', i, l)
                self.v[(20 + i, l)] = ('e', i, l)
                self.v[(24 + i, l)] = ('a', i, l)

    def vget(self, n, l):
        return self.v.get((n, l), ('v', n, l))

    def step(self, w, where):
        f = lambda lo, n: (w >> lo) & ((1 << n) - 1)
        rd, rn, rm = f(0, 5), f(5, 5), f(16, 5)
        three = {0x4E60D400: 'add', 0x4EE0D400: 'sub', 0x6E60DC00: 'mul', 0x6E60FC00: 'div', 0x6E201C00: 'xor'}
        k3 = w & 0xFFE0FC00
        if k3 in three:
            for l in (0, 1):
                self.v[(rd, l)] = fop(three[k3], self.vget(rn, l), self.vget(rm, l))
            return 'f' + three[k3]
        if k3 == 0x6EE01C00:                                # BIF Vd, Vn, Vm: Vd = (Vd & Vm) | (Vn & ~Vm)
            for l in (0, 1):
                self.v[(rd, l)] = ('bif', self.vget(rd, l), self.vget(rn, l), self.vget(rm, l))
            return 'bif'
        if (w & 0xFFFFFC00) == 0x6EE1F800:                  # FSQRT 2D
            for l in (0, 1):
                self.v[(rd, l)] = ('sqrt', self.vget(rn, l))
            return 'fsqrt'
        if (w & 0xFFFFFC00) == 0x4E61D800:                  # SCVTF 2D
            for l in (0, 1):
                self.v[(rd, l)] = ('cvt', self.vget(rn, l))
            return 'scvtf'
        if (w & 0xFFE08400) == 0x6E000400 and (f(16, 5) & 0xf) == 8:        # INS Vd.D[i], Vn.D[j]
            i_, j_ = f(20, 1), f(14, 1)
            self.v[(rd, i_)] = self.vget(rn, j_)
            return 'ins d[%d], d[%d]' % (i_, j_)
        if (w & 0xFFE0FC00) == 0x4E001C00 and (f(16, 5) & 0xf) == 8:        # INS Vd.D[i], Xn
            i_ = f(20, 1)
            self.v[(rd, i_)] = ('int', self.get(rn).canon())
            return 'ins d[%d], x' % i_
        if (w & 0xFFC00000) == 0x69400000:                  # LDPSW (signed offset)
            imm = f(15, 7)
            imm = (imm - 128 if imm >= 64 else imm) * 4
            a = add(self.get(rn), const(imm))
            v1, v2 = atom(('ld32s', a.canon())), atom(('ld32s', add(a, const(4)).canon()))
            self.put(f(0, 5), v1)
            self.put(f(10, 5), v2)
            return 'ldpsw'
        return T.MemMachine.step(self, w, where)


def show(t):
    if not isinstance(t, tuple):
        return str(t)
    if t[0] in ('f', 'e', 'a'):
        return '%s%d.%s' % (t[0], t[1], 'lo' if t[2] == 0 else 'hi')
    if t[0] == 'v':
        return 'v%d.d[%d]' % (t[1], t[2])
    if t[0] == 'int':
        return T.term_show(T.Lin(t[1][0], dict(t[1][1])), None)
    return '%s(%s)' % (t[0], ', '.join(show(x) for x in t[1:]))


def _loop_head_masks(ctx):
    """(Vn, Vm) of the `bif` the loop head applies to the e registers"""
    P = rtasm.Prog(ctx.obj('a64'), 'a64')
    lo, hi = P.sym('randomx_program_aarch64_main_loop'), P.sym('randomx_program_aarch64_vm_instructions')
    regs = {(P.ins[a].raw >> 5 & 31, P.ins[a].raw >> 16 & 31) for a in P.order if lo <= a < hi and P.ins[a].kind != 'data' and (P.ins[a].raw & 0xFFE0FC00) == 0x6EE01C00}
    if len(regs) != 1:
        raise AnalysisBroken('A64-FP-HSEM: the loop head does not mask the e registers with one `bif` register pair (%s)' % sorted(regs))
    return list(regs)[0]


def _prologue_vector_constants(ctx):
    """vector registers whose two lanes the prologue fills from an integer register holding an immediate: {register: (lane0, lane1)}"""
    import re
    P = rtasm.Prog(ctx.obj('a64'), 'a64')
    lo, hi = P.sym('randomx_program_aarch64'), P.sym('randomx_program_aarch64_main_loop')
    xc, vc = {}, {}
    for a in P.order:
        if not (lo <= a < hi):
            continue
        i = P.ins[a]
        if i.kind == 'data':
            continue
        if i.mnem == 'mov' and len(i.ops) == 2 and re.match(r'^x\d+$', i.ops[0]) and i.ops[1].startswith('#'):
            xc[i.ops[0]] = int(i.ops[1][1:], 0) & ((1 << 64) - 1)
            continue
        mm = re.match(r'^v(\d+)\.d\[([01])\]$', i.ops[0]) if i.ops else None
        if i.mnem == 'mov' and mm and len(i.ops) == 2 and i.ops[1] in xc:
            vc.setdefault(int(mm.group(1)), {})[int(mm.group(2))] = xc[i.ops[1]]
            continue
        for r in i.defs:
            xc.pop(r, None)
            if r.startswith('v') and not mm:
                vc.pop(int(r[1:]), None)
    return {n: (l.get(0), l.get(1)) for n, l in vc.items()}


@memoised('A64-FP-HSEM')
def rule_fp_hsem(ctx, R):
    if T.STRICT_FAMILY:
        R.note('rule_fp_hsem skipped: RXVERIF_STRICT_FAMILY=1')
        return
    F, hs = jit.handlers(ctx, 'a64')
    cls = 'randomx::JitCompilerA64'
    R.rule('A64-FP-HSEM', 'for the nine floating-point instructions the words the A64 handler emits, interpreted on a vector register file of uninterpreted lane terms (v16-19 = f, v20-23 = e, v24-27 = a), apply the operation of '
           'specification 5.3 to the right registers in both lanes: f[dst] +/- a[src], f[dst] xor the scale-mask register, e[dst] * a[src], sqrt(e[dst]), the lane swap of f / e, and for the memory forms the operand converted from the '
           'two sign-extended 32-bit integers at scratchpad + ((src + sext(imm32)) & mask), for FDIV_M passed through the same mask operation and registers as in the loop head; nothing else of the VM state changes', min_instances=900)
    R.saw(config='K2', unit='src/jit_compiler_a64.cpp')
    FI = astq.Facts(ctx, 'K0')
    K = {'L1': FI.const('randomx::ScratchpadL1Mask'), 'L2': FI.const('randomx::ScratchpadL2Mask')}
    g = F.glob('randomx::IntRegMap')
    regmap = [val(e) for e in g['init']['e']]
    bn, bm = _loop_head_masks(ctx)
    n = 0
    scale_regs = set()
    for name in FP_HANDLERS:
        if name not in hs:
            raise AnalysisBroken('A64-FP-HSEM: handler of %s not found' % name)
        h = hs[name].f
        where = '%s:%d' % (h['file'], h['line'])
        R.saw(fn=h['q'])
        ip = h['params'][0]
        for d in range(8):
            for s in range(8):
                for modmem in ((0, 1, 3) if name.endswith('_M') else (0,)):
                    for imm in ((0, 0x7FFFFFF8, 0x80000000, 0xFFFFFFFF, 0x1000, 0xFFF) if name.endswith('_M') and (d + s) % 4 == 0 else (0x12345678,)):
                        n += 1
                        m = FpMachine(regmap)
                        ex = Exec(F, cls, None, {}, 64)
                        pname = ip['name']
                        env0 = {'%s.dst' % pname: KB.const(8, d), '%s.src' % pname: KB.const(8, s), '%s.mod' % pname: KB.const(8, modmem)}
                        ov = {'randomx::Instruction::getImm32': KB.const(32, imm), 'randomx::Instruction::getModShift': KB.const(32, 0),
                              'randomx::Instruction::getModMem': KB.const(32, modmem), 'randomx::Instruction::getModCond': KB.const(32, 0)}
                        ex.run_with(h, [None, KB.const(32, 0x1000)], env0, ov)
                        tr, bad = [], None
                        if not ex.words:
                            bad = 'nothing is emitted'
                        for w, wh in ex.words:
                            v = w.value()
                            if v is None:
                                raise AnalysisBroken('A64-FP-HSEM: a word emitted at %s is not constant (%s)' % (wh, w.hexpat()))
                            tr.append(m.step(v, wh))
                        exp = {}
                        for i in range(4):
                            for l in (0, 1):
                                exp[(16 + i, l)], exp[(20 + i, l)], exp[(24 + i, l)] = ('f', i, l), ('e', i, l), ('a', i, l)
                        fd, fs = d % 4, s % 4
                        simm = const(imm | (0xffffffff00000000 if imm >> 31 else 0))
                        addr = add(atom(('spad',)), X.and_(add(atom(('reg', s)), simm), const(K['L1'] if modmem else K['L2'])))
                        cv = [('cvt', ('int', atom(('ld32s', add(addr, const(4 * l)).canon())).canon())) for l in (0, 1)]
                        undecided = None
                        if name == 'FSWAP_R':
                            exp[(16 + d, 0)], exp[(16 + d, 1)] = exp[(16 + d, 1)], exp[(16 + d, 0)]
                        for l in (0, 1):
                            if name == 'FADD_R':
                                exp[(16 + fd, l)] = fop('add', ('f', fd, l), ('a', fs, l))
                            elif name == 'FADD_M':
                                exp[(16 + fd, l)] = fop('add', ('f', fd, l), cv[l])
                            elif name == 'FSUB_R':
                                exp[(16 + fd, l)] = ('sub', ('f', fd, l), ('a', fs, l))
                            elif name == 'FSUB_M':
                                exp[(16 + fd, l)] = ('sub', ('f', fd, l), cv[l])
                            elif name == 'FSCAL_R':
                                got = m.vget(16 + fd, l)
                                # the scale mask lives in a register of the template: any one register, the same for every case
                                if got[0] == 'xor' and ('f', fd, l) in got[1:]:
                                    other = got[1] if got[2] == ('f', fd, l) else got[2]
                                    if other[0] == 'v' and other[2] == l:
                                        scale_regs.add(other[1])
                                        exp[(16 + fd, l)] = got
                                        continue
                                exp[(16 + fd, l)] = ('xor', ('f', fd, l), 'scale mask register')
                            elif name == 'FMUL_R':
                                exp[(20 + fd, l)] = fop('mul', ('e', fd, l), ('a', fs, l))
                            elif name == 'FDIV_M':
                                exp[(20 + fd, l)] = ('div', ('e', fd, l), ('bif', cv[l], ('v', bn, l), ('v', bm, l)))
                            elif name == 'FSQRT_R':
                                exp[(20 + fd, l)] = ('sqrt', ('e', fd, l))
                        if bad is None:
                            for key in sorted(exp):
                                got = m.vget(*key)
                                if got != exp[key]:
                                    # the address inside a conversion may differ in form only
                                    if _same_mod_addr(got, exp[key]):
                                        continue
                                    bad = 'v%d.d[%d] = %s after `%s` (specification: %s)' % (key[0], key[1], show(got), ' ; '.join(tr), show(exp[key]))
                                    break
                        if bad is None:
                            for i in range(8):
                                if m.get(regmap[i]) != atom(('reg', i)):
                                    bad = 'integer register r%d changed by a floating-point instruction (`%s`)' % (i, ' ; '.join(tr))
                                    break
                        if bad is None and m.stores:
                            bad = 'a store is emitted'
                        inst = '%s dst=%d src=%d%s' % (name, d, s, ' mod.mem=%d imm32=%#x' % (modmem, imm) if name.endswith('_M') else '')
                        if bad:
                            R.violation(inst, where, expected='as in specification 5.3', found=bad)
                        else:
                            R.ok(inst, where)
    SCALE = 0x80F0000000000000      # specification 5.3.6
    vc = _prologue_vector_constants(ctx)
    holders = sorted(n_ for n_, ls in vc.items() if ls == (SCALE, SCALE))
    R.check(len(scale_regs) == 1 and sorted(scale_regs) == holders, 'FSCAL_R: the scale-mask register', 'src/jit_compiler_a64.cpp', expected='the vector register the prologue fills with %#x in both lanes: %s' % (SCALE, ['v%d' % x for x in holders]),
            found=['v%d' % x for x in sorted(scale_regs)])
    if n < 900:
        raise AnalysisBroken('A64-FP-HSEM: only %d cases evaluated' % n)


def _same_mod_addr(got, want):
    """two lane terms that differ only in the written form of a load address which bitlin / the valuations decide equal"""
    from rules import bitlin
    if not (isinstance(got, tuple) and isinstance(want, tuple)) or got[0] != want[0] or len(got) != len(want):
        return False
    if got[0] == 'int':
        a, b = T.Lin(got[1][0], dict(got[1][1])), T.Lin(want[1][0], dict(want[1][1]))
        ga, wa = T.single_atom(a) if hasattr(T, 'single_atom') else None, None
        from rules import rvhsem as V
        ga, wa = V.single_atom(a), V.single_atom(b)
        if ga is not None and wa is not None and ga[0] == wa[0] == 'ld32s':
            return bitlin.decide(V.lin_of(ga[1]), V.lin_of(wa[1]))[0] == 'eq'
        return False
    return all((x == y) or _same_mod_addr(x, y) for x, y in zip(got[1:], want[1:]))
