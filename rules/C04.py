"""C04 x86-64 JIT-compiled programs behave exactly like interpreted programs."""
import astq
from rules import aes, cgsize, genreset, jit, sshash, vmcfg, x86hsem, x86loop

LEVEL = 'other'
TECHNIQUE = ('sibling agreement between the x86 emitters and the interpreter decoder on resolved-AST feature vectors, known-bits on branch constants, decoding of byte templates, assembled-fragment constants'
         '; symbolic translation validation of the integer register-form handlers: known-bits execution of the emitter for constant instruction fields, decoding of the emitted code, application to a register file of terms over r0..r7, comparison of normal forms with the terms of specification 5.2 (bytes disassembled by objdump in one batch)'
         '; bit routing of symbolic source bits through the decoded CFROUND sequence')
CLAIM = ('Decides statically that the x86-64 emitters agree with the interpreter (the reference named by the property) on everything that is visible without '
         'interpreting emitted machine code: the 256-entry opcode map, the last-writer marking per instruction and guard, the set of instructions that '
         'special-case src == dst, the IMUL_RCP no-op rule, CBRANCH constant/mask/target construction for 16 shifts (incl. the 2^31 bound of the sign-extending encodings), '
         'scratchpad-mask selection per address helper, the CFROUND rotate/v2-test/MXCSR constants.'
         ' For the ten integer register-form instructions and IMUL_RCP the semantics of the emitted byte sequence is decided: the handler is executed in the known-bits domain for constant instruction fields, the bytes are disassembled (objdump as trusted decoder) and interpreted on a register file of terms over r0..r7, and the result must be the term of specification 5.2 for every dst x src, shift and a set of boundary immediates (X86-HSEM, 2800 cases). Memory-form, floating-point, store and branch handlers are covered only by the structural rules above. No member of the compiler object that the handlers advance survives from one generate* call to the next (GEN-RESET).'
         ' The six memory-form integer instructions and ISTORE are validated the same way with a symbolic scratchpad: the emitted code must access exactly scratchpad + ((src + sext(imm32)) & mask) with the L1 / L2 / L3 mask the specification selects (src == dst: imm32 & L3 mask) (X86-MEM-HSEM). CFROUND: routing symbolic bits of the source register through the decoded bytes shows that MXCSR receives the reset word with bits 13-14 = ror(src, imm32) & 3, unconditionally in v1 and exactly when (ror(src, imm32) & 60) == 0 in v2 (X86-CFR-BITS, 1072 cases). Every mark written to registerUsage is the index of the instruction being translated (LW-VALUE). A handler whose emission depends on state left by earlier instructions other than the last-writer table cannot be validated per instruction: the check then stops with exit 2 rather than guessing.'
         ' The nine floating-point instructions are validated on the decoded bytes over uninterpreted packed-double terms: the right operation on f / e / a registers, the converted scratchpad operand, the mantissa / exponent masking of FDIV_M, the scale mask of FSCAL_R (X86-FP-HSEM, 1392 cases).'
         ' x86 CBRANCH bytes: `add dst, imm` with the immediate of 5.4.3, `test dst, 0xFF << (mod.cond + 8)`, and a `jz` whose displacement lands exactly on the code offset of the instruction after the last writer of the register (X86-CBR-HSEM, decoded bytes, 1064 cases).')
LEVEL_NOTE = 'Trusted: clang AST of the build flags; x86 encodings of the byte templates other than the two decoded CFROUND templates; hand-written asm fragments (only their constants are cross-checked).'
EXPLANATION = ('Rules TAB-OPC (256), LW-SIB/SPLIT-SIB (30 handlers), RCP-NOOP, CBR-BITS/CBR-TARGET, MEM-JITMASK, CFR-SIB on JitCompilerX86 vs BytecodeMachine.'
         ' X86-HSEM, GEN-RESET.'
         ' X86-MEM-HSEM, X86-CFR-BITS, LW-VALUE.'
         ' X86-FP-HSEM.'
         ' X86-CBR-HSEM.')

EXPLANATION += ' CG-SIZE-X86.'

CLAIM += (' The end-of-iteration fragments of the hand-written x86 runtime store r0-r7 at spAddr1 before f0-f3 at spAddr0, through the stack slots the load half of the loop filled (X86-LOOPSTORE); no plain member of the compiler object is read before it has been given a value (CTOR-INIT).')
EXPLANATION += ' X86-LOOPSTORE, CTOR-INIT.'

EXPLANATION += ' X86-LOOPLOAD.'
CLAIM += (' The load half of the hand-written loop XORs r(8+j) with the j-th quadword at spAddr0, converts the eight 8-byte groups at spAddr1 into f0-f3 / e0-e3 and masks only the e registers (X86-LOOPLOAD).')

EXPLANATION += ' X86-DSITEM.'

EXPLANATION += ' VM-INITORDER, X86-ISA-BASE.'
CLAIM += (' No run() reads a member that randomx_vm::initialize() derives from the program before it has called initialize() (VM-INITORDER); the hand-written runtime uses only baseline x86-64 instructions outside the hardware-AES fragments (X86-ISA-BASE).')


CLAIM += (' The dataset read of a compiled x86-64 program - the bytes the prologue generator emits for readReg2 ^ readReg3 and the hand-written v1 / v2 / light-mode pieces - executed on terms performs specification 4.6.2 steps 5-8: read at the old ma, mx (v1) or ma (v2) XORed with the zero-extended value, halves swapped, prefetch at the new mx, item number and saved registers in light mode (X86-DSREAD-HSEM).')
EXPLANATION += ' X86-DSREAD-HSEM.'

CLAIM += (' The two scratchpad addresses of an iteration in the x86-64 back-end are the masked halves of readReg0 ^ readReg1 (generated bytes + hand-written piece on terms), mx and ma for the first iteration; the loop head reads the integer group at the first and the floating-point group at the second, and the end-of-iteration fragments give both registers back (X86-SPMIX-HSEM).')
EXPLANATION += ' X86-SPMIX-HSEM.'

def run(ctx, R):
    FI = astq.Facts(ctx, 'K0')
    R.saw(config='K0')
    jit.rule_tab_opc(ctx, R, 'x86', FI)
    jit.rule_lw_sib(ctx, R, 'x86', FI)
    jit.rule_rcp(ctx, R, 'x86')
    jit.rule_cbr_x86(ctx, R, FI)
    jit.rule_jitmask_x86(ctx, R)
    jit.rule_cfr_x86(ctx, R, FI)
    sshash.rule_immenc(ctx, R, FI)
    vmcfg.rule_asm_mp(ctx, R)
    vmcfg.rule_v2gates(ctx, R, FI)
    aes.rule_asm(ctx, R, FI)
    vmcfg.rule_compose(ctx, R, FI)
    genreset.rule_gen_reset(ctx, R, 'x86')
    x86hsem.rule_hsem(ctx, R)
    x86hsem.rule_mem_hsem(ctx, R)
    jit.rule_lw_value(ctx, R, 'x86')
    x86hsem.rule_fp_hsem(ctx, R)
    x86hsem.rule_cbranch(ctx, R)
    cgsize.rule_x86(ctx, R, FI)    # the program area holds the largest program: an overflow would overwrite the SuperscalarHash routine the light-mode loop calls
    genreset.rule_ctor_init(ctx, R, 'x86')
    x86loop.rule_loopstore(ctx, R)
    x86loop.rule_loopload(ctx, R)
    x86loop.rule_dsread(ctx, R)
    x86loop.rule_spmix(ctx, R)
    x86loop.rule_dsitem(ctx, R)
    vmcfg.rule_initorder(ctx, R, astq.Facts(ctx, 'K0'))
    x86loop.rule_isa_base(ctx, R)
