"""Configuration-dependent vector wrappers used by the AES code: [AES-LANES] the 32-bit lane accessors number the lanes the
same way in every analysed configuration; [AES-HW-WRAP] the hardware AES wrappers compute a FIPS-197 round with the round key
added last; [CFG-COVER] every feature macro that selects code in src/ belongs to an analysed configuration axis."""
import os
import re

import astq
from astq import calls, loc, show, strip_all, val, walk
from core import AnalysisBroken, CONFIGS

ACC = ('x', 'y', 'z', 'w')


def _lane_of(F, f):
    """lane index (0 = least significant 32 bits) returned by an accessor, from the meaning of the intrinsics it uses"""
    pid = f['params'][0]['id'] if f['params'] else None
    rets = [x for x in walk(f['body']) if x['k'] == 'Return' and x.get('e') is not None]
    if len(rets) != 1:
        return None, 'no single return'
    cs = [c for c in calls(f['body'])]
    names = [c.get('name') for c in cs]
    # SSE2: _mm_cvtsi128_si32(x) = lane 0 of x; pshufd(a, imm) puts lane (imm & 3) of a into lane 0
    if '_mm_cvtsi128_si32' in names:
        sh = [c for c in cs if c.get('name') == '__builtin_ia32_pshufd']
        if not sh:
            return 0, 'movd'
        if len(sh) == 1 and val(sh[0]['a'][1]) is not None:
            return val(sh[0]['a'][1]) & 3, 'pshufd %#x ; movd' % val(sh[0]['a'][1])
        return None, 'pshufd with a non-constant selector'
    # SSE4.1: pextrd
    ex = [c for c in cs if c.get('name') in ('__builtin_ia32_vec_ext_v4si', '_mm_extract_epi32')]
    if len(ex) == 1 and val(ex[0]['a'][1]) is not None:
        return val(ex[0]['a'][1]) & 3, 'pextrd %d' % val(ex[0]['a'][1])
    # NEON
    ex = [c for c in cs if c.get('name') in ('__builtin_neon_vgetq_lane_i32', 'vgetq_lane_s32', 'vgetq_lane_u32')]
    if len(ex) == 1 and val(ex[0]['a'][1]) is not None:
        return val(ex[0]['a'][1]) & 3, 'vgetq_lane %d' % val(ex[0]['a'][1])
    # generic struct: a.u32[k] / a.i32[k] (K1; lane numbering of the struct is decided by PORT-LANEOPS)
    e = strip_all(rets[0]['e'])
    while e['k'] == 'Cast':
        e = strip_all(e['e'])
    if e['k'] == 'Idx' and val(e['i']) is not None:
        return val(e['i']), 'struct element %d' % val(e['i'])
    return None, 'unrecognised accessor body: %s' % show(rets[0]['e'])[:80]


def rule_lanes(ctx, R, configs=('K0', 'K4', 'K2', 'K1')):
    R.rule('AES-LANES', 'rx_vec_i128_x/y/z/w return the 32-bit lanes 0/1/2/3 (least significant first) of a 128-bit value in every analysed configuration; the table-driven AES round indexes its tables with them, '
           'so a configuration that numbers them differently computes a different round', min_instances=12)
    for cfg in configs:
        units = None
        F = astq.Facts(ctx, cfg)
        R.saw(config=cfg)
        for j, a in enumerate(ACC):
            q = 'rx_vec_i128_' + a
            if not F.has_func(q):
                # x86 builds may define the accessor as a macro
                raise AnalysisBroken('AES-LANES: %s is not a function in configuration %s' % (q, cfg))
            f = F.func(q)
            lane, how = _lane_of(F, f)
            if lane is None and 'unrecognised' in how:
                raise AnalysisBroken('AES-LANES: %s in %s: %s' % (q, cfg, how))
            R.check(lane == j, '%s [%s]' % (q, cfg), '%s:%d' % (f['file'], f['line']), expected='lane %d' % j, found='lane %s (%s)' % (lane, how))


def _term(F, f, n, env):
    n = strip_all(n)
    k = n['k']
    if k == 'Cast':
        return _term(F, f, n['e'], env)
    if k == 'Ref':
        if n.get('id') in env:
            return env[n['id']]
        return ('?', show(n))
    if k == 'InitList':
        if all(val(e) == 0 for e in n.get('e', [])):
            return 'Z'
        return ('?', 'initlist')
    if k == 'Bin' and n['op'] == '^':
        return _xor(_term(F, f, n['l'], env), _term(F, f, n['r'], env))
    if k == 'Call':
        nm = n.get('name')
        a = [_term(F, f, x, env) for x in n.get('a', [])]
        if nm in ('vaeseq_u8',):
            return ('SubBytes.ShiftRows', _xor(a[0], a[1]))
        if nm in ('vaesdq_u8',):
            return ('InvSubBytes.InvShiftRows', _xor(a[0], a[1]))
        if nm == 'vaesmcq_u8':
            return ('MixColumns', a[0])
        if nm == 'vaesimcq_u8':
            return ('InvMixColumns', a[0])
        if nm in ('veorq_u8', 'veorq_u32', 'veorq_s32'):
            return _xor(a[0], a[1])
        if nm and nm.startswith('vreinterpretq_'):
            return a[0]
        if nm in ('vdupq_n_u8', 'vdupq_n_u32') and val(n['a'][0]) == 0:
            return 'Z'
        if nm in ('_mm_aesenc_si128', '__builtin_ia32_aesenc128'):
            return _xor(('MixColumns', ('SubBytes.ShiftRows', a[0])), a[1])
        if nm in ('_mm_aesdec_si128', '__builtin_ia32_aesdec128'):
            return _xor(('InvMixColumns', ('InvSubBytes.InvShiftRows', a[0])), a[1])
        return ('?', 'call ' + str(nm))
    return ('?', show(n)[:40])


def _xor(a, b):
    parts = []
    for t in (a, b):
        if isinstance(t, tuple) and t and t[0] == 'xor':
            parts += list(t[1])
        elif t != 'Z':
            parts.append(t)
    # x ^ x = 0
    out = []
    for p in sorted(parts, key=repr):
        if out and out[-1] == p:
            out.pop()
        else:
            out.append(p)
    if not out:
        return 'Z'
    if len(out) == 1:
        return out[0]
    return ('xor', tuple(out))


def _fmt(t):
    if isinstance(t, tuple) and t[0] == 'xor':
        return ' ^ '.join(_fmt(x) for x in t[1])
    if isinstance(t, tuple) and t[0] == '?':
        return '<%s>' % t[1]
    if isinstance(t, tuple):
        return '%s(%s)' % (t[0], _fmt(t[1]))
    return str(t)


def rule_hw_wrap(ctx, R):
    R.rule('AES-HW-WRAP', 'the hardware AES wrappers compute MixColumns(SubBytes(ShiftRows(a))) ^ key (and the inverse round) -- the x86 AESENC/AESDEC form the specification uses; on AArch64, where AESE/AESD add their '
           'key operand *before* SubBytes, the wrapper must pass a zero key and add the round key afterwards; decided by symbolic normalisation of the wrapper bodies with the architectural meaning of the intrinsics', min_instances=4)
    exp = {'rx_aesenc_vec_i128': _xor(('MixColumns', ('SubBytes.ShiftRows', 'a')), 'key'), 'rx_aesdec_vec_i128': _xor(('InvMixColumns', ('InvSubBytes.InvShiftRows', 'a')), 'key')}
    F2 = astq.Facts(ctx, 'K2')
    for q, want in sorted(exp.items()):
        f = F2.func(q)
        env = {}
        if len(f['params']) != 2:
            raise AnalysisBroken('AES-HW-WRAP: %s has %d parameters' % (q, len(f['params'])))
        env[f['params'][0]['id']] = 'a'
        env[f['params'][1]['id']] = 'key'
        for x in walk(f['body']):
            if x['k'] == 'Decl':
                for d in x['d']:
                    if 'init' in d:
                        env[d['id']] = _term(F2, f, d['init'], env)
        rets = [x for x in walk(f['body']) if x['k'] == 'Return' and x.get('e') is not None]
        if len(rets) != 1:
            raise AnalysisBroken('AES-HW-WRAP: %s has %d returns' % (q, len(rets)))
        got = _term(F2, f, rets[0]['e'], env)
        R.check(got == want, '%s [K2, AArch64 +crypto]' % q, '%s:%d' % (f['file'], f['line']), expected=_fmt(want), found=_fmt(got))
    # x86: the wrappers are the instructions themselves
    for cfg in ('K0', 'K4'):
        F = astq.Facts(ctx, cfg)
        for q, insn in (('rx_aesenc_vec_i128', '_mm_aesenc_si128'), ('rx_aesdec_vec_i128', '_mm_aesdec_si128')):
            try:
                m = F.macro(q)
            except AnalysisBroken:
                m = None
            if m is None:
                if F.has_func(q):
                    f = F.func(q)
                    env = {f['params'][0]['id']: 'a', f['params'][1]['id']: 'key'}
                    rets = [x for x in walk(f['body']) if x['k'] == 'Return' and x.get('e') is not None]
                    got = _term(F, f, rets[0]['e'], env) if len(rets) == 1 else ('?', 'returns')
                    R.check(got == exp[q], '%s [%s]' % (q, cfg), '%s:%d' % (f['file'], f['line']), expected=_fmt(exp[q]), found=_fmt(got))
                    continue
                raise AnalysisBroken('AES-HW-WRAP: %s neither macro nor function in %s' % (q, cfg))
            R.check(m['body'].strip() == insn, '%s [%s]' % (q, cfg), '%s:%d' % (m['file'], m['line']), expected=insn, found=m['body'])


# feature macros that select code somewhere in src/ -> the analysed configurations in which they are defined / undefined
AXES = {
    '__SSE2__': ('K0', 'K1'), '__AES__': ('K0', 'K1'), '__SSSE3__': ('K0', 'K1'), '__AVX2__': ('K0', 'K1'), '__SSE4_1__': ('K4', 'K0'), '__SSE4_2__': ('K4', 'K0'), '__AVX__': ('K4', 'K0'),
    '__BMI2__': ('K4', 'K0'), '__BMI__': ('K4', 'K0'), '__x86_64__': ('K0', 'K1'), '_M_X64': ('K0', 'K1'), '__SIZEOF_INT128__': ('K0', 'K1'),
    '__aarch64__': ('K2', 'K0'), '__ARM_FEATURE_CRYPTO': ('K2', 'K0'), '__riscv': ('K3', 'K0'), '__GNUC__': ('K0', None), '__clang__': ('K0', None),
}
# instruction-set feature macros (the axes along which a "fast path" can silently differ); everything else (OS, compiler, endianness, language
# version macros) selects platform glue that the analysed Linux configurations fix
ISA_RE = re.compile(r'^__(SSE|SSSE|AVX|AES|VAES|BMI|PCLMUL|SHA|FMA|F16C|POPCNT|LZCNT|ADX|XOP|GFNI|ARM_FEATURE|ARM_NEON|CRYPTO|VSX|ALTIVEC|riscv_z|riscv_v)')
# ISA axes present in the source that no installed toolchain configuration of this checker can parse (PowerPC headers, RISC-V extensions beyond rv64gc):
# the code they select is outside every claim
ISA_UNANALYSED = ('__ALTIVEC__', '__VSX__', '__CRYPTO__', '__riscv_vector', '__riscv_zba', '__riscv_zbb', '__riscv_zvkned', '__riscv_zvkb', '__riscv_v', '__riscv_zicbop', '__riscv_v_intrinsic', '__SSE__')


def rule_cfg_cover(ctx, R):
    R.rule('CFG-COVER', 'every instruction-set feature macro tested by a conditional in src/ is either an axis along which an analysed configuration differs, or one this checker declares unanalysed; '
           'a new axis (e.g. a fast path under a new instruction-set macro) must be added to the analysed configurations before the checks can speak about the code it selects', min_instances=10)
    root = os.path.join(ctx.repo, 'src')
    seen = {}
    for dp, dn, fn in os.walk(root):
        if os.sep + 'tests' in dp:
            continue
        for n in sorted(fn):
            if not n.endswith(('.h', '.hpp', '.c', '.cpp', '.S', '.inc')):
                continue
            rel = os.path.relpath(os.path.join(dp, n), ctx.repo)
            try:
                lines = open(os.path.join(dp, n), errors='replace').read().split('\n')
            except OSError:
                continue
            cont = ''
            for ln, t in enumerate(lines, 1):
                t = cont + t
                if t.endswith('\\'):
                    cont = t[:-1]
                    continue
                cont = ''
                m = re.match(r'^\s*#\s*(if|ifdef|ifndef|elif)\b(.*)$', t)
                if not m:
                    continue
                for mac in re.findall(r'\b(_[A-Za-z_][A-Za-z0-9_]*)\b', m.group(2)):
                    if re.match(r'^(__[a-zA-Z0-9_]+|_M_[A-Z0-9_]+|_MSC_VER|_WIN32|_WIN64|_AIX)$', mac):
                        seen.setdefault(mac, '%s:%d' % (rel, ln))
    unknown = []
    for mac, where in sorted(seen.items()):
        if mac in AXES:
            on, off = AXES[mac]
            R.ok('%s' % mac, where, detail='axis analysed: defined in %s, undefined in %s' % (on, off))
        elif mac in ISA_UNANALYSED:
            R.ok('%s' % mac, where, detail='instruction-set axis outside the analysed configurations (declared in DESIGN.md): code under it is not covered by any claim')
        elif ISA_RE.match(mac):
            unknown.append('%s (%s)' % (mac, where))
    if unknown:
        # a coverage gap of the checker, not a defect of the code: exit 2
        raise AnalysisBroken('CFG-COVER: conditionals on instruction-set macros that no analysed configuration toggles: %s' % ', '.join(unknown))


# ---------------------------------------------------------------------------------------------------------------------------
# [RVV-VLEN] the run-time test that selects the vector kernels admits only vector lengths the kernels were written for

_NO_VL = ('vreinterpret', 'vundefined', 'vlmul', 'vget', 'vset', 'vcreate', 'vsetvl', 'vlenb')


def _strip_comments(t):
    t = re.sub(r'/\*.*?\*/', lambda m: re.sub(r'[^\n]', ' ', m.group(0)), t, flags=re.S)
    return re.sub(r'//[^\n]*', '', t)


def _split_args(s):
    out, depth, cur = [], 0, ''
    for ch in s:
        if ch in '([{':
            depth += 1
        elif ch in ')]}':
            depth -= 1
        if ch == ',' and depth == 0:
            out.append(cur.strip())
            cur = ''
        else:
            cur += ch
    if cur.strip():
        out.append(cur.strip())
    return out


def rvv_kernel_needs(path):
    """{function name: (VLEN in bits that its RVV intrinsic calls need, evidence)} for the functions defined in one intrinsic-based unit.
    An intrinsic __riscv_<op>_<t><SEW>m<LMUL>(..., vl) operates on vl elements of SEW bits in LMUL registers: it needs VLEN >= vl * SEW / LMUL (else the
    hardware silently clamps vl and the remaining elements are not processed)."""
    t = _strip_comments(open(path, errors='replace').read())
    # top-level function bodies
    funcs = {}
    for m in re.finditer(r'\b([A-Za-z_][A-Za-z0-9_]*)\s*\(([^;{}()]|\([^()]*\))*\)\s*\{', t):
        name = m.group(1)
        if name in ('if', 'for', 'while', 'switch'):
            continue
        # only at brace depth 0
        if t[:m.start()].count('{') != t[:m.start()].count('}'):
            continue
        i = m.end()
        depth = 1
        while i < len(t) and depth:
            depth += {'{': 1, '}': -1}.get(t[i], 0)
            i += 1
        funcs[name] = (t[m.end():i - 1], t[:m.start()].count('\n') + 1)
    direct, callees = {}, {}
    for name, (body, line) in funcs.items():
        need, ev = 0, None
        for m in re.finditer(r'\b__riscv_([a-z0-9]+)_[a-z0-9_]*?([uif])(\d+)m(f?)(\d)\w*\s*\(', body):
            op = m.group(1)
            if op.startswith(_NO_VL):
                continue
            i = m.end()
            depth = 1
            while i < len(body) and depth:
                depth += {'(': 1, ')': -1}.get(body[i], 0)
                i += 1
            args = _split_args(body[m.end():i - 1])
            vl = args[-1] if args else ''
            if not re.match(r'^\d+[uUlL]*$', vl):
                mm = re.search(r'\b(?:const|constexpr)\s+\w+\s+%s\s*=\s*(\d+)\s*;' % re.escape(vl), body + t) if re.match(r'^\w+$', vl) else None
                if not mm:
                    raise AnalysisBroken('RVV-VLEN: vector length argument %r of %s in %s (%s) is not a constant' % (vl, m.group(0)[:40], name, os.path.basename(path)))
                vl = mm.group(1)
            n = int(re.match(r'\d+', vl).group(0))
            sew, lm = int(m.group(3)), int(m.group(5))
            bits = n * sew * lm if m.group(4) else -(-n * sew // lm)
            if bits > need:
                need, ev = bits, '%s...) with vl = %d: %d x %d bits in %s%d register(s)' % (m.group(0)[:-1].strip(), n, n, sew, '1/' if m.group(4) else '', lm)
        direct[name] = (need, ev)
        callees[name] = set(c for c in re.findall(r'\b([A-Za-z_][A-Za-z0-9_]*)\s*\(', body) if c in funcs and c != name)
    out = {}
    for name in funcs:
        seen, todo, best = set(), [name], (0, None)
        while todo:
            x = todo.pop()
            if x in seen:
                continue
            seen.add(x)
            if direct[x][0] > best[0]:
                best = direct[x]
            todo += list(callees[x])
        out[name] = best + (funcs[name][1],)
    return out


def rule_rvv_vlen(ctx, R):
    import decoder as _dec
    R.rule('RVV-VLEN', 'every call of an RVV software-AES kernel in aes_hash.cpp is reachable only when the CPU reports the V extension with a vector length of at least what the kernel\'s intrinsic calls need '
           '(max over its calls, and those of its helpers, of vl x SEW / LMUL); with a shorter vector the hardware clamps vl and half of the AES lanes are never computed', min_instances=4)
    unit = os.path.join(ctx.repo, 'src', 'aes_hash_rv64_vector.cpp')
    if not os.path.exists(unit):
        raise AnalysisBroken('RVV-VLEN: src/aes_hash_rv64_vector.cpp not found')
    needs = rvv_kernel_needs(unit)
    F = astq.Facts(ctx, 'K3')
    R.saw(config='K3')
    lens = (0, 64, 128, 256, 512, 1024, 65536)
    n = 0

    def ev(nod, rvv, ln):
        nod = strip_all(nod)
        v_ = val(nod)
        if v_ is not None:
            return v_
        if nod['k'] == 'Bin':
            a_, b_ = ev(nod['l'], rvv, ln), ev(nod['r'], rvv, ln)
            op = nod['op']
            if op == '&&':
                return 0 if (a_ == 0 or b_ == 0) else (None if None in (a_, b_) else 1)
            if op == '||':
                return 1 if ((a_ not in (0, None)) or (b_ not in (0, None))) else (None if None in (a_, b_) else 0)
            if None in (a_, b_):
                return None
            f_ = {'>=': lambda: a_ >= b_, '>': lambda: a_ > b_, '<': lambda: a_ < b_, '<=': lambda: a_ <= b_, '==': lambda: a_ == b_, '!=': lambda: a_ != b_}.get(op)
            return None if f_ is None else int(f_())
        if nod['k'] == 'Un' and nod.get('op') == '!':
            a_ = ev(nod['e'], rvv, ln)
            return None if a_ is None else int(not a_)
        if nod['k'] == 'Call':
            nm = nod.get('name')
            if nm == 'hasRVV':
                return rvv
            if nm == 'getRVV_Length':
                return ln
            try:
                g = F.func(nod.get('q') or nm)
            except AnalysisBroken:
                return None
            body = g.get('body')
            if body and len(body.get('s', [])) == 1 and body['s'][0]['k'] == 'Return' and not g['params']:
                return ev(body['s'][0]['e'], rvv, ln)
        return None
    for f in F.in_file('aes_hash.cpp'):
        if not f.get('body'):
            continue
        kcalls = [c for c in calls(f['body']) if c.get('name') in needs and c.get('name', '').endswith('_RVV')]
        if not kcalls:
            continue
        R.saw(fn=f['q'])
        for p in _dec.paths(f['body']):
            for e_ in p.events:
                if isinstance(e_, tuple):
                    continue
                for c in calls(e_):
                    nm = c.get('name')
                    if nm not in needs or not nm.endswith('_RVV'):
                        continue
                    need, why, kline = needs[nm]
                    if not need:
                        raise AnalysisBroken('RVV-VLEN: no RVV intrinsic call with a vector length found in %s' % nm)
                    bad = []
                    for rvv in (0, 1):
                        for ln in lens:
                            feas = all(ev(c_, rvv, ln) in (None, int(t_)) or (t_ and ev(c_, rvv, ln) not in (0, None)) for c_, t_ in p.conds)
                            if feas and not (rvv == 1 and ln >= need):
                                bad.append('hasRVV=%d VLEN=%d' % (rvv, ln))
                    n += 1
                    R.check(not bad, '%s -> %s' % (f['q'], nm), loc(c, f), expected='called only with the V extension and VLEN >= %d (%s, src/aes_hash_rv64_vector.cpp:%d)' % (need, why, kline),
                            found='also reachable with ' + ', '.join(bad[:3]) if bad else 'guarded')
    if n < 4:
        raise AnalysisBroken('RVV-VLEN: only %d calls of RVV AES kernels found in aes_hash.cpp (expected 4: the software instance of each of the four functions)' % n)


# ---------------------------------------------------------------------------------------------------------------------------
# [RVV-JIT-VLEN] the vector JIT runtime is entered only with a vector length its vsetivli instructions can honour
def rule_rvv_jit_vlen(ctx, R):
    import rtasm
    R.rule('RVV-JIT-VLEN', 'JitCompilerRV64 hands out the vector program entry / the vector dataset-initialisation entry only when the CPU reports the V extension with a vector length of at least what the '
           'hand-written vector runtime asks for in that part (max over its vsetivli instructions of AVL x SEW / LMUL: with a shorter vector the hardware clamps vl and the upper lanes - dataset items, '
           'register halves - are never computed); the constructor condition and the two getters are evaluated for every vector length', min_instances=20)
    P = rtasm.Prog(ctx.obj('rvv'), 'rv')
    R.saw(unit='src/jit_compiler_rv64_vector_static.S', config='K3')

    def need(lo, hi, what):
        n, where = 0, None
        for a in P.order:
            if not (lo <= a < hi):
                continue
            i = P.ins[a]
            if i.mnem == 'vsetivli':
                avl = int(i.ops[1], 0)
                sew = int(i.ops[2][1:])
                lm = i.ops[3]
                lmul = {'m1': 1, 'm2': 2, 'm4': 4, 'm8': 8, 'mf2': 0.5, 'mf4': 0.25, 'mf8': 0.125}.get(lm)
                if lmul is None:
                    raise AnalysisBroken('RVV-JIT-VLEN: vsetivli with %s at %s' % (lm, P.name_at(a)))
                v = int(avl * sew / lmul)
                if v > n:
                    n, where = v, '%s: %s %s' % (P.name_at(a), i.mnem, ', '.join(i.ops[:4]))
            elif i.mnem in ('vsetvli', 'vsetvl'):
                raise AnalysisBroken('RVV-JIT-VLEN: %s with a run-time AVL at %s' % (i.mnem, P.name_at(a)))
        if not n:
            raise AnalysisBroken('RVV-JIT-VLEN: no vsetivli in the %s part of the runtime' % what)
        return n, where
    need_ds = need(P.sym('randomx_riscv64_vector_sshash_begin'), P.sym('randomx_riscv64_vector_sshash_end'), 'dataset initialisation')
    need_pg = need(P.sym('randomx_riscv64_vector_program_begin'), P.sym('randomx_riscv64_vector_program_end'), 'program')
    F = astq.Facts(ctx, 'K3')
    R.saw(config='K3', unit='src/jit_compiler_rv64.cpp')

    def ev(nod, rvv, ln, env):
        nod = strip_all(nod)
        while nod['k'] == 'Cast' or nod['k'] == 'Paren':
            nod = strip_all(nod['e'])
        v_ = val(nod)
        if v_ is not None:
            return v_
        if nod['k'] in ('Null', 'NullPtr'):
            return 0
        if nod['k'] == 'Mem' and nod.get('m') in env:
            return env[nod['m']]
        if nod['k'] == 'Ref' and nod.get('n') in env:
            return env[nod['n']]
        if nod['k'] == 'Bin':
            a_, b_ = ev(nod['l'], rvv, ln, env), ev(nod['r'], rvv, ln, env)
            op = nod['op']
            if op == '&&':
                return 0 if (a_ == 0 or b_ == 0) else (None if None in (a_, b_) else 1)
            if op == '||':
                return 1 if ((a_ not in (0, None)) or (b_ not in (0, None))) else (None if None in (a_, b_) else 0)
            if None in (a_, b_):
                return None
            f_ = {'>=': lambda: a_ >= b_, '>': lambda: a_ > b_, '<': lambda: a_ < b_, '<=': lambda: a_ <= b_, '==': lambda: a_ == b_, '!=': lambda: a_ != b_}.get(op)
            return None if f_ is None else int(f_())
        if nod['k'] == 'Un' and nod.get('op') == '!':
            a_ = ev(nod['e'], rvv, ln, env)
            return None if a_ is None else int(not a_)
        if nod['k'] == 'Call':
            nm = nod.get('name')
            if nm == 'hasRVV':
                return rvv
            if nm == 'getRVV_Length':
                return ln if rvv else 0
            if nm == 'allocMemoryPages':
                return 1
        return None
    ctors = [f for f in F.in_file('jit_compiler_rv64.cpp') if f['name'] == 'JitCompilerRV64' and f.get('body')]
    if len(ctors) != 1:
        raise AnalysisBroken('RVV-JIT-VLEN: constructor of JitCompilerRV64 not found')
    ctor = ctors[0]
    gate = [x for x in walk(ctor['body']) if x['k'] == 'If' and 'RVV' in show(x['c'])]
    if len(gate) != 1:
        raise AnalysisBroken('RVV-JIT-VLEN: expected one condition on the V extension in the constructor, found %d' % len(gate))
    gate = gate[0]
    assigns = {}
    for x in walk(gate['t']):
        if x['k'] == 'Assign':
            l = strip_all(x['l'])
            if l['k'] == 'Mem' and l.get('m') in ('vectorCode', 'vectorRegisterLength'):
                assigns.setdefault(l['m'], x['r'])
    if 'vectorCode' not in assigns:
        raise AnalysisBroken('RVV-JIT-VLEN: the constructor does not set vectorCode under its V-extension condition')
    getters = {}
    for nm, tag in (('getProgramFunc', 'program'), ('getDatasetInitFunc', 'dataset initialisation')):
        try:
            g = [F.func('randomx::JitCompilerRV64::' + nm)]
        except AnalysisBroken:
            raise AnalysisBroken('RVV-JIT-VLEN: %s not found' % nm)
        rets = [x for x in walk(g[0]['body']) if x['k'] == 'Return']
        conds = [x for x in walk(g[0]['body']) if x['k'] == 'Cond']
        if len(rets) != 1 or len(conds) != 1:
            raise AnalysisBroken('RVV-JIT-VLEN: %s is not a single conditional return' % nm)
        getters[nm] = (g[0], conds[0], tag)
        R.saw(fn=g[0]['q'])
    for rvv in (0, 1):
        for ln in (0, 64, 128, 256, 512, 1024, 65536):
            c = ev(gate['c'], rvv, ln, {})
            if c is None:
                raise AnalysisBroken('RVV-JIT-VLEN: constructor condition %s not decided for hasRVV=%d VLEN=%d' % (show(gate['c'])[:60], rvv, ln))
            env = {'vectorCode': 0, 'vectorRegisterLength': 0}
            if c:
                env['vectorCode'] = 1
                if 'vectorRegisterLength' in assigns:
                    env['vectorRegisterLength'] = ev(assigns['vectorRegisterLength'], rvv, ln, {})
            for nm, (g, cnd, tag) in getters.items():
                cv = ev(cnd['c'], rvv, ln, env)
                if cv is None:
                    raise AnalysisBroken('RVV-JIT-VLEN: %s: condition %s not decided' % (nm, show(cnd['c'])[:60]))
                chosen = cnd['t'] if cv else cnd['f']
                vec = 'Vector' in show(chosen)
                nd, why = need_ds if nm == 'getDatasetInitFunc' else need_pg
                inst = '%s hasRVV=%d VLEN=%d' % (nm, rvv, ln)
                if vec and not (rvv and ln >= nd):
                    R.violation(inst, '%s:%d' % (g['file'], g['line']), expected='the vector %s entry only with VLEN >= %d (%s)' % (tag, nd, why), found='returned with VLEN %d' % ln)
                else:
                    R.ok(inst, '%s:%d' % (g['file'], g['line']))
