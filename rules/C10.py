"""C10 The cache is the Argon2d memory fill and is identical across implementations."""
import astq
from rules import argon, blake, driver, spec
from rules.C14 import rule_globals, rule_globals_ast

LEVEL = 'other'
TECHNIQUE = 'sibling comparison of the three fill_segment implementations on normalised resolved ASTs, structural comparison of index_alpha / H0 / H\' with RFC 9106, parameter-table agreement with the specification, flag-to-implementation dispatch rules; fixed-width evaluation of index_alpha; truth tables of path conditions'
CLAIM = ('Decides statically: the Argon2 instance has exactly the parameters of spec Table 7.1.1; the implementation is chosen only by flag; the reference, SSSE3 and AVX2 segment fillers agree statement for statement on the '
         'block-addressing skeleton (offsets, pseudo-random source, reference lane/index, current block, overwrite-or-XOR decision - so a re-initialised cache carries no trace of the old one); index_alpha, the H0 absorption '
         'order and H\' have the RFC 9106 structure. Byte equality of the BlaMka compression in its three SIMD flavours is numeric and not claimed.'
         ' index_alpha is decided by fixed-width evaluation against the RFC 9106 mapping for the configured geometry and two reduced instances with non-power-of-two lane length (A2-INDEX); the overwrite-or-XOR decision as a truth table over (version, pass) (A2-XOR); Blake2b streaming as in C11 (B2-STREAM, B2-FINAL).'
         ' The fill is redone whenever the key differs in length or in any byte (BIND-KEY) and keeps no static state, so concurrent fills of different caches cannot mix (RACE-GLOBALS on the linked IR).')
LEVEL_NOTE = 'Trusted: clang AST of the build flags (SSSE3/AVX2 units are parsed with their -m flags); the BlaMka round functions (fill_block) of the three implementations; Blake2b (C11).'
EXPLANATION = ('SPEC-ARGON, A2-DISPATCH, A2-SKELETON, A2-XOR, A2-INDEX, A2-H0, A2-HPRIME. A2-INDEX (evaluated), A2-XOR (truth table), B2-STREAM, B2-FINAL.'
         ' BIND-KEY, RACE-GLOBALS.')

EXPLANATION += ' RACE-GLOBALS-AST.'


def run(ctx, R):
    F = astq.Facts(ctx, 'K0')
    R.saw(config='K0')
    spec.rule_argon(ctx, R, F)
    argon.rule_dispatch(ctx, R, F)
    argon.rule_skeleton(ctx, R, F)
    argon.rule_index(ctx, R, F)
    argon.rule_h0(ctx, R, F)
    argon.rule_long(ctx, R, F)
    blake.rule_update_final(ctx, R, F)
    driver.rule_bind_key(ctx, R, F)   # the fill is redone whenever the key differs in length or in any byte
    rule_globals(ctx, R)              # the fill keeps no static state: concurrent fills of different caches cannot mix
    rule_globals_ast(ctx, R)
