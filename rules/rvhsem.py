"""[RV-HSEM] translation validation of the RV64 (scalar back-end) integer register-form handlers by symbolic execution of the emitted code.

Same construction as A64-HSEM: the handler (and the emit helpers it calls) is executed in the known-bits domain for constant instruction fields, the 16- and
32-bit words it emits are decoded by the RV64IMC (+Zba/Zbb where the build enables them) encodings and applied to a register file of terms over r0..r7; the
eight VM registers must then hold the terms of specification 5.2 and the scratch registers may hold anything.  Rotations written as a shift pair
(srl / sll / or) are recognised as rotations when the two shift amounts add up to 0 mod 64."""
import astq
from astq import loc, show, strip_all, val
from core import AnalysisBroken
from domains import KB, KBEval, type_info
from rules import jit
from rules import a64hsem as T
from rules.a64hsem import Lin, M64, add, sub, mul, neg, scale, xor, const, atom, hi, ror, amount
import os as _os
from report import memoised

STRICT_FAMILY = bool(_os.environ.get('RXVERIF_STRICT_FAMILY'))

IMMS = T.IMMS
HANDLERS = T.HANDLERS


def sx(v, bits):
    v &= (1 << bits) - 1
    return v - (1 << bits) if v >> (bits - 1) else v


def single_atom(x):
    if x.c == 0 and len(x.t) == 1:
        (a, k), = x.t.items()
        if k == 1:
            return a
    return None


def lin_of(canon):
    return Lin(canon[0], dict(canon[1]))


def srl(x, n):
    n %= 64
    if n == 0:
        return x
    if x.is_const():
        return const(x.c >> n)
    return atom(('srl', x.canon(), n))


def sllv(x, y):
    y = amount(y)
    if y.is_const():
        return scale(x, 1 << (y.c % 64))
    return atom(('sllv', x.canon(), y.canon()))


def srlv(x, y):
    y = amount(y)
    if y.is_const():
        return srl(x, y.c % 64)
    return atom(('srlv', x.canon(), y.canon()))


def orr(x, y):
    """or with recognition of the two-shift rotation idiom"""
    if x == y:
        return x
    for a_, b_ in ((x, y), (y, x)):
        at = single_atom(a_)
        if at is not None and at[0] == 'srl':
            src = lin_of(at[1])
            if b_ == scale(src, 1 << (64 - at[2])):
                return ror(src, const(at[2]))
        if at is not None and at[0] == 'srlv':
            src = lin_of(at[1])
            bt = single_atom(b_)
            if bt is not None and bt[0] == 'sllv' and bt[1] == at[1]:
                if amount(add(lin_of(at[2]), lin_of(bt[2]))) == const(0):
                    return ror(src, lin_of(at[2]))
    return T.orr(x, y)


def andd(x, y):
    if x.is_const() and y.is_const():
        return const(x.c & y.c)
    return atom(('and',) + tuple(sorted((x.canon(), y.canon()), key=repr)))


class NotInteger(Exception):
    """the word is a load / store / floating-point / control-transfer instruction or a reserved encoding: never part of an integer register-form instruction"""


def classify16(w):
    q, f3 = w & 3, (w >> 13) & 7
    if w == 0:
        return 'the all-zero (illegal) half-word'
    if q == 0 and f3 != 0:
        return 'a compressed load / store'
    if q == 1 and f3 >= 5:
        return 'a compressed jump / branch'
    if q == 2 and f3 in (1, 2, 3, 5, 6, 7):
        return 'a compressed stack-pointer load / store'
    if q == 2 and f3 == 4 and ((w >> 2) & 31) == 0:
        return 'c.jr / c.jalr / c.ebreak'
    return None


def classify32(w):
    opc = w & 0x7f
    return {0x03: 'a load', 0x23: 'a store', 0x07: 'a floating-point load', 0x27: 'a floating-point store', 0x63: 'a branch', 0x6f: 'jal', 0x67: 'jalr', 0x53: 'a floating-point operation',
            0x43: 'a floating-point operation', 0x47: 'a floating-point operation', 0x4b: 'a floating-point operation', 0x4f: 'a floating-point operation', 0x73: 'a system instruction', 0x0f: 'a fence'}.get(opc)


class Machine:
    def __init__(self, regmap):
        self.x = {0: const(0)}
        for i, xr in enumerate(regmap):
            self.x[xr] = atom(('reg', i))

    def get(self, n):
        if n == 0:
            return const(0)
        return self.x.get(n, atom(('undef', n)))

    def put(self, n, v):
        if n != 0:
            self.x[n] = v

    def sext32(self, v, where):
        if v.is_const():
            return const(sx(v.c, 32))
        raise AnalysisBroken('RV-HSEM: 32-bit operation on a non-constant value at %s' % where)

    def step16(self, w, where):
        q, f3 = w & 3, (w >> 13) & 7
        rdf = (w >> 7) & 31
        rs2f = (w >> 2) & 31
        if q == 1:
            if f3 == 0:                                   # c.addi
                imm = sx((((w >> 12) & 1) << 5) | rs2f, 6)
                self.put(rdf, add(self.get(rdf), const(imm)))
                return 'c.addi'
            if f3 == 1:                                   # c.addiw
                imm = sx((((w >> 12) & 1) << 5) | rs2f, 6)
                self.put(rdf, self.sext32(add(self.get(rdf), const(imm)), where))
                return 'c.addiw'
            if f3 == 2:                                   # c.li
                self.put(rdf, const(sx((((w >> 12) & 1) << 5) | rs2f, 6)))
                return 'c.li'
            if f3 == 3 and rdf not in (0, 2):             # c.lui
                self.put(rdf, const(sx((((w >> 12) & 1) << 17) | (rs2f << 12), 18)))
                return 'c.lui'
            if f3 == 4:
                rdp = 8 + ((w >> 7) & 7)
                rs2p = 8 + ((w >> 2) & 7)
                sub2 = (w >> 10) & 3
                if sub2 == 0:                             # c.srli
                    sh = (((w >> 12) & 1) << 5) | rs2f
                    self.put(rdp, srl(self.get(rdp), sh))
                    return 'c.srli'
                if sub2 == 2:                             # c.andi
                    self.put(rdp, andd(self.get(rdp), const(sx((((w >> 12) & 1) << 5) | rs2f, 6))))
                    return 'c.andi'
                if sub2 == 3 and not (w >> 12) & 1:
                    op = (w >> 5) & 3
                    a, b = self.get(rdp), self.get(rs2p)
                    self.put(rdp, [sub, xor, orr, andd][op](a, b))
                    return ['c.sub', 'c.xor', 'c.or', 'c.and'][op]
        if q == 2:
            if f3 == 0:                                   # c.slli
                sh = (((w >> 12) & 1) << 5) | rs2f
                self.put(rdf, scale(self.get(rdf), 1 << sh))
                return 'c.slli'
            if f3 == 4:
                if (w >> 12) & 1:
                    if rs2f != 0 and rdf != 0:            # c.add
                        self.put(rdf, add(self.get(rdf), self.get(rs2f)))
                        return 'c.add'
                elif rs2f != 0:                           # c.mv
                    self.put(rdf, self.get(rs2f))
                    return 'c.mv'
        c = classify16(w)
        if c:
            raise NotInteger('%#06x is %s' % (w, c))
        raise AnalysisBroken('RV-HSEM: 16-bit word %#06x emitted at %s is outside the decoded subset' % (w, where))

    def step32(self, w, where):
        opc, rd, f3, rs1, rs2, f7 = w & 0x7f, (w >> 7) & 31, (w >> 12) & 7, (w >> 15) & 31, (w >> 20) & 31, w >> 25
        imm = sx(w >> 20, 12)
        if opc == 0x37:
            self.put(rd, const(sx(w & 0xfffff000, 32)))
            return 'lui'
        if opc == 0x13:
            a = self.get(rs1)
            if f3 == 0:
                self.put(rd, add(a, const(imm)))
                return 'addi'
            if f3 == 4:
                self.put(rd, xor(a, const(imm)))
                return 'xori'
            if f3 == 1 and (w >> 26) == 0:
                self.put(rd, scale(a, 1 << ((w >> 20) & 63)))
                return 'slli'
            if f3 == 5 and (w >> 26) == 0:
                self.put(rd, srl(a, (w >> 20) & 63))
                return 'srli'
            if f3 == 5 and (w >> 26) == 0x18:             # rori (Zbb)
                self.put(rd, ror(a, const((w >> 20) & 63)))
                return 'rori'
        if opc == 0x1b and f3 == 0:
            self.put(rd, self.sext32(add(self.get(rs1), const(imm)), where))
            return 'addiw'
        if opc == 0x33:
            a, b = self.get(rs1), self.get(rs2)
            key = (f7, f3)
            tbl = {
                (0, 0): ('add', lambda: add(a, b)), (0x20, 0): ('sub', lambda: sub(a, b)), (0, 4): ('xor', lambda: xor(a, b)), (0, 6): ('or', lambda: orr(a, b)), (0, 7): ('and', lambda: andd(a, b)),
                (0, 1): ('sll', lambda: sllv(a, b)), (0, 5): ('srl', lambda: srlv(a, b)),
                (1, 0): ('mul', lambda: mul(a, b)), (1, 1): ('mulh', lambda: hi('smulh', a, b)), (1, 3): ('mulhu', lambda: hi('umulh', a, b)),
                (0x10, 2): ('sh1add', lambda: add(scale(a, 2), b)), (0x10, 4): ('sh2add', lambda: add(scale(a, 4), b)), (0x10, 6): ('sh3add', lambda: add(scale(a, 8), b)),
                (0x30, 5): ('ror', lambda: ror(a, b)), (0x30, 1): ('rol', lambda: ror(a, neg(b))),
            }
            if key in tbl:
                self.put(rd, tbl[key][1]())
                return tbl[key][0]
        c = classify32(w)
        if c:
            raise NotInteger('%#010x is %s' % (w, c))
        raise AnalysisBroken('RV-HSEM: word %#010x emitted at %s is outside the decoded subset' % (w, where))


# extra atoms for evaluation on valuations
_base_atom_eval = T.atom_eval


def atom_eval(a, regs):
    k = a[0]
    if k == 'srl':
        return T.term_eval(a[1], regs) >> a[2]
    if k == 'sllv':
        return (T.term_eval(a[1], regs) << (T.term_eval(a[2], regs) % 64)) & M64
    if k == 'srlv':
        return T.term_eval(a[1], regs) >> (T.term_eval(a[2], regs) % 64)
    if k == 'and':
        return T.term_eval(a[1], regs) & T.term_eval(a[2], regs)
    return _base_atom_eval(a, regs)


T.atom_eval = atom_eval


class RvExec:
    """known-bits execution of a handler and of the emit helpers it calls; every branch must be decided by the constant instruction fields"""

    def __init__(self, F, fields, overrides):
        self.F = F
        self.fields = fields        # {'dst': KB, 'src': KB, 'mod': KB}
        self.overrides = overrides
        self.words = []             # (size, KB, where)

    def env_for(self, f, args):
        env = {}
        for p, a in zip(f['params'], args):
            ty = p.get('ty') or ''
            if 'Instruction' in ty:
                for fld, kb in self.fields.items():
                    env['%s.%s' % (p['name'], fld)] = kb
            elif a is not None:
                env[p['id']] = a
        return env

    def run(self, f, args, depth=0):
        if depth > 4:
            raise AnalysisBroken('RV-HSEM: helper recursion')
        env = self.env_for(f, args)
        for x in astq.walk(f['body']):
            if x['k'] == 'Decl':
                for d_ in x['d']:
                    if 'Instruction' in (d_.get('ty') or '') and '*' not in (d_.get('ty') or ''):
                        for fld, kb in self.fields.items():
                            env['%s.%s' % (d_['name'], fld)] = kb
        env.update(getattr(self, 'env_keys', {}))
        ev = KBEval(self.F, env, 0, self.overrides)
        self._stmt(f, f['body'], ev, depth)

    def _stmt(self, f, s, ev, depth):
        if s is None:
            return
        k = s['k']
        if k == 'Compound':
            ss = s['s']
            if False:
                pass
            if len(ss) >= 2 and ss[0]['k'] == 'Decl' and len(ss[0]['d']) == 1 and ss[0]['d'][0].get('init') is not None:
                t2 = strip_all(ss[1])
                if t2['k'] == 'Call' and t2.get('name') == 'memcpy' and len(t2['a']) == 3 and val(t2['a'][2]) in (2, 4):
                    src_ = strip_all(t2['a'][1])
                    while src_['k'] == 'Cast':
                        src_ = strip_all(src_['e'])
                    if src_['k'] == 'Un' and src_.get('op') == '&' and strip_all(src_['e']).get('id') == ss[0]['d'][0]['id']:
                        w = ev.ev(ss[0]['d'][0]['init'])
                        n_ = val(t2['a'][2])
                        self.words.append((n_, w.resize(8 * n_, False), loc(s, f)))
                        return
            for x in ss:
                r_ = self._stmt(f, x, ev, depth)
                if r_:
                    return r_
            return
        if k == 'If':
            c = val(s['c'])
            if c is None:
                c = ev.ev(s['c']).value()
            if c is None:
                raise AnalysisBroken('RV-HSEM: condition %s at %s is not decided by the instruction fields' % (show(s['c'])[:60], loc(s, f)))
            return self._stmt(f, s['t'] if c else s.get('e'), ev, depth)
        if k == 'Return':
            return True
        if k == 'Break':
            return 'break'
        if k == 'Switch':
            cn = strip_all(s['c'])
            while cn['k'] == 'Cast' and type_info(cn.get('ty')) is None:
                cn = strip_all(cn['e'])
            c = ev.ev(cn).value()
            if c is None:
                raise AnalysisBroken('RV-HSEM: switch on %s at %s is not decided by the instruction fields' % (show(s['c'])[:60], loc(s, f)))
            stmts = s['b']['s'] if s['b']['k'] == 'Compound' else [s['b']]

            def labels(st):
                out = []
                while st['k'] in ('Case', 'Default'):
                    out.append(st)
                    st = st['sub']
                return out
            matched = any(val(x_['lhs']) == c for st in stmts for x_ in labels(st) if x_['k'] == 'Case')
            active = False
            for st in stmts:
                x_ = st
                for lab in labels(st):
                    if (lab['k'] == 'Case' and val(lab['lhs']) == c) or (lab['k'] == 'Default' and not matched):
                        active = True
                while x_['k'] in ('Case', 'Default'):
                    x_ = x_['sub']
                if active:
                    r_ = self._stmt(f, x_, ev, depth)
                    if r_ == 'break':
                        return
                    if r_:
                        return r_
            return
        if k in ('Decl', 'Null'):
            ev._exec(s, [])
            return
        top = strip_all(s)
        if top['k'] == 'Call':
            nm = top.get('name')
            if nm == 'emit' and 'CodeBuffer' in (top.get('cls') or top.get('fn') or ''):
                a = top['a'][0]
                ti = type_info(a.get('ty'))
                if len(top['a']) != 1 or ti is None:
                    raise AnalysisBroken('RV-HSEM: emit of a block at %s' % loc(top, f))
                w = ev.ev(a)
                self.words.append((ti[0] // 8, w, loc(top, f)))
                return
            if nm == 'memcpy' and len(top.get('a', [])) == 3 and val(top['a'][2]) in (2, 4):
                src_ = strip_all(top['a'][1])
                while src_['k'] == 'Cast':
                    src_ = strip_all(src_['e'])
                if src_['k'] == 'Un' and src_.get('op') == '&' and strip_all(src_['e'])['k'] == 'Ref' and strip_all(src_['e']).get('id') in ev.env:
                    n_ = val(top['a'][2])
                    self.words.append((n_, ev.env[strip_all(src_['e'])['id']].resize(8 * n_, False), loc(top, f)))
                    return
            if nm == 'memcpy' and getattr(self, 'ignore_memcpy', False):
                return
            fn_ = top.get('fn')
            if fn_ and self.F.has_func(fn_):
                g = self.F.func(fn_)
                if g.get('body') is not None and g['params'] and (any(t in (g['params'][0].get('ty') or '') for t in ('CodeBuffer', 'CompilerState')) or (g['file'] == f['file'] and (g.get('ret') or 'void') == 'void')):
                    args = []
                    for prm, a in zip(g['params'], top['a']):
                        args.append(ev.ev(a) if type_info(prm.get('ty')) is not None else None)
                    sub_ = RvExec(self.F, self.fields, self.overrides)
                    sub_.run(g, args, depth + 1)
                    self.words += sub_.words
                    return
            raise AnalysisBroken('RV-HSEM: unexpected call %s at %s' % (show(top)[:60], loc(top, f)))
        if top['k'] in ('Assign', 'CAssign'):
            ev._exec(top, [])
            return
        if top['k'] == 'Un':
            return
        if not any(c.get('name') not in ('__assert_fail', '__builtin_expect') for c in astq.calls(top)):
            return      # assert(...) and other effect-free expression statements
        raise AnalysisBroken('RV-HSEM: unsupported statement %s at %s' % (show(top)[:60], loc(s, f)))


@memoised('RV-HSEM')
def rule_hsem(ctx, R, arch='rv64'):
    if STRICT_FAMILY:
        R.note('rule_hsem skipped: RXVERIF_STRICT_FAMILY=1 (emitted-code / executor evaluation on terms switched off, see DESIGN.md 9.2)')
        return
    F, hs = jit.handlers(ctx, arch)
    R.rule('RV-HSEM', 'for the ten integer register-form instructions the 16- / 32-bit words the RV64 handler and its emit helpers produce, given their architectural meaning on a register file of terms over r0..r7, leave in the eight VM '
           'registers exactly the terms of specification 5.2 (sign-extended immediate when src == dst, shift, displacement for r5, rotation counts mod 64); for every dst x src, every shift, 16 boundary immediates (rotation: all 64 counts)', min_instances=2500)
    R.saw(config='K3', unit=jit.ARCH[arch]['unit'])
    if arch == 'rvv':
        # the vector back-end keeps r0..r7 in x20..x27 (fixed by its template; every case adds 20 to the register number inside the opcode constants)
        regmap = list(range(20, 28))
    else:
        # VM register -> x register: evaluate regR(i)
        regR = [f for f in F.in_file('jit_compiler_rv64.cpp') if f['name'] == 'regR']
        if len(regR) != 1:
            raise AnalysisBroken('RV-HSEM: regR not found')
        regmap = []
        for i in range(8):
            ev = KBEval(F, {regR[0]['params'][0]['id']: KB.const(32, i)})
            rets = []
            ev._exec(regR[0]['body'], rets)
            v = rets[0].value() if rets else None
            if v is None:
                raise AnalysisBroken('RV-HSEM: regR(%d) is not a constant' % i)
            regmap.append(v)
        if len(set(regmap)) != 8:
            raise AnalysisBroken('RV-HSEM: regR is not injective')
    n = 0
    for name in HANDLERS:
        if name not in hs:
            raise AnalysisBroken('RV-HSEM: handler of %s not found' % name)
        h = hs[name].f
        where = '%s:%d' % (h['file'], h['line'])
        R.saw(fn=h['q'])
        shifts = (0, 1, 2, 3) if name == 'IADD_RS' else (0,)
        if name in ('IROR_R', 'IROL_R'):
            imms = tuple(range(64)) + (0xFFFFFFC0, 0x80000040, 0xFFFFFFFF, 0x7FFFFFC1)
        elif name in ('ISUB_R', 'IMUL_R', 'IXOR_R', 'IADD_RS'):
            imms = IMMS
        else:
            imms = (0x12345678,)
        for d in range(8):
            for s in range(8):
                for sh in shifts:
                    uses_imm = (s == d and name in ('ISUB_R', 'IMUL_R', 'IXOR_R', 'IROR_R', 'IROL_R')) or (name == 'IADD_RS' and d == 5)
                    for imm in (imms if uses_imm else imms[:1]):
                        n += 1
                        fields = {'dst': KB.const(8, d), 'src': KB.const(8, s), 'mod': KB.const(8, sh << 2)}
                        ov = {'randomx::Instruction::getImm32': KB.const(32, imm), 'randomx::Instruction::getModShift': KB.const(32, sh),
                              'randomx::Instruction::getModMem': KB.const(32, 0), 'randomx::Instruction::getModCond': KB.const(32, 0)}
                        ex = RvExec(F, fields, ov)
                        args = [None, None, KB.const(32, 7), KB.const(32, 0)]
                        ex.run(h, args)
                        m = Machine(regmap)
                        tr = []
                        bad = None
                        for size, w, wh in ex.words:
                            v = w.value()
                            if v is None:
                                raise AnalysisBroken('RV-HSEM: a word emitted at %s is not constant for constant instruction fields (%s)' % (wh, w.hexpat()))
                            try:
                                tr.append(m.step16(v, wh) if size == 2 else m.step32(v, wh))
                            except NotInteger as e:
                                bad = 'after `%s` the handler emits %s (%s)' % (' ; '.join(tr), e, wh)
                                break
                        got = [m.get(regmap[i]) for i in range(8)]
                        exp = T.expected(name, d, s, sh, imm, None)
                        for i in (range(8) if bad is None else ()):
                            if got[i] != exp[i]:
                                differs = None
                                for vals in T.VALUATIONS:
                                    a_, b_ = T.term_eval(got[i].canon(), vals), T.term_eval(exp[i].canon(), vals)
                                    if a_ != b_:
                                        differs = (vals, a_, b_)
                                        break
                                if differs is None:
                                    raise AnalysisBroken('RV-HSEM: %s dst=r%d src=r%d: r%d is %s, the specification says %s; the two terms agree on every test valuation, equivalence undecided'
                                                         % (name, d, s, i, T.term_show(got[i], None), T.term_show(exp[i], None)))
                                bad = 'r%d = %s after `%s` (specification: %s); e.g. with r%d = %#x%s the code gives %#x, the specification %#x' % (
                                    i, T.term_show(got[i], None), ' ; '.join(tr), T.term_show(exp[i], None), d, differs[0][d], '' if s == d else ', r%d = %#x' % (s, differs[0][s]), differs[1], differs[2])
                                break
                        inst = ('rvv ' if arch == 'rvv' else '') + '%s dst=r%d src=r%d%s%s' % (name, d, s, ' shift=%d' % sh if name == 'IADD_RS' else '', ' imm32=%#x' % imm if uses_imm else '')
                        if bad:
                            R.violation(inst, where, expected='registers as in specification 5.2', found=bad)
                        else:
                            R.ok(inst, where)
    if n < 2500:
        raise AnalysisBroken('RV-HSEM: only %d cases evaluated' % n)


@memoised('RV-SS-HSEM')
def rule_ss_hsem(ctx, R):
    if STRICT_FAMILY:
        R.note('rule_ss_hsem skipped: RXVERIF_STRICT_FAMILY=1 (emitted-code / executor evaluation on terms switched off, see DESIGN.md 9.2)')
        return
    """SuperscalarHash emitter of the scalar RV64 back-end (IMUL_RCP is excluded: its multiplier comes from the literal pool, see RV-RCPPOOL)"""
    from rules import x86hsem as X
    F, hs = jit.handlers(ctx, 'rv64')
    R.rule('RV-SS-HSEM', 'for each SuperscalarHash instruction kind except IMUL_RCP the words generateSuperscalarCode of the RV64 back-end emits, given their architectural meaning on terms over r0..r7, compute what specification '
           'Table 6.1.1 prescribes and change no other VM register; every dst x src the generator can produce, boundary constants', min_instances=500)
    R.saw(config='K3', unit='src/jit_compiler_rv64.cpp')
    gs = [f for f in F.in_file('jit_compiler_rv64.cpp') if f['name'] == 'generateSuperscalarCode']
    if len(gs) != 1:
        raise AnalysisBroken('RV-SS-HSEM: generateSuperscalarCode not found')
    g = gs[0]
    R.saw(fn=g['q'])
    regSS = [f for f in F.in_file('jit_compiler_rv64.cpp') if f['name'] == 'regSS']
    if len(regSS) != 1:
        raise AnalysisBroken('RV-SS-HSEM: regSS not found')
    regmap = []
    for i in range(8):
        ev = KBEval(F, {regSS[0]['params'][0]['id']: KB.const(32, i)})
        rets = []
        ev._exec(regSS[0]['body'], rets)
        v = rets[0].value() if rets else None
        if v is None:
            raise AnalysisBroken('RV-SS-HSEM: regSS(%d) is not a constant' % i)
        regmap.append(v)
    if len(set(regmap)) != 8:
        raise AnalysisBroken('RV-SS-HSEM: regSS is not injective')
    types = {k: v for k, v in F.enum('randomx::SuperscalarInstructionType').items() if k not in ('COUNT', 'INVALID')}
    where = '%s:%d' % (g['file'], g['line'])
    n = 0
    for name, d, s, sh, imm in X.ss_cases(types):
        if name == 'IMUL_RCP':
            continue
        n += 1
        fields = {'dst': KB.const(8, d), 'src': KB.const(8, s), 'mod': KB.const(8, sh << 2), 'opcode': KB.const(8, types[name])}
        ov = {'randomx::Instruction::getImm32': KB.const(32, imm), 'randomx::Instruction::getModShift': KB.const(32, sh)}
        ex = RvExec(F, fields, ov)
        ex.run(g, [None, None, None])
        m = Machine(regmap)
        tr, bad = [], None
        if not ex.words:
            bad = 'nothing is emitted'
        for size, w, wh in ex.words:
            v = w.value()
            if v is None:
                raise AnalysisBroken('RV-SS-HSEM: a word emitted at %s is not constant (%s)' % (wh, w.hexpat()))
            try:
                tr.append(m.step16(v, wh) if size == 2 else m.step32(v, wh))
            except NotInteger as e:
                bad = 'after `%s` the emitter produces %s (%s)' % (' ; '.join(tr), e, wh)
                break
        if bad is None:
            got = [m.get(regmap[i]) for i in range(8)]
            exp = X.ss_expected(name, d, s, sh, imm)
            for i in range(8):
                if got[i] != exp[i]:
                    differs = None
                    for vals in T.VALUATIONS:
                        a_, b_ = T.term_eval(got[i].canon(), vals), T.term_eval(exp[i].canon(), vals)
                        if a_ != b_:
                            differs = (vals, a_, b_)
                            break
                    if differs is None:
                        raise AnalysisBroken('RV-SS-HSEM: %s dst=r%d src=r%d: r%d is %s, the specification says %s; equivalence undecided' % (name, d, s, i, T.term_show(got[i], None), T.term_show(exp[i], None)))
                    bad = 'r%d = %s after `%s` (specification: %s); e.g. the code gives %#x, the specification %#x' % (i, T.term_show(got[i], None), ' ; '.join(tr), T.term_show(exp[i], None), differs[1], differs[2])
                    break
        inst = 'superscalar %s dst=r%d src=r%d%s imm32=%#x' % (name, d, s, ' shift=%d' % sh if name == 'IADD_RS' else '', imm)
        if bad:
            R.violation(inst, where, expected='registers as in specification Table 6.1.1', found=bad)
        else:
            R.ok(inst, where)
    if n < 500:
        raise AnalysisBroken('RV-SS-HSEM: only %d cases evaluated' % n)


# ---------------------------------------------------------------------------------------------------------------------------
# memory-form integer instructions and ISTORE (scalar back-end)

class MemMachine(Machine):
    """x5 = scratchpad base; x10 / x11 / x1 hold the L1 / L2 / L3 masks (that the template loads exactly these values is MEM-JITMASK's obligation)"""

    def __init__(self, regmap, K, regs):
        Machine.__init__(self, regmap)
        self.x[regs['spad']] = atom(('spad',))
        self.x[regs['L1']] = const(K['L1'])
        self.x[regs['L2']] = const(K['L2'])
        self.x[regs['L3']] = const(K['L3'])
        self.stores = []

    def step16(self, w, where):
        from rules import x86hsem as X
        q, f3 = w & 3, (w >> 13) & 7
        if q == 0 and f3 in (3, 7):                      # c.ld / c.sd
            r1 = 8 + ((w >> 7) & 7)
            r2 = 8 + ((w >> 2) & 7)
            off = (((w >> 10) & 7) << 3) | (((w >> 5) & 3) << 6)
            a = add(self.get(r1), const(off))
            if f3 == 3:
                self.put(r2, X.ld64(a))
                return 'c.ld'
            self.stores.append((a, self.get(r2)))
            return 'c.sd'
        if q == 1 and f3 == 4 and ((w >> 10) & 3) == 3 and not (w >> 12) & 1 and ((w >> 5) & 3) == 3:      # c.and
            rdp, rs2p = 8 + ((w >> 7) & 7), 8 + ((w >> 2) & 7)
            self.put(rdp, X.and_(self.get(rdp), self.get(rs2p)))
            return 'c.and'
        return Machine.step16(self, w, where)

    def step32(self, w, where):
        from rules import x86hsem as X
        opc, rd, f3, rs1, rs2, f7 = w & 0x7f, (w >> 7) & 31, (w >> 12) & 7, (w >> 15) & 31, (w >> 20) & 31, w >> 25
        if opc == 0x03 and f3 == 3:
            self.put(rd, X.ld64(add(self.get(rs1), const(sx(w >> 20, 12)))))
            return 'ld'
        if opc == 0x23 and f3 == 3:
            off = sx(((w >> 25) << 5) | ((w >> 7) & 31), 12)
            self.stores.append((add(self.get(rs1), const(off)), self.get(rs2)))
            return 'sd'
        if opc == 0x33 and f7 == 0 and f3 == 7:
            self.put(rd, X.and_(self.get(rs1), self.get(rs2)))
            return 'and'
        if opc == 0x13 and f3 == 7:
            self.put(rd, X.and_(self.get(rs1), const(sx(w >> 20, 12))))
            return 'andi'
        return Machine.step32(self, w, where)


@memoised('RV-MEM-HSEM')
def rule_mem_hsem(ctx, R, arch='rv64'):
    if STRICT_FAMILY:
        R.note('rule_mem_hsem skipped: RXVERIF_STRICT_FAMILY=1 (emitted-code / executor evaluation on terms switched off, see DESIGN.md 9.2)')
        return
    from rules import x86hsem as X
    F, hs = jit.handlers(ctx, arch)
    R.rule('RV-MEM-HSEM', 'for the six memory-form integer instructions and ISTORE the words the RV64 handler and its address helpers emit, given their architectural meaning on terms with x5 as the scratchpad base and the mask registers holding the '
           'L1 / L2 / L3 masks, read (write) the 8 bytes at scratchpad + ((src + sext(imm32)) & mask) with the mask chosen by mod.mem (ISTORE: L3 when mod.cond >= StoreL3Condition; src == dst: the constant address imm32 & L3 mask) and combine them '
           'with dst as specification 5.2 prescribes; every dst x src, mod.mem in {0, 1, 3}, boundary immediates', min_instances=2500)
    R.saw(config='K3', unit=jit.ARCH[arch]['unit'])
    FI = astq.Facts(ctx, 'K0')
    K = {'L1': FI.const('randomx::ScratchpadL1Mask'), 'L2': FI.const('randomx::ScratchpadL2Mask'), 'L3': FI.const('randomx::ScratchpadL3Mask'), 'StoreL3Condition': FI.const('randomx::StoreL3Condition')}
    if arch == 'rvv':
        # register assignment of the vector back-end's template (documented at its top: x12 scratchpad, x16 / x17 L1 / L2 masks, x1 L3 mask; r0-r7 in x20-x27)
        regs = {'spad': 12, 'L1': 16, 'L2': 17, 'L3': 1}
        regmap = list(range(20, 28))
    else:
        regs = {'spad': F.const('randomx::SpadReg'), 'L1': F.const('randomx::MaskL1Reg'), 'L2': F.const('randomx::MaskL2Reg'), 'L3': F.const('randomx::MaskL3Reg')}
        regR = [f for f in F.in_file('jit_compiler_rv64.cpp') if f['name'] == 'regR']
        regmap = []
        for i in range(8):
            ev = KBEval(F, {regR[0]['params'][0]['id']: KB.const(32, i)})
            rets = []
            ev._exec(regR[0]['body'], rets)
            regmap.append(rets[0].value())
    if None in K.values() or None in regs.values():
        raise AnalysisBroken('RV-MEM-HSEM: mask constants / registers not found (%s %s)' % (K, regs))
    n = 0
    for name in X.MEM_HANDLERS:
        if name not in hs:
            raise AnalysisBroken('RV-MEM-HSEM: handler of %s not found' % name)
        h = hs[name].f
        where = '%s:%d' % (h['file'], h['line'])
        R.saw(fn=h['q'])
        for d in range(8):
            for s in range(8):
                for modmem in (0, 1, 3):
                    for modcond in ((0, 13, 14, 15) if name == 'ISTORE' else (0,)):
                        imms = (X.MEM_IMMS_CONST if (modmem == 0 and (d % 3 == 0 or getattr(ctx, 'tier', 'quick') == 'thorough')) else X.MEM_IMMS[:3]) if (s == d and name != 'ISTORE') else (X.MEM_IMMS if (d + s + modmem) % (3 if getattr(ctx, 'tier', 'quick') == 'thorough' else 7) == 0 else X.MEM_IMMS[5:7])
                        for imm in imms:
                            n += 1
                            mod = modmem | (modcond << 4)
                            fields = {'dst': KB.const(8, d), 'src': KB.const(8, s), 'mod': KB.const(8, mod)}
                            ov = {'randomx::Instruction::getImm32': KB.const(32, imm), 'randomx::Instruction::getModShift': KB.const(32, (mod >> 2) & 3),
                                  'randomx::Instruction::getModMem': KB.const(32, modmem), 'randomx::Instruction::getModCond': KB.const(32, modcond)}
                            ex = RvExec(F, fields, ov)
                            ex.run(h, [None, None, KB.const(32, 7), KB.const(32, 0)] if arch == 'rv64' else [])
                            m = MemMachine(regmap, K, regs)
                            tr, bad = [], None
                            for size, w, wh in ex.words:
                                v = w.value()
                                if v is None:
                                    raise AnalysisBroken('RV-MEM-HSEM: a word emitted at %s is not constant (%s)' % (wh, w.hexpat()))
                                try:
                                    tr.append(m.step16(v, wh) if size == 2 else m.step32(v, wh))
                                except NotInteger as e:
                                    bad = 'after `%s` the handler emits %s (%s)' % (' ; '.join(tr), e, wh)
                                    break
                            if bad is None:
                                exp, exp_st = X.mem_expected(name, d, s, imm, modmem, modcond, K)
                                got = [m.get(regmap[i]) for i in range(8)]
                                pairs = [('r%d' % i, got[i], exp[i]) for i in range(8)]
                                if len(m.stores) != len(exp_st):
                                    bad = '%d store(s) after `%s`, the specification has %d' % (len(m.stores), ' ; '.join(tr), len(exp_st))
                                else:
                                    for (ga, gv), (ea, ev_) in zip(m.stores, exp_st):
                                        pairs.append(('store address', ga, ea))
                                        pairs.append(('stored value', gv, ev_))
                                for what, g_, e_ in (pairs if bad is None else ()):
                                    if g_ != e_:
                                        differs = None
                                        for vals in T.VALUATIONS:
                                            a_, b_ = T.term_eval(g_.canon(), vals), T.term_eval(e_.canon(), vals)
                                            if a_ != b_:
                                                differs = (vals, a_, b_)
                                                break
                                        if differs is None:
                                            raise AnalysisBroken('RV-MEM-HSEM: %s dst=r%d src=r%d: %s is %s, the specification says %s; equivalence undecided' % (name, d, s, what, T.term_show(g_, None), T.term_show(e_, None)))
                                        bad = '%s = %s after `%s` (specification: %s); e.g. the code gives %#x, the specification %#x' % (what, T.term_show(g_, None), ' ; '.join(tr), T.term_show(e_, None), differs[1], differs[2])
                                        break
                            inst = ('rvv ' if arch == 'rvv' else '') + '%s dst=r%d src=r%d mod.mem=%d%s imm32=%#x' % (name, d, s, modmem, ' mod.cond=%d' % modcond if name == 'ISTORE' else '', imm)
                            if bad:
                                R.violation(inst, where, expected='as in specification 5.2 (address = (src + sext(imm32)) & mask)', found=bad)
                            else:
                                R.ok(inst, where)
    if n < 2500:
        raise AnalysisBroken('RV-MEM-HSEM: only %d cases evaluated' % n)


# ---------------------------------------------------------------------------------------------------------------------------
# light mode: the dataset offset of the program patched into the template

def _exec_prefix(F, f, env, until):
    """known-bits execution of the top-level declarations / assignments of f that precede statement `until` (unsupported statements are skipped: only integer
    locals that depend on the given parameters matter)"""
    ev = KBEval(F, dict(env))
    for s in f['body']['s']:
        if s is until:
            break
        top = strip_all(s)
        try:
            if s['k'] == 'Decl' or top['k'] in ('Assign', 'CAssign'):
                ev._exec(s if s['k'] == 'Decl' else top, [])
        except AnalysisBroken:
            pass
    return ev


@memoised('RV-DSOFF')
def rule_dsoff(ctx, R):
    if STRICT_FAMILY:
        R.note('rule_dsoff skipped: RXVERIF_STRICT_FAMILY=1')
        return
    F, hs = jit.handlers(ctx, 'rv64')
    R.rule('RV-DSOFF', 'generateProgramLight (RV64): the `lui` / `addi` pair patched into the template leaves datasetOffset / 64 in the register, for every value of the low 12 bits and a low, middle and the highest upper part '
           '(the item offset has 19 bits); decided by known-bits evaluation of the split and the architectural meaning of lui (sign-extended 32-bit) and addi (sign-extended 12-bit immediate)', min_instances=4096)
    R.saw(config='K3', unit='src/jit_compiler_rv64.cpp')
    f = F.func('randomx::JitCompilerRV64::generateProgramLight')
    R.saw(fn=f['q'])
    where = '%s:%d' % (f['file'], f['line'])
    off_p = [p for p in f['params'] if 'int' in (p.get('ty') or '') and p['name'] != 'flags' and '&' not in (p.get('ty') or '')]
    if len(off_p) != 1:
        raise AnalysisBroken('RV-DSOFF: the dataset offset parameter of generateProgramLight was not identified')
    off_p = off_p[0]
    cls = FI_const(ctx, 'randomx::CacheLineSize')
    # the two patch statements: emitAt(..., word) whose word is a lui / an addi
    sites = []
    for s in f['body']['s']:
        top = strip_all(s)
        if top['k'] == 'Call' and top.get('name') == 'emitAt' and len(top.get('a', [])) == 2:
            sites.append((s, top))
    n = 0
    bad = None
    for low in range(4096):
        for up in ((0, 1, 0x3F, 0x7F) if (low % 64 == 0 or low in (0x7FF, 0x801, 0xFFF)) else (0, 0x7F)):
            item = (up << 12) | low
            env = {off_p['id']: KB.const(32, item * cls)}
            words = []
            ev = _exec_prefix(F, f, env, sites[-1][0]) if sites else None
            for s, top in sites:
                try:
                    w = ev.ev(top['a'][1])
                except AnalysisBroken:
                    continue
                if w.value() is not None and w.w <= 32:
                    words.append(w.value())
            regs = {}
            got = None
            for w in words:
                opc, rd, f3, rs1 = w & 0x7f, (w >> 7) & 31, (w >> 12) & 7, (w >> 15) & 31
                if opc == 0x37:
                    regs[rd] = sx(w & 0xfffff000, 32)
                elif opc == 0x13 and f3 == 0 and rs1 in regs and rd == rs1:
                    regs[rd] = regs[rs1] + sx(w >> 20, 12)
                    got = regs[rd]
            n += 1
            if got is None:
                raise AnalysisBroken('RV-DSOFF: the lui / addi pair was not found among the constant words patched by generateProgramLight')
            if (got & M64) != item and bad is None:
                bad = 'datasetOffset / 64 = %#x: the patched pair loads %#x' % (item, got & M64)
    R.check(bad is None, 'lui / addi pair for the dataset offset', where, expected='register = datasetOffset / 64 for all %d sampled offsets' % n, found=bad or 'exact')
    for _ in range(0):
        pass
    # instance floor: one obligation per sampled offset would flood the evidence; record the count
    R.rules['RV-DSOFF']['min'] = 1
    R.extra['rv_dsoff_samples'] = n


def FI_const(ctx, q):
    F0 = astq.Facts(ctx, 'K0')
    v = F0.const(q)
    if v is None:
        raise AnalysisBroken('constant %s not found' % q)
    return v


# ---------------------------------------------------------------------------------------------------------------------------
# RVV dataset-init generator: SuperscalarHash instructions as vector operations on v0..v7

class VMachine(Machine):
    """v0..v7 hold r0..r7 (one 64-bit element per item, the same term in every lane); x registers as in Machine"""

    def __init__(self):
        Machine.__init__(self, [])
        self.v = {i: atom(('reg', i)) for i in range(8)}
        self.x[15] = atom(('litptr',))

    def vget(self, n):
        return self.v.get(n, atom(('undef', 100 + n)))

    def step32(self, w, where):
        from rules import x86hsem as X
        opc = w & 0x7f
        if opc == 0x57:
            f3, f6, vm = (w >> 12) & 7, w >> 26, (w >> 25) & 1
            vd, vs1, vs2 = (w >> 7) & 31, (w >> 15) & 31, (w >> 20) & 31
            if not vm:
                raise NotInteger('%#010x is a masked vector operation' % w)
            a = self.vget(vs2)
            if f3 in (0, 2):
                b = self.vget(vs1)
            elif f3 in (4, 6):
                b = self.get(vs1)
            elif f3 == 3:
                b = const(vs1) if f6 in (0x25, 0x28, 0x29, 0x14, 0x15) else const(sx(vs1, 5))
            else:
                raise AnalysisBroken('RVV-SS-HSEM: vector word %#010x at %s is outside the decoded subset' % (w, where))
            opi = {0x00: ('vadd', add), 0x02: ('vsub', sub), 0x0B: ('vxor', xor), 0x0A: ('vor', orr), 0x09: ('vand', andd), 0x25: ('vsll', sllv), 0x28: ('vsrl', srlv), 0x14: ('vror', ror)}
            opm = {0x25: ('vmul', mul), 0x27: ('vmulh', lambda p, q: hi('smulh', p, q)), 0x24: ('vmulhu', lambda p, q: hi('umulh', p, q))}
            tab = opi if f3 in (0, 3, 4) else opm
            if f6 not in tab:
                raise AnalysisBroken('RVV-SS-HSEM: vector word %#010x at %s is outside the decoded subset' % (w, where))
            if f6 == 0x14 and f3 == 3:
                b = const(vs1 | (((w >> 26) & 1) << 5))
            nm, fn = tab[f6]
            self.v[vd] = fn(a, b)
            return '%s.%s v%d' % (nm, {0: 'vv', 2: 'vv', 3: 'vi', 4: 'vx', 6: 'vx'}[f3], vd)
        if opc == 0x03 and ((w >> 12) & 7) == 3:
            rd, rs1 = (w >> 7) & 31, (w >> 15) & 31
            self.put(rd, X.ld64(add(self.get(rs1), const(sx(w >> 20, 12)))))
            return 'ld'
        return Machine.step32(self, w, where)


@memoised('RVV-SS-HSEM')
def rule_rvv_ss_hsem(ctx, R):
    if STRICT_FAMILY:
        R.note('rule_rvv_ss_hsem skipped: RXVERIF_STRICT_FAMILY=1')
        return
    from rules import x86hsem as X
    F, hs = jit.handlers(ctx, 'rvv')
    R.rule('RVV-SS-HSEM', 'for each SuperscalarHash instruction kind except IMUL_RCP the words generateDatasetInitVectorRV64 emits, given the meaning of the RVV arithmetic instructions on v0..v7 (one term per register, the same in every lane) '
           'and of the scalar helpers (li / lui / addiw), compute what specification Table 6.1.1 prescribes and change no other register; every dst x src the generator can produce, every rotation count, boundary constants', min_instances=500)
    R.saw(config='K3', unit='src/jit_compiler_rv64_vector.cpp')
    gs = [f for f in F.in_file('jit_compiler_rv64_vector.cpp') if f['name'] == 'generateDatasetInitVectorRV64']
    if len(gs) != 1:
        raise AnalysisBroken('RVV-SS-HSEM: generateDatasetInitVectorRV64 not found')
    g = gs[0]
    R.saw(fn=g['q'])
    loops = [x for x in astq.walk(g['body']) if x['k'] in ('For', 'While') and astq.is_node(x.get('b')) and x['b']['k'] == 'Compound' and any(y['k'] == 'Switch' for y in x['b']['s'])]
    if len(loops) != 1:
        raise AnalysisBroken('RVV-SS-HSEM: the loop that holds the switch over the instruction kind was not found')
    body = loops[0]['b']
    # the instruction fields are read through an expression like programs[i].programBuffer[j].dst: find the show() strings of those member reads
    keys = {}
    for x in astq.walk(body):
        if x['k'] == 'Mem' and x.get('m') in ('dst', 'src', 'mod', 'imm32', 'opcode') and 'Instruction' in (x.get('cls') or ''):
            keys[x['m']] = show(x)
    if set(keys) != {'dst', 'src', 'mod', 'imm32', 'opcode'}:
        raise AnalysisBroken('RVV-SS-HSEM: instruction field reads not found (%s)' % sorted(keys))
    pseudo = dict(g, params=[], body=body)
    types = {k: v for k, v in F.enum('randomx::SuperscalarInstructionType').items() if k not in ('COUNT', 'INVALID')}
    where = '%s:%d' % (g['file'], g['line'])
    n = 0
    cases = []
    for name, d, s_, sh, imm in X.ss_cases(types):
        if name == 'IMUL_RCP':
            continue
        if name == 'IROR_C':
            continue
        cases.append((name, d, s_, sh, imm))
    for d in range(8):
        for c in range(1, 64):
            if d in (0, 5) or c in (1, 31, 32, 33, 63):
                cases.append(('IROR_C', d, d, 0, c))
    for name, d, s_, sh, imm in cases:
        n += 1
        ex = RvExec(F, {}, {})
        ex.ignore_memcpy = True
        ex.env_keys = {keys['dst']: KB.const(8, d), keys['src']: KB.const(8, s_), keys['mod']: KB.const(8, sh << 2), keys['imm32']: KB.const(32, imm), keys['opcode']: KB.const(8, types[name])}
        ex.run(pseudo, [])
        m = VMachine()
        tr, bad = [], None
        if not ex.words:
            bad = 'nothing is emitted'
        for size, w, wh in ex.words:
            v = w.value()
            if v is None:
                raise AnalysisBroken('RVV-SS-HSEM: a word emitted at %s is not constant (%s)' % (wh, w.hexpat()))
            try:
                tr.append(m.step16(v, wh) if size == 2 else m.step32(v, wh))
            except NotInteger as e:
                bad = 'after `%s` the emitter produces %s' % (' ; '.join(tr), e)
                break
        if bad is None:
            exp = X.ss_expected(name, d, s_, sh, imm)
            for i in range(8):
                g_, e_ = m.vget(i), exp[i]
                if g_ != e_:
                    differs = None
                    for vals in T.VALUATIONS:
                        a_, b_ = T.term_eval(g_.canon(), vals), T.term_eval(e_.canon(), vals)
                        if a_ != b_:
                            differs = (a_, b_)
                            break
                    if differs is None:
                        raise AnalysisBroken('RVV-SS-HSEM: %s dst=r%d src=r%d: v%d is %s, the specification says %s; equivalence undecided' % (name, d, s_, i, T.term_show(g_, None), T.term_show(e_, None)))
                    bad = 'v%d = %s after `%s` (Table 6.1.1: %s); e.g. the code gives %#x, the specification %#x' % (i, T.term_show(g_, None), ' ; '.join(tr), T.term_show(e_, None), differs[0], differs[1])
                    break
        inst = 'rvv superscalar %s dst=r%d src=r%d%s imm32=%#x' % (name, d, s_, ' shift=%d' % sh if name == 'IADD_RS' else '', imm)
        if bad:
            R.violation(inst, where, expected='registers as in specification Table 6.1.1', found=bad)
        else:
            R.ok(inst, where)
    if n < 500:
        raise AnalysisBroken('RVV-SS-HSEM: only %d cases evaluated' % n)
