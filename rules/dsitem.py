"""[DS-ITEM] initDatasetItem computes the dataset item of specification 7.3 - decided by symbolic evaluation.

The function body is interpreted on terms with three uninterpreted operations: SS_i(registers) for the i-th SuperscalarHash program, LINE(v) for the cache line
selected by getMixBlock(v, memory) and WORD(line, q) for its q-th 64-bit word; the index returned by getAddressRegister() of program i is the symbol ADDR_i.
The eight words copied to the output must be the terms the specification prescribes, whatever the statement order, loop form or temporaries of the source.
"""
import astq
from astq import show, strip_all, val, walk
from core import AnalysisBroken

M64 = (1 << 64) - 1


class N:
    """hash-consed term: equal terms are the same object, so comparison and hashing do not walk the (exponentially shared) structure"""
    __slots__ = ('k', 'a', 'id')

    def __repr__(self):
        return 'N%d' % self.id


_TAB = {}


def mk(k, *a):
    key = (k,) + tuple(('n', x.id) if isinstance(x, N) else ('c', x) for x in a)
    n = _TAB.get(key)
    if n is None:
        n = N()
        n.k, n.a, n.id = k, a, len(_TAB) + 1
        _TAB[key] = n
    return n


def _order(x):
    return (1, x.id) if isinstance(x, N) else (0, x)


def t_xor(a, b):
    if isinstance(a, int) and isinstance(b, int):
        return a ^ b
    return mk('xor', *sorted((a, b), key=_order))


def t_mul(a, b):
    if isinstance(a, int) and isinstance(b, int):
        return (a * b) & M64
    return mk('mul', *sorted((a, b), key=_order))


def t_add(a, b):
    if isinstance(a, int) and isinstance(b, int):
        return (a + b) & M64
    if isinstance(a, int):
        a, b = b, a
    # pointer + constant chains
    if isinstance(a, N) and a.k == 'add' and isinstance(a.a[1], int) and isinstance(b, int):
        return t_add(a.a[0], (a.a[1] + b) & M64)
    if b == 0:
        return a
    return mk('add', a, b)


class Ev:
    def __init__(self, F, f, accesses):
        self.F, self.f = F, f
        self.env = {}
        self.out = None
        self.steps = 0
        self.accesses = accesses

    def broken(self, what, n=None):
        raise AnalysisBroken('DS-ITEM: %s%s' % (what, (' in `%s`' % show(n)[:70]) if n is not None else ''))

    # ---- l-values: ('var', id) | ('elem', id, index)
    def lval(self, n):
        n = strip_all(n)
        while n['k'] == 'Cast':
            n = strip_all(n['e'])
        if n['k'] == 'Ref':
            return ('var', n['id'])
        if n['k'] == 'Idx':
            b = strip_all(n['b'])
            while b['k'] == 'Cast':
                b = strip_all(b['e'])
            i = self.ev(n['i'])
            if b['k'] == 'Ref' and isinstance(self.env.get(b['id']), list):
                return ('elem', b['id'], i)
        self.broken('unsupported assignment target', n)

    def load(self, lv):
        if lv[0] == 'var':
            if lv[1] not in self.env:
                self.broken('read of an unset variable')
            return self.env[lv[1]]
        arr = self.env[lv[1]]
        if isinstance(lv[2], int):
            if not 0 <= lv[2] < len(arr):
                self.broken('index %d outside the register array' % lv[2])
            return arr[lv[2]]
        return mk('sel', lv[2], *arr)

    def store(self, lv, v):
        if lv[0] == 'var':
            self.env[lv[1]] = v
        elif isinstance(lv[2], int) and 0 <= lv[2] < len(self.env[lv[1]]):
            self.env[lv[1]][lv[2]] = v
        else:
            self.broken('store to a symbolic register index')

    def ev(self, n):
        n = strip_all(n)
        if n['k'] in ('Int', 'Bool') or ('v' in n and n['k'] not in ('Ref', 'Assign', 'CAssign', 'Un', 'Idx')):
            return n['v']
        k = n['k']
        if k == 'Cast':
            v = self.ev(n['e'])
            if n.get('ck') == 'IntegralCast' and isinstance(v, int):
                w = {'unsigned int': 32, 'int': 32, 'unsigned char': 8}.get((n.get('ty') or '').replace('const ', ''), 64)
                return v & ((1 << w) - 1)
            return v
        if k == 'Ref':
            if n.get('id') in self.env:
                v = self.env[n['id']]
                return ('arr', n['id']) if isinstance(v, list) else v
            c = val(n)
            if c is not None:
                return c
            self.broken('value of', n)
        if k == 'Idx':
            return self.load(self.lval(n))
        if k == 'Mem':
            b = strip_all(n['b'])
            while b['k'] == 'Cast':
                b = strip_all(b['e'])
            if n.get('m') == 'memory':
                return ('cachemem',)
            if n.get('m') in ('programs', 'reciprocalCache'):
                return (n['m'],)
            self.broken('member', n)
        if k == 'Un':
            op = n.get('op')
            if op == '&':
                return self.ev(n['e'])
            if op in ('++', '--'):
                lv = self.lval(n['e'])
                old = self.load(lv)
                if not isinstance(old, int):
                    self.broken('increment of a symbolic value', n)
                self.store(lv, old + (1 if op == '++' else -1))
                return old if n.get('post') else self.load(lv)
            if op == '*':
                return self.ev(n['e'])
            self.broken('operator %s' % op, n)
        if k == 'Bin':
            op = n['op']
            a, b = self.ev(n['l']), self.ev(n['r'])
            if op == '^':
                return t_xor(a, b)
            if op == '*':
                return t_mul(a, b)
            if op == '+':
                return t_add(a, b)
            if isinstance(a, int) and isinstance(b, int):
                f_ = {'<': a < b, '<=': a <= b, '>': a > b, '>=': a >= b, '==': a == b, '!=': a != b, '-': (a - b) & M64, '&': a & b, '|': a | b, '<<': (a << (b & 63)) & M64, '>>': a >> (b & 63)}.get(op)
                if f_ is not None:
                    return int(f_)
            self.broken('operator %s on symbolic operands' % op, n)
        if k == 'Assign':
            v = self.ev(n['r'])
            self.store(self.lval(n['l']), v)
            return v
        if k == 'CAssign':
            lv = self.lval(n['l'])
            cur, r = self.load(lv), self.ev(n['r'])
            op = n['op'][:-1]
            v = {'^': t_xor, '*': t_mul, '+': t_add}.get(op)
            if v is None:
                self.broken('compound assignment %s' % n['op'], n)
            self.store(lv, v(cur, r))
            return self.load(lv)
        if k == 'Call':
            return self.call(n)
        if k == 'Cond':
            c = self.ev(n['c'])
            if not isinstance(c, int):
                self.broken('symbolic condition', n)
            return self.ev(n['t'] if c else n['f'])
        self.broken('expression', n)

    def call(self, n):
        nm = n.get('name') or ''
        if n.get('opcall') == '[]' and astq.is_node(n.get('this')):
            base = self.ev(n['this'])
            i = self.ev(n['a'][0])
            if base == ('programs',) and isinstance(i, int):
                return ('prog', i)
            self.broken('subscript', n)
        if nm == 'getMixBlock':
            v, mem = self.ev(n['a'][0]), self.ev(n['a'][1])
            if mem != ('cachemem',):
                self.broken('getMixBlock on something else than cache->memory', n)
            return mk('line', v)
        if nm == 'executeSuperscalar':
            regs, prog = self.ev(n['a'][0]), self.ev(n['a'][1])
            if not (isinstance(regs, tuple) and regs[0] == 'arr') or not (isinstance(prog, tuple) and prog[0] == 'prog'):
                self.broken('executeSuperscalar arguments', n)
            if len(n['a']) > 2:
                self.ev(n['a'][2])
            arr = self.env[regs[1]]
            before = tuple(arr)
            for k_ in range(len(arr)):
                arr[k_] = mk('ss', prog[1], k_, *before)
            return None
        if nm in ('load64_native', 'load64'):
            a = self.ev(n['a'][0])
            base, off = (a.a[0], a.a[1]) if isinstance(a, N) and a.k == 'add' else (a, 0)
            if not isinstance(off, int):
                self.broken('64-bit load at a symbolic offset', n)
            if not (isinstance(base, N) and base.k == 'line') or off % 8 or not 0 <= off < 64:
                return mk('load', base, off)          # not a word of a selected cache line: differs from every expected term
            return mk('word', base, off // 8)
        if nm == 'getAddressRegister':
            p = self.ev(n['this']) if astq.is_node(n.get('this')) else None
            if not (isinstance(p, tuple) and p[0] == 'prog'):
                self.broken('getAddressRegister receiver', n)
            return mk('addr', p[1])
        if nm in ('memcpy', '__builtin_memcpy', '__builtin___memcpy_chk'):
            dst, src, cnt = self.ev(n['a'][0]), self.ev(n['a'][1]), self.ev(n['a'][2])
            if dst == ('out',) and isinstance(src, tuple) and src[0] == 'arr' and cnt == 64:
                self.out = tuple(self.env[src[1]])
                return None
            self.broken('memcpy', n)
        if nm in ('__builtin_prefetch', '_mm_prefetch', 'rx_prefetch_nta', 'rx_prefetch_t0'):
            for a in n.get('a', []):
                self.ev(a)              # the argument is evaluated (an assignment inside it counts)
            return None
        if nm in ('store64', 'store64_native') and len(n.get('a', [])) == 2:
            self.broken('item written word by word (not modelled)', n)
        self.broken('call of %s' % nm, n)

    def run(self, s):
        for st in (s['s'] if s['k'] == 'Compound' else [s]):
            self.steps += 1
            if self.steps > 5000:
                self.broken('evaluation does not end')
            k = st['k']
            if k in ('Null', 'NullStmt', 'Empty'):
                continue            # an empty statement (a macro that expands to nothing)
            if k == 'Compound':
                self.run(st)
            elif k == 'Decl':
                for d in st['d']:
                    ty = d.get('ty') or ''
                    if d.get('arrlen') is not None:
                        self.env[d['id']] = [mk('uninit', d['name'], i) for i in range(d['arrlen'])]
                    elif d.get('init') is not None:
                        self.env[d['id']] = self.ev(d['init'])
                    else:
                        self.env[d['id']] = mk('uninit', d['name'])
            elif k in ('For', 'While'):
                if astq.is_node(st.get('init')):
                    self.run(st['init'])
                it = 0
                while True:
                    c = self.ev(st['c']) if astq.is_node(st.get('c')) else 1
                    if not isinstance(c, int):
                        self.broken('symbolic loop condition', st['c'])
                    if not c:
                        break
                    it += 1
                    if it > 64:
                        self.broken('loop without a small constant bound')
                    self.run(st['b'])
                    if astq.is_node(st.get('inc')):
                        self.ev(st['inc'])
            elif k == 'If':
                c = self.ev(st['c'])
                if not isinstance(c, int):
                    self.broken('symbolic condition', st['c'])
                if c:
                    self.run(st['t'])
                elif astq.is_node(st.get('e')):
                    self.run(st['e'])
            elif k == 'Return':
                return
            else:
                self.ev(st)


def expected(F, accesses):
    mul0 = F.const('randomx::superscalarMul0')
    adds = [F.const('randomx::superscalarAdd%d' % i) for i in range(1, 8)]
    item = mk('item')
    r0 = t_mul(t_add(item, 1), mul0)
    rl = [r0] + [t_xor(r0, a) for a in adds]
    rv = item
    for i in range(accesses):
        line = mk('line', rv)
        before = tuple(rl)
        rl = [mk('ss', i, k, *before) for k in range(8)]
        rl = [t_xor(rl[q], mk('word', line, q)) for q in range(8)]
        rv = mk('sel', mk('addr', i), *rl)
    return tuple(rl)


def brief(t, depth=0):
    if isinstance(t, int):
        return hex(t)
    if not isinstance(t, N):
        return str(t)
    if depth > 3:
        return '...'
    if t.k == 'ss':
        return 'SS%d[%d](..)' % (t.a[0], t.a[1])
    if t.k == 'line':
        return 'LINE(%s)' % brief(t.a[0], depth + 1)
    if t.k == 'word':
        return 'WORD(%s, %d)' % (brief(t.a[0], depth + 1), t.a[1])
    if t.k == 'sel':
        return 'r[%s]' % brief(t.a[0], depth + 1)
    if t.k == 'addr':
        return 'ADDR%d' % t.a[0]
    if t.k in ('item',):
        return 'item'
    if t.k == 'load':
        return 'load64(%s + %s)' % (brief(t.a[0], depth + 1), t.a[1])
    if t.k == 'uninit':
        return 'uninitialised %s' % '.'.join(str(x) for x in t.a)
    return '%s(%s)' % (t.k, ', '.join(brief(x, depth + 1) for x in t.a))


def _diff(a, b, seen=None):
    """where two terms first differ (for the message)"""
    if a is b or (isinstance(a, int) and a == b):
        return ''
    seen = set() if seen is None else seen
    if isinstance(a, N) and isinstance(b, N):
        if (a.id, b.id) in seen:
            return ''
        seen.add((a.id, b.id))
        if a.k == b.k and len(a.a) == len(b.a):
            pairs = list(zip(a.a, b.a))
            if a.k in ('xor', 'mul') and len(a.a) == 2:
                same = lambda x, y: x is y or (isinstance(x, int) and x == y)
                kind = lambda x: x.k if isinstance(x, N) else 'c'
                if kind(a.a[0]) != kind(b.a[0]) and kind(a.a[0]) == kind(b.a[1]):
                    pairs = [(a.a[0], b.a[1]), (a.a[1], b.a[0])]
            for x, y in pairs:
                if not (x is y or (isinstance(x, int) and x == y)):
                    d = _diff(x, y, seen)
                    if d:
                        return d
    return '; first difference: expected %s, found %s' % (brief(a), brief(b))


def rule_item(ctx, R, F, config='K0'):
    from rules import a64hsem as _T
    if _T.STRICT_FAMILY:
        R.note('rule_item skipped: RXVERIF_STRICT_FAMILY=1 (evaluation on terms switched off, see DESIGN.md 9.2)')
        return
    R.rule('DS-ITEM', 'initDatasetItem computes the item of specification 7.3: r0 = (item + 1) * mul0, ri = r0 ^ addi, then RANDOMX_CACHE_ACCESSES rounds of [cache line selected by the register value; SuperscalarHash i; '
           'XOR of the eight words of the line; next register value = r[address register of program i]], the eight registers copied to the output - decided by evaluating the body on terms with uninterpreted '
           'SuperscalarHash, line selection and line words (statement order, loop form and temporaries do not matter); getMixBlock masks the line index to the cache size', min_instances=9)
    f = F.func('randomx::initDatasetItem')
    R.saw(fn=f['q'] + '@' + config, config=config)
    acc = int(F.macro('RANDOMX_CACHE_ACCESSES')['body'])
    where = '%s:%d' % (f['file'], f['line'])
    if len(f['params']) != 3:
        raise AnalysisBroken('DS-ITEM: initDatasetItem has %d parameters' % len(f['params']))
    e = Ev(F, f, acc)
    e.env[f['params'][0]['id']] = ('cache',)
    e.env[f['params'][1]['id']] = ('out',)
    e.env[f['params'][2]['id']] = mk('item')
    e.run(f['body'])
    exp = expected(F, acc)
    if e.out is None:
        R.violation('result copy', where, expected='the eight registers copied to the output (64 bytes)', found='no such copy on the evaluated path')
    else:
        for k in range(8):
            if e.out[k] is exp[k] or (isinstance(exp[k], int) and e.out[k] == exp[k]):
                R.ok('[%s] output word %d' % (config, k), where)
            else:
                # find the first round in which the two terms part
                R.violation('[%s] output word %d' % (config, k), where, expected=brief(exp[k]), found=brief(e.out[k]) + _diff(exp[k], e.out[k]))
    g = F.func('randomx::getMixBlock')
    cs_ = F.const('randomx::CacheSize')
    ren = {p['id']: 'P%d' % i for i, p in enumerate(g['params'])}
    rets = [x for x in walk(g['body']) if x['k'] == 'Return']
    from astq import showv
    with astq.renaming(ren):
        rs = showv(rets[0]['e']) if rets else None
    mask = cs_ // 64 - 1
    R.check(rs in ('(P1 + ((P0 & %d) * 64))' % mask, '(P1 + (64 * (P0 & %d)))' % mask, '(((P0 & %d) * 64) + P1)' % mask) and (mask + 1) * 64 <= cs_, '[%s] getMixBlock' % config, '%s:%d' % (g['file'], g['line']),
            expected='memory + (reg & %d) * 64, within CacheSize %d' % (mask, cs_), found=rs)

