"""[X86-LOOPSTORE] the end-of-iteration stores of the hand-written x86-64 loop (specification 4.6.2 steps 9-11).

Step 9 writes r0-r7 to the scratchpad at spAddr1, step 11 writes f0-f3 at spAddr0.  The two addresses can select the same 64-byte line (both are 64-byte aligned
L3 addresses), and then the line must end up holding f0-f3: the integer stores have to come first.  Which stack slot holds which address is read off the load half
of the loop (the slot whose address the integer XOR loads use is spAddr0, the one of the floating-point loads is spAddr1).
"""
import re

from core import AnalysisBroken

GPR = ('rax', 'rbx', 'rcx', 'rdx', 'rsi', 'rdi', 'rbp', 'r8', 'r9', 'r10', 'r11', 'r12', 'r13', 'r14', 'r15')


def _mem(op):
    m = re.match(r'^(?:QWORD|XMMWORD|DWORD) PTR \[(\w+)(?:\+(0x[0-9a-f]+|\d+))?\]$', op.strip())
    if not m:
        return None
    return m.group(1), int(m.group(2), 0) if m.group(2) else 0


def _walk(insns):
    """yields (index, kind, ...) events: ('store', base provenance, offset, source register) / ('load', base provenance, offset, mnemonic)"""
    prov = {}
    slots = {}
    ev = []
    for idx, (off, mn, ops, raw) in enumerate(insns):
        p = [x.strip() for x in ops.split(',')] if ops else []
        if mn == 'lea' and len(p) == 2 and p[0] in GPR:
            prov[p[0]] = 'lea@%d:%s' % (idx, p[1])
            continue
        if mn == 'mov' and len(p) == 2:
            md, ms = _mem(p[0]), _mem(p[1])
            if md and md[0] == 'rsp' and p[1] in GPR:
                slots[md[1]] = prov.get(p[1], 'in:%s' % p[1])
                continue
            if ms and ms[0] == 'rsp' and p[0] in GPR:
                prov[p[0]] = slots.get(ms[1], 'slot:%d' % ms[1])
                continue
            if md and md[0] != 'rsp' and (p[1] in GPR):
                ev.append((idx, 'store', prov.get(md[0], 'in:%s' % md[0]), md[1], p[1]))
                continue
            if p[0] in GPR:
                prov[p[0]] = prov.get(p[1], 'other@%d' % idx) if p[1] in GPR else 'other@%d' % idx
                continue
        if mn in ('movapd', 'movaps', 'movdqa', 'movupd') and len(p) == 2:
            md = _mem(p[0])
            if md and md[0] != 'rsp' and p[1].startswith('xmm'):
                ev.append((idx, 'store', prov.get(md[0], 'in:%s' % md[0]), md[1], p[1]))
                continue
        if len(p) == 2 and _mem(p[1]) and _mem(p[1])[0] != 'rsp':
            ms = _mem(p[1])
            ev.append((idx, 'load', prov.get(ms[0], 'in:%s' % ms[0]), ms[1], mn, p[0]))
        if p and p[0] in GPR and mn not in ('cmp', 'test', 'push'):
            prov[p[0]] = 'other@%d' % idx
    return ev, slots


def rule_loopstore(ctx, R):
    R.rule('X86-LOOPSTORE', 'in each of the three end-of-iteration fragments of the x86-64 runtime (plain, hardware AES, software AES) r0-r7 are stored at spAddr1 (register 8+j at offset 8j), f0-f3 at spAddr0 '
           '(xmm j at offset 16j), and every integer store precedes every floating-point store - when the two addresses select the same scratchpad line it must end up holding f0-f3 (specification 4.6.2 steps 9 and 11); '
           'the stack slots of the two addresses are identified from the load half of the loop', min_instances=9)
    o = ctx.obj('x86')
    R.saw(unit='src/jit_compiler_x86_static.S', config='K0')
    order = sorted((a, n) for n, a in o.symbols.items() if n.startswith('randomx_program_') or n.startswith('_randomx_program_'))

    def frag(name):
        a = o.sym(name)
        nxt = [x for x, n in order if x > a]
        if not nxt:
            raise AnalysisBroken('X86-LOOPSTORE: no symbol after %s' % name)
        return o.between(a, nxt[0])
    ev, slots = _walk(frag('randomx_program_loop_load'))
    int_l = {e[2] for e in ev if e[1] == 'load' and e[4] == 'xor' and e[5] in ('r8', 'r9', 'r10', 'r11', 'r12', 'r13', 'r14', 'r15')}
    fp_l = {e[2] for e in ev if e[1] == 'load' and e[4].startswith('cvtdq2pd')}
    if len(int_l) != 1 or len(fp_l) != 1:
        raise AnalysisBroken('X86-LOOPSTORE: the load half of the loop does not use one address for the integer and one for the floating-point loads (%s / %s)' % (sorted(int_l), sorted(fp_l)))
    sp0 = [k for k, v in slots.items() if v == list(int_l)[0]]
    sp1 = [k for k, v in slots.items() if v == list(fp_l)[0]]
    if len(sp0) != 1 or len(sp1) != 1 or sp0 == sp1:
        raise AnalysisBroken('X86-LOOPSTORE: the stack slots of spAddr0 / spAddr1 were not identified')
    sp0, sp1 = 'slot:%d' % sp0[0], 'slot:%d' % sp1[0]
    R.ok('loop_load: spAddr0 in [rsp+%s], spAddr1 in [rsp+%s]' % (sp0[5:], sp1[5:]), 'src/asm/program_loop_load.inc')
    for name, src in (('randomx_program_loop_store', 'src/asm/program_loop_store.inc'), ('randomx_program_loop_store_hard_aes', 'src/asm/program_loop_store_hard_aes.inc'),
                      ('randomx_program_loop_store_soft_aes', 'src/asm/program_loop_store_soft_aes.inc')):
        ev, _ = _walk(frag(name))
        st = [e for e in ev if e[1] == 'store']
        ints = [e for e in st if not e[4].startswith('xmm')]
        fps = [e for e in st if e[4].startswith('xmm')]
        want_i = sorted((sp1, 8 * j, 'r%d' % (8 + j)) for j in range(8))
        want_f = sorted((sp0, 16 * j, 'xmm%d' % j) for j in range(4))
        R.check(sorted((e[2], e[3], e[4]) for e in ints) == want_i, '%s: integer registers at spAddr1' % name, src, expected='r(8+j) at [spAddr1 + 8j], j = 0..7', found=sorted((e[2], e[3], e[4]) for e in ints))
        R.check(sorted((e[2], e[3], e[4]) for e in fps) == want_f, '%s: f registers at spAddr0' % name, src, expected='xmm j at [spAddr0 + 16j], j = 0..3', found=sorted((e[2], e[3], e[4]) for e in fps))
        if ints and fps:
            R.check(max(e[0] for e in ints) < min(e[0] for e in fps), '%s: integer stores before floating-point stores' % name, src,
                    expected='every store of step 9 before every store of step 11', found='last integer store is instruction %d, first floating-point store is instruction %d of the fragment' % (max(e[0] for e in ints), min(e[0] for e in fps)))


def rule_loopload(ctx, R):
    R.rule('X86-LOOPLOAD', 'the load half of the x86-64 loop (specification 4.6.2 steps 2-3): r(8+j) ^= the j-th quadword at spAddr0 for j = 0..7, f0-f3 / e0-e3 are converted from the eight 8-byte groups at spAddr1 '
           '(xmm j from offset 8j), only the four e registers pass through the and / or masks, and the two addresses are scratchpad base + the two halves of spMix', min_instances=5)
    o = ctx.obj('x86')
    R.saw(unit='src/jit_compiler_x86_static.S', config='K0')
    order = sorted((a, n) for n, a in o.symbols.items() if n.startswith('randomx_program_') or n.startswith('_randomx_program_'))
    a = o.sym('randomx_program_loop_load')
    nxt = [x for x, n in order if x > a]
    ins = o.between(a, nxt[0])
    src = 'src/asm/program_loop_load.inc'
    ev, slots = _walk(ins)
    xl = [e for e in ev if e[1] == 'load' and e[4] == 'xor']
    cl = [e for e in ev if e[1] == 'load' and e[4].startswith('cvtdq2pd')]
    R.check(sorted((e[3], e[5]) for e in xl) == [(8 * j, 'r%d' % (8 + j)) for j in range(8)] and len({e[2] for e in xl}) == 1, 'integer registers', src,
            expected='r(8+j) ^= [spAddr0 + 8j], j = 0..7, one base', found=sorted((e[3], e[5]) for e in xl))
    R.check(sorted((e[3], e[5]) for e in cl) == [(8 * j, 'xmm%d' % j) for j in range(8)] and len({e[2] for e in cl}) == 1, 'floating-point registers', src,
            expected='xmm j = convert([spAddr1 + 8j]), j = 0..7, one base', found=sorted((e[3], e[5]) for e in cl))
    if xl and cl:
        pa, pb = xl[0][2], cl[0][2]
        ma_, mb_ = re.search(r'\[(.*)\]', pa), re.search(r'\[(.*)\]', pb)
        ra = sorted(ma_.group(1).replace(' ', '').split('+')) if ma_ and pa.startswith('lea@') else None
        rb = sorted(mb_.group(1).replace(' ', '').split('+')) if mb_ and pb.startswith('lea@') else None
        if ra is None or rb is None:
            R.note('X86-LOOPLOAD: the two scratchpad addresses are not formed by `lea`; their composition is not decided (%s / %s)' % (pa, pb))
        else:
            R.check('rsi' in ra and 'rsi' in rb and ra != rb and len(ra) == 2 and len(rb) == 2, 'addresses', src,
                    expected='scratchpad base (rsi) + one register each, two different registers', found='%s / %s' % (pa, pb))
    masked = {}
    for off, mn, ops, raw in ins:
        p = [x.strip() for x in ops.split(',')] if ops else []
        if mn in ('andps', 'andpd', 'orps', 'orpd', 'pand', 'por') and len(p) == 2 and p[0].startswith('xmm'):
            masked.setdefault(p[0], []).append((mn[:2] if mn[0] != 'p' else mn[1:3], p[1]))
    want = {'xmm%d' % j for j in range(4, 8)}
    shapes = {tuple(k for k, _ in v) for v in masked.values()}
    R.check(set(masked) == want and len(shapes) == 1 and sorted(list(shapes)[0]) == ['an', 'or'], 'e-register masks', src,
            expected='and-mask then or-mask on xmm4..xmm7 only', found={k: v for k, v in sorted(masked.items())})
    srcs = {(k, r) for v in masked.values() for k, r in v}
    R.check(len({r for k, r in srcs if k == 'an'}) == 1 and len({r for k, r in srcs if k == 'or'}) == 1, 'one and-mask and one or-mask register', src, expected='the same two mask registers for all four', found=sorted(srcs))


def rule_dsitem(ctx, R):
    import astq
    R.rule('X86-DSITEM', 'the hand-written pieces of the x86-64 dataset-item code are the steps of specification 7.3: r8 = (item + 1) * [r0_mul], r(8+i) = [ri_add] ^ r8 with the i-th constant label; '
           'line pointer = cache memory + (value & (CacheSize / 64 - 1)) * 64; r(8+i) ^= the i-th word of the line; the initialisation loop stores r8..r15 at output + 8i '
           '(the values at the labels are SPEC-DSCONST\'s obligation)', min_instances=5)
    FI = astq.Facts(ctx, 'K0')
    cmask = FI.const('randomx::CacheSize') // 64 - 1
    o = ctx.obj('x86')
    R.saw(unit='src/jit_compiler_x86_static.S', config='K0')
    src = 'src/jit_compiler_x86_static.S'
    ins = o.between('randomx_sshash_init', 'randomx_program_end')
    ins = ins[:next((k for k, i in enumerate(ins) if i[1] in ('jmp', 'ret')), len(ins))]

    def ops(i):
        return [x.strip() for x in re.sub(r'\s*#.*$', '', i[2]).split(',')]

    def lab(i):
        m = re.search(r'<([\w.]+)>', i[2])
        return m.group(1) if m else None
    # (a) register initialisation
    r8 = {'lea': None, 'imul': None}
    pairs = {}
    cur = {}
    for i in ins:
        p = ops(i)
        if i[1] == 'lea' and p[0] == 'r8':
            r8['lea'] = p[1]
        elif i[1] == 'imul' and p[0] == 'r8':
            r8['imul'] = lab(i)
        elif i[1] == 'mov' and re.match(r'^r(9|1[0-5])$', p[0]) and lab(i):
            cur[p[0]] = lab(i)
        elif i[1] == 'xor' and p[0] in cur and p[1] == 'r8':
            pairs[p[0]] = cur[p[0]]
    if r8['lea'] is None or r8['imul'] is None or len(pairs) != 7:
        raise AnalysisBroken('X86-DSITEM: the register initialisation is not `lea r8, [..] ; imul r8, [label] ; 7 x (mov r, [label] ; xor r, r8)`')
    R.check(r8['lea'] in ('[rbx+0x1]', '[rbx+1]') and r8['imul'] == 'r0_mul' and ins and [i[1] for i in ins if i[1] in ('lea', 'imul')] == ['lea', 'imul'], 'r8 = (item + 1) * [r0_mul]', src,
            expected='lea r8, [rbx+1] ... imul r8, [r0_mul]', found=r8)
    want = {'r%d' % (8 + k): 'r%d_add' % k for k in range(1, 8)}
    R.check(pairs == want, 'r(8+i) = [ri_add] ^ r8', src, expected=want, found=pairs)

    # line pointer pieces: and rbx, MASK ; shl rbx, 6 ; add rbx, rdi
    def line_piece(seq, what):
        k = next((j for j, i in enumerate(seq) if i[1] == 'and' and ops(i)[0] == 'rbx'), None)
        if k is None or k + 2 >= len(seq) or seq[k + 1][1] != 'shl' or seq[k + 2][1] != 'add':
            # another way of forming the pointer than and / shl / add: not a form this rule reads
            raise AnalysisBroken('X86-DSITEM: %s is not formed by `and rbx, mask ; shl rbx, n ; add rbx, reg`' % what)
        a, b, c = seq[k], seq[k + 1], seq[k + 2]
        try:
            mv = int(ops(a)[1], 0)
        except ValueError:
            mv = None
        R.check(mv == cmask and b[1] == 'shl' and ops(b) == ['rbx', '0x6'] and c[1] == 'add' and ops(c) == ['rbx', 'rdi'], what, src,
                expected='cache memory (rdi) + (rbx & %#x) * 64' % cmask, found='%s %s ; %s %s ; %s %s' % (a[1], a[2], b[1], b[2], c[1], c[2]))
    line_piece(ins, 'first cache line')
    # (b) mixing
    ld = o.between('randomx_sshash_load', 'randomx_sshash_prefetch')
    got = sorted((ops(i)[0], ops(i)[1]) for i in ld if i[1] == 'xor')
    wantl = sorted(('r%d' % (8 + k), 'QWORD PTR [rbx%s]' % ('+%#x' % (8 * k) if k else '')) for k in range(8))
    R.check(got == wantl, 'r(8+i) ^= word i of the line', src, expected=wantl[:3], found=got[:4])
    line_piece(o.between('randomx_sshash_prefetch', 'randomx_sshash_end'), 'next cache line')
    # (c) result store of the initialisation loop
    # the loop of the exported initialisation routine: from the first instruction after its call (the call is a data byte + offset in the source)
    # to the conditional branch that closes the loop
    whole = o.between(o.sym('randomx_dataset_init'), o.sym('randomx_program_epilogue'))
    end = next((k for k, i in enumerate(whole) if i[1].startswith('j') and i[1] != 'jmp'), None)
    if end is None:
        raise AnalysisBroken('X86-DSITEM: no loop branch in randomx_dataset_init')
    first = next((k for k, i in enumerate(whole[:end]) if i[1] == 'mov' and ops(i)[0].startswith('QWORD PTR [rsi')), None)
    if first is None:
        raise AnalysisBroken('X86-DSITEM: no store through rsi in the loop of randomx_dataset_init')
    seq = whole[first:end]
    st = sorted((ops(i)[0], ops(i)[1]) for i in seq if i[1] == 'mov' and ops(i)[0].startswith('QWORD PTR [rsi'))
    wants = sorted(('QWORD PTR [rsi%s]' % ('+%#x' % (8 * k) if k else ''), 'r%d' % (8 + k)) for k in range(8))
    R.check(st == wants, 'result: r8..r15 at output + 8i', src, expected=wants[:3], found=st[:4])
    adv = [(i[1], ops(i)) for i in seq if i[1] == 'add' and ops(i)[0] in ('rsi', 'rbp')]
    R.check(sorted(adv) == sorted([('add', ['rbp', '0x1']), ('add', ['rsi', '0x40'])]), 'advance: one item, 64 bytes', src, expected='add rbp, 1 ; add rsi, 64', found=adv)


# ---------------------------------------------------------------------------------------------------------------------------
# [X86-ISA-BASE] the hand-written x86-64 runtime uses nothing beyond the baseline ISA outside the fragments selected by a CPU-feature flag
X86_EXT = re.compile(r'^(lzcnt|tzcnt|popcnt|andn|bextr|bls(i|r|msk)|bzhi|mulx|pdep|pext|rorx|sarx|shlx|shrx|adcx|adox|movbe|crc32|pclmulqdq|pshufb|palignr|pabs[bwd]|phadd\w*|phsub\w*|pmaddubsw|pmulhrsw|psign[bwd]|'
                     r'pblend\w+|blendv?p[sd]|dpp[sd]|extractps|insertps|pinsr[bdq]|pextr[bdq]|pmov[sz]x\w+|pmulld|pmuldq|ptest|round[ps][sd]|pcmpeqq|pcmpgtq|packusdw|pmaxs[bd]|pmaxu[wd]|pmins[bd]|pminu[wd]|mpsadbw|phminposuw|'
                     r'pcmp[ei]str[im]|aes\w+|sha\w+|gf2p8\w+|v[a-z]\w+|prefetchw|prefetchwt1|clflushopt|clwb|rdrand|rdseed|xsave\w*|xgetbv|rdpid|movdir\w+|kmov\w+)$')
# mnemonics that start with v but belong to the base ISA
X86_BASE_V = {'verr', 'verw'}


def rule_isa_base(ctx, R):
    R.rule('X86-ISA-BASE', 'RandomX runs on every x86-64 CPU (the interpreter and the JIT check no CPUID bit except AES, which the caller selects with RANDOMX_FLAG_HARD_AES): outside the fragments used only under that flag, the hand-written '
           'x86-64 runtime - including randomx_reciprocal_fast, whose result the JIT embeds - contains no instruction of a later extension (on a CPU without LZCNT the bytes of `lzcnt` execute as `bsr` and give another result); '
           'every instruction of the assembled object is classified by mnemonic', min_instances=10)
    o = ctx.obj('x86')
    R.saw(unit='src/jit_compiler_x86_static.S', config='K0')
    syms = sorted((a, n) for n, a in o.symbols.items() if not n.startswith('.'))

    def holder(off):
        best = None
        for a, n in syms:
            if a <= off:
                best = n
            else:
                break
        return best or '?'
    # data regions disassemble to garbage: only fragments whose label is a code label of the runtime are read (everything up to the first constant table of each)
    n = 0
    for off, mn, ops, raw in o.insns:
        h = holder(off)
        if mn in ('(bad)', '.byte', 'data16', 'cs', 'lock', 'out', 'hlt', 'cld', 'cmc', 'stos', 'cdq', 'jo', 'js') or mn.startswith('rex'):
            continue            # bytes of constant tables read as code
        n += 1
        if X86_EXT.match(mn) and mn not in X86_BASE_V:
            allowed = None
            if mn.startswith('aes') and 'hard_aes' in h:
                allowed = 'selected by RANDOMX_FLAG_HARD_AES'
            elif mn == 'prefetchw':
                allowed = 'a hint: executes as a no-op on x86-64 CPUs without PRFCHW'
            inst = '%s in %s' % (mn, h)
            if allowed:
                R.ok(inst + ' (%s)' % allowed, 'src/jit_compiler_x86_static.S:%s' % h)
            else:
                R.violation(inst, 'src/jit_compiler_x86_static.S:%s+%#x' % (h, off - o.symbols.get(h, off)), expected='baseline x86-64 (SSE2) instructions only', found='%s %s' % (mn, ops))
    if n < 300:
        raise AnalysisBroken('X86-ISA-BASE: only %d instructions classified' % n)
    R.ok('%d instructions classified' % n, 'src/jit_compiler_x86_static.S')


# ---------------------------------------------------------------------------------------------------------------------------
# [X86-DSREAD-HSEM] the dataset read of a compiled x86-64 program, executed on terms
def _ds_machine():
    from rules import x86hsem as X
    from rules import rvhsem as V
    from rules.a64hsem import const, add, atom

    class M(X.MemMachine):
        def __init__(self):
            X.MemMachine.__init__(self)
            self.prefetch = []

        def addr(self, text):
            return X.MemMachine.addr(self, re.sub(r'^(BYTE|WORD|XMMWORD) PTR ', 'QWORD PTR ', text.strip()))

        def step(self, mn, ops):
            ops = re.sub(r'\s*#.*$', '', ops)
            o = [x.strip() for x in ops.split(',')] if ops else []
            if mn.startswith('prefetch') and len(o) == 1:
                a = self.addr(o[0])
                if a is None:
                    return False
                self.prefetch.append(a)
                return True
            if mn == 'shr' and len(o) == 2 and o[0] in X.REG32 and re.match(r'^0x[0-9a-f]+$|^\d+$', o[1]):
                self.r[X.REG32[o[0]]] = V.srl(X.and_(self.get(X.REG32[o[0]]), const(0xffffffff)), int(o[1], 0) % 32)
                return True
            if mn == 'add' and len(o) == 2 and o[0] in X.REG32 and re.match(r'^0x[0-9a-f]+$|^\d+$', o[1]):
                self.r[X.REG32[o[0]]] = X.and_(add(self.get(X.REG32[o[0]]), const(int(o[1], 0) & 0xffffffff)), const(0xffffffff))
                return True
            if mn == 'xor' and len(o) == 2 and o[0] in X.REG32 and o[1] in X.REG32:
                from rules.a64hsem import xor
                self.r[X.REG32[o[0]]] = X.and_(xor(self.get(X.REG32[o[0]]), self.get(X.REG32[o[1]])), const(0xffffffff))
                return True
            if mn == 'mov' and len(o) == 2 and o[0] in X.REG64 and o[1].startswith('QWORD PTR'):
                a = self.addr(o[1])
                if a is None:
                    return False
                self.r[X.REG64[o[0]]] = X.ld64(a)
                return True
            return X.MemMachine.step(self, mn, ops)
    return M


def _readreg_prefix(ctx, rule, fn='generateProgramPrologue', names=('readReg2', 'readReg3')):
    """the statements at the end of the prologue generator that compute readReg2 ^ readReg3: returns a function (ra, rb) -> decoded instructions"""
    import astq
    from astq import show, strip_all
    from domains import KB, KBEval
    from rules import jit
    from rules import x86hsem as X
    F, hs = jit.handlers(ctx, 'x86')
    cls = 'randomx::JitCompilerX86'
    g = F.func(cls + '::' + fn)
    body = g['body']['s'] if g['body']['k'] == 'Compound' else [g['body']]

    def is_emit(s):
        t = strip_all(s)
        return t['k'] == 'Call' and t.get('name') in ('emit', 'emitByte', 'emit32')
    p = [q for q in g['params'] if 'ProgramConfiguration' in (q.get('ty') or '')]
    if len(p) != 1:
        raise AnalysisBroken('%s: %s has no ProgramConfiguration parameter' % (rule, fn))
    pn = p[0]['name']

    def cfg_byte(s):
        t = strip_all(s)
        return t['k'] == 'Call' and t.get('name') == 'emitByte' and (pn + '.') in show(t['a'][0])
    # the run of consecutive emit statements around the operand bytes taken from the program configuration: the last such run of the
    # prologue generator, the first of the epilogue generator; it ends with its last configuration byte
    cand = [i for i, s in enumerate(body) if cfg_byte(s)]
    if not cand:
        raise AnalysisBroken('%s: no emitByte of a ProgramConfiguration member at the top level of %s' % (rule, fn))
    anchor = cand[-1] if fn.endswith('Prologue') else cand[0]
    lo = anchor
    while lo > 0 and is_emit(body[lo - 1]):
        lo -= 1
    hi = anchor
    k = anchor + 1
    while k < len(body) and is_emit(body[k]):
        if cfg_byte(body[k]):
            hi = k
        k += 1
    run = body[lo:hi + 1]
    if sum(1 for s in run if cfg_byte(s)) != 2:
        raise AnalysisBroken('%s: expected two operand bytes taken from the program configuration in one run of emit statements in %s, found %d' % (rule, fn, sum(1 for s in run if cfg_byte(s))))

    def emit(ra, rb):
        ex = X.X86Exec(F, cls, {}, {})
        others = [r for r in range(8) if r not in (ra, rb)]
        env = {'%s.%s' % (pn, nm): KB.const(32, others[k]) for k, nm in enumerate(n for n in ('readReg0', 'readReg1', 'readReg2', 'readReg3') if n not in names)}
        env.update({'%s.%s' % (pn, names[0]): KB.const(32, ra), '%s.%s' % (pn, names[1]): KB.const(32, rb)})
        ev = KBEval(F, env, 0, {})
        for s in run:
            ex._stmt(g, s, ev, 0)
        return tuple(ex.bytes)
    return g, emit


def _frag(o, rule, name):
    order = sorted((a, n) for n, a in o.symbols.items() if n.startswith('randomx_') or n.startswith('_randomx_'))
    a = o.sym(name)
    nxt = [x for x, n in order if x > a]
    if not nxt:
        raise AnalysisBroken('%s: no symbol after %s' % (rule, name))
    return o.between(a, nxt[0])


def rule_dsread(ctx, R):
    import astq
    from rules import x86hsem as X
    from rules import rvhsem as V
    from rules import a64hsem as T
    from rules import bitlin
    from rules.a64hsem import const, add, atom, xor, ror
    if X.STRICT_FAMILY:
        R.note('rule_dsread (x86) skipped: RXVERIF_STRICT_FAMILY=1 (evaluation on terms switched off, see DESIGN.md 9.2)')
        return
    R.rule('X86-DSREAD-HSEM', 'the dataset read at the end of every iteration of a compiled x86-64 program - the bytes the prologue generator emits for readReg2 ^ readReg3 followed by the hand-written v1 or v2 piece '
           '(full-memory mode), or by the light-mode piece up to the call of the SuperscalarHash code and the piece after it - executed on a register file of terms performs specification 4.6.2 steps 5-8 with this '
           'back-end\'s packing (rbp = mx:ma, ma in the low half): read at base + (old ma & CacheLineAlignMask) XORed word by word into r0..r7, mx (v1) or ma (v2) XORed with the zero-extended 32-bit value, halves swapped '
           '(the prefetch address is only noted: it is a hint); light mode: item number = (old ma & mask) / 64 + datasetOffset / 64, r0..r7 saved and XORed back into the computed item', min_instances=40)
    FI = astq.Facts(ctx, 'K0')
    mask = FI.const('randomx::CacheLineAlignMask')
    M32 = 0xffffffff
    g, emit = _readreg_prefix(ctx, 'X86-DSREAD-HSEM')
    R.saw(fn=g['q'])
    o = ctx.obj('x86')
    R.saw(unit='src/jit_compiler_x86_static.S', config='K0')
    Mc = _ds_machine()
    pairs = ((0, 1), (2, 7), (5, 5))
    pre = {p: emit(*p) for p in pairs}
    dec = X.disassemble(list(pre.values()))
    undecided, nviol = [], 0

    def compare(inst, got, want, where, tr, obs=bitlin.ALL):
        nonlocal nviol
        verdict, how = bitlin.decide(got, want, obs)
        if verdict == 'eq':
            R.ok(inst, where)
        elif verdict == 'unknown':
            undecided.append('%s is %s, the specification says %s; the two terms agree on every test valuation, equivalence undecided' % (inst, T.term_show(got, None), T.term_show(want, None)))
        else:
            nviol += 1
            R.violation(inst, where, expected=T.term_show(want, None), found='%s after `%s`; %s' % (T.term_show(got, None), ' ; '.join(tr), how))

    def run(m, seq, tr, where):
        for mn, ops in seq:
            if not m.step(mn, ops):
                raise AnalysisBroken('X86-DSREAD-HSEM: instruction `%s %s` in %s has no meaning in the term machine' % (mn, ops, where))
            tr.append('%s %s' % (mn, ops))

    obs_mp = mask | (mask << 32)
    for ver, sym in (('v1', 'randomx_program_read_dataset'), ('v2', 'randomx_program_read_dataset_v2')):
        where = 'src/jit_compiler_x86_static.S:%s' % sym
        piece = [(i[1], i[2]) for i in _frag(o, 'X86-DSREAD-HSEM', sym)]
        for (ra, rb) in pairs:
            m = Mc()
            tr = []
            run(m, [(d[0], d[1]) for d in dec[pre[(ra, rb)]]], tr, g['q'])
            run(m, piece, tr, where)
            t = X.and_(xor(atom(('reg', ra)), atom(('reg', rb))), const(M32))
            mp0, base0 = atom(('undef', 5)), atom(('undef', 7))
            if ver == 'v1':
                new = xor(ror(mp0, const(32)), t)
                pf = add(X.and_(new, const(mask)), base0)
            else:
                new = ror(xor(mp0, t), const(32))
                pf = add(X.and_(xor(mp0, t), const(mask)), base0)
            rd = add(X.and_(mp0, const(mask)), base0)
            tag = '%s readReg r%d,r%d ' % (ver, ra, rb)
            compare(tag + 'mx:ma (rbp)', m.get(5), new, where, tr, obs_mp)
            compare(tag + 'dataset base (rdi)', m.get(7), base0, where, tr)
            compare(tag + 'scratchpad base (rsi)', m.get(6), atom(('spad',)), where, tr)
            for k in range(8):
                compare(tag + 'r%d' % k, m.get(8 + k), xor(atom(('reg', k)), X.ld64(add(rd, const(8 * k)))), where, tr)
            # the prefetch is a hint: another address (or none) costs time and changes no result, so it is reported as a note only
            if len(m.prefetch) != 1 or bitlin.decide(m.prefetch[0], pf)[0] != 'eq':
                R.note('X86-DSREAD-HSEM: %sthe prefetch does not address base + (new mx & mask) (%s) - a performance matter, not a result' % (tag, ', '.join(T.term_show(x, None) for x in m.prefetch) or 'no prefetch'))
            if m.stores:
                nviol += 1
                R.violation(tag + 'stores', where, expected='no store', found='%d stores' % len(m.stores))
    # light mode: init piece, `add ebx, datasetOffset / 64`, call, fin piece
    gl = None
    for ver, s_init in (('v1', 'randomx_program_read_dataset_sshash_init'), ('v2', 'randomx_program_read_dataset_sshash_init_v2')):
        where = 'src/jit_compiler_x86_static.S:%s' % s_init
        init = [(i[1], i[2]) for i in _frag(o, 'X86-DSREAD-HSEM', s_init)]
        fin = [(i[1], i[2]) for i in _frag(o, 'X86-DSREAD-HSEM', 'randomx_program_read_dataset_sshash_fin')]
        (ra, rb) = (2, 7)
        m = Mc()
        tr = []
        run(m, [(d[0], d[1]) for d in dec[pre[(ra, rb)]]], tr, g['q'])
        run(m, init, tr, where)
        t = X.and_(xor(atom(('reg', ra)), atom(('reg', rb))), const(M32))
        mp0, sp0 = atom(('undef', 5)), atom(('undef', 4))
        new = xor(ror(mp0, const(32)), t) if ver == 'v1' else ror(xor(mp0, t), const(32))
        tag = 'light %s ' % ver
        compare(tag + 'mx:ma (rbp)', m.get(5), new, where, tr, obs_mp)
        compare(tag + 'item number before the offset (ebx)', m.get(3), V.srl(X.and_(mp0, const(mask)), 6), where, tr)
        saved = {}
        for a, v in m.stores:
            saved[a] = v
        # after the call: r8..r15 hold the item, everything the SuperscalarHash code may change is unknown except rsp / rbp / rsi / rdi (A64-/X86-DSITEM's obligation: registers of the item code)
        slots = {}
        for k in range(8):
            hit = [a for a, v in saved.items() if v == atom(('reg', k))]
            if len(hit) != 1:
                nviol += 1
                R.violation(tag + 'r%d saved once' % k, where, expected='one stack slot holds r%d across the call' % k, found='%d slots' % len(hit))
                continue
            slots[k] = hit[0]
        hb = [a for a, v in saved.items() if v == atom(('undef', 3))]
        if len(slots) < 8:
            continue
        m2 = Mc()
        for k in range(8):
            m2.r[8 + k] = atom(('item', k))
        tr2 = []
        run(m2, fin, tr2, 'randomx_program_read_dataset_sshash_fin')
        for k in range(8):
            want = xor(atom(('item', k)), X.ld64(slots[k]))
            compare(tag + 'r%d after the call' % k, m2.get(8 + k), want, 'src/jit_compiler_x86_static.S:randomx_program_read_dataset_sshash_fin', tr2)
        if len(hb) == 1:
            compare(tag + 'rbx restored', m2.get(3), X.ld64(hb[0]), 'src/jit_compiler_x86_static.S:randomx_program_read_dataset_sshash_fin', tr2)
        else:
            nviol += 1
            R.violation(tag + 'rbx saved once', where, expected='one stack slot holds the caller\'s rbx across the call', found='%d slots' % len(hb))
    if undecided and not nviol:
        raise AnalysisBroken('X86-DSREAD-HSEM: ' + undecided[0])
    for u in undecided:
        R.note('X86-DSREAD-HSEM: ' + u)


# ---------------------------------------------------------------------------------------------------------------------------
# [X86-SPMIX-HSEM] the two scratchpad addresses of an iteration (specification 4.6.2 step 1) in the x86-64 back-end
AXDX = {'rax': 'rax', 'eax': 'rax', 'ax': 'rax', 'al': 'rax', 'ah': 'rax', 'rdx': 'rdx', 'edx': 'rdx', 'dx': 'rdx', 'dl': 'rdx', 'dh': 'rdx'}


def rule_spmix(ctx, R):
    import astq
    from rules import x86hsem as X
    from rules import rvhsem as V
    from rules import a64hsem as T
    from rules import bitlin
    from rules.a64hsem import const, atom, xor, ror
    if X.STRICT_FAMILY:
        R.note('rule_spmix (x86) skipped: RXVERIF_STRICT_FAMILY=1 (evaluation on terms switched off, see DESIGN.md 9.2)')
        return
    R.rule('X86-SPMIX-HSEM', 'the two scratchpad addresses of an iteration in the x86-64 back-end (specification 4.6.2 step 1): the bytes the epilogue generator emits for readReg0 ^ readReg1 followed by the hand-written '
           'piece up to randomx_prefetch_scratchpad_end, executed on terms, leave rax = low half and rdx = high half of the 64-bit XOR, each under ScratchpadL3Mask64; the prologue leaves mx and ma there for the first '
           'iteration and rbp = ma in the low half; the loop head reads the integer registers at rsi + rax and the floating-point registers at rsi + rdx; the three end-of-iteration fragments give rax and rdx back '
           'as they found them (a write or a call in between must be bracketed by a save to and a restore from the same stack slot)', min_instances=20)
    FI = astq.Facts(ctx, 'K0')
    mask = FI.const('randomx::ScratchpadL3Mask64')
    g, emit = _readreg_prefix(ctx, 'X86-SPMIX-HSEM', fn='generateProgramEpilogue', names=('readReg0', 'readReg1'))
    R.saw(fn=g['q'])
    o = ctx.obj('x86')
    R.saw(unit='src/jit_compiler_x86_static.S', config='K0')
    Mc = _ds_machine()
    pairs = ((0, 1), (2, 7), (5, 5), (7, 3))
    pre = {p: emit(*p) for p in pairs}
    dec = X.disassemble(list(pre.values()))
    undecided, nviol = [], [0]

    def compare(inst, got, want, where, tr):
        verdict, how = bitlin.decide(got, want)
        if verdict == 'eq':
            R.ok(inst, where)
        elif verdict == 'unknown':
            undecided.append('%s is %s, the specification says %s; equivalence undecided' % (inst, T.term_show(got, None), T.term_show(want, None)))
        else:
            nviol[0] += 1
            R.violation(inst, where, expected=T.term_show(want, None), found='%s after `%s`; %s' % (T.term_show(got, None), ' ; '.join(tr[-8:]), how))

    where = 'src/jit_compiler_x86_static.S:randomx_prefetch_scratchpad'
    piece = [(i[1], i[2]) for i in o.between('randomx_prefetch_scratchpad', 'randomx_prefetch_scratchpad_end')]
    if not piece:
        raise AnalysisBroken('X86-SPMIX-HSEM: randomx_prefetch_scratchpad is empty')
    for (ra, rb) in pairs:
        m = Mc()
        tr = []
        for mn, ops, _n, _o in dec[pre[(ra, rb)]]:
            if not m.step(mn, ops):
                raise AnalysisBroken('X86-SPMIX-HSEM: generated instruction `%s %s` has no meaning in the term machine' % (mn, ops))
            tr.append('%s %s' % (mn, ops))
        for mn, ops in piece:
            if not m.step(mn, ops):
                raise AnalysisBroken('X86-SPMIX-HSEM: instruction `%s %s` of randomx_prefetch_scratchpad has no meaning in the term machine' % (mn, ops))
            tr.append('%s %s' % (mn, ops))
        mix = xor(atom(('reg', ra)), atom(('reg', rb)))
        tag = 'readReg r%d,r%d ' % (ra, rb)
        compare(tag + 'spAddr0 (rax)', m.get(0), X.and_(mix, const(mask)), where, tr)
        compare(tag + 'spAddr1 (rdx)', m.get(2), X.and_(V.srl(mix, 32), const(mask)), where, tr)
        for k in range(8):
            compare(tag + 'r%d unchanged' % k, m.get(8 + k), atom(('reg', k)), where, tr)
        compare(tag + 'mx:ma (rbp) unchanged', m.get(5), atom(('undef', 5)), where, tr)
        if m.stores:
            nviol[0] += 1
            R.violation(tag + 'stores', where, expected='no store', found='%d stores' % len(m.stores))
    # first iteration: the prologue, from the load of mx:ma to the jump into the loop
    pro = _frag(o, 'X86-SPMIX-HSEM', 'randomx_program_prologue')
    where = 'src/jit_compiler_x86_static.S:randomx_program_prologue'
    k0 = next((k for k, i in enumerate(pro) if i[1] == 'mov' and re.match(r'^rbp\s*,\s*QWORD PTR \[rsi\]$', re.sub(r'\s*#.*$', '', i[2]).strip())), None)
    k1 = next((k for k, i in enumerate(pro) if i[1] == 'jmp'), None)
    if k0 is None or k1 is None or k1 < k0:
        raise AnalysisBroken('X86-SPMIX-HSEM: `mov rbp, [rsi]` ... `jmp` not found in the prologue')
    m = Mc()
    m.r[6] = atom(('undef', 6))
    tr = []
    for off, mn, ops, raw in pro[k0:k1]:
        ops_ = re.sub(r'\s*#.*$', '', ops)
        p0 = ops_.split(',')[0].strip() if ops_ else ''
        if p0.startswith('xmm') or mn.startswith('prefetch'):
            continue
        if mn == 'xor' and len(ops_.split(',')) == 2 and ops_.split(',')[0].strip() == ops_.split(',')[1].strip() and p0 in X.REG64:
            m.r[X.REG64[p0]] = const(0)
            continue
        if mn == 'and' and p0 in X.REG32 and X.REG32[p0] >= 8:
            m.r[X.REG32[p0]] = atom(('undef', 100 + X.REG32[p0]))       # prefetch addresses of the prologue: not part of this rule
            continue
        if mn == 'mov' and p0 in X.REG32 and X.REG32[p0] >= 8:
            m.r[X.REG32[p0]] = atom(('undef', 100 + X.REG32[p0]))
            continue
        if not m.step(mn, ops_):
            raise AnalysisBroken('X86-SPMIX-HSEM: prologue instruction `%s %s` has no meaning in the term machine' % (mn, ops_))
        tr.append('%s %s' % (mn, ops_))
    mem0 = X.ld64(atom(('undef', 6)))
    compare('first iteration spAddr0 (rax) = mx', m.get(0), X.and_(mem0, const(mask)), where, tr)
    compare('first iteration spAddr1 (rdx) = ma', m.get(2), X.and_(V.srl(mem0, 32), const(mask)), where, tr)
    compare('first iteration rbp = mx:ma with ma in the low half', m.get(5), ror(mem0, const(32)), where, tr)
    # the loop head: which register addresses which group
    ev, slots = _walk(_frag(o, 'X86-SPMIX-HSEM', 'randomx_program_loop_load'))
    il = {e[2] for e in ev if e[1] == 'load' and e[4] == 'xor' and re.match(r'^r(8|9|1[0-5])$', e[5])}
    fl = {e[2] for e in ev if e[1] == 'load' and e[4].startswith('cvtdq2pd')}
    src = 'src/asm/program_loop_load.inc'
    if len(il) == 1 and len(fl) == 1 and all(x.startswith('lea@') for x in il | fl):
        ia, fa = re.search(r'\[(.*)\]', list(il)[0]).group(1), re.search(r'\[(.*)\]', list(fl)[0]).group(1)

        def regs(t):
            return sorted(x.split('*')[0] for x in t.replace(' ', '').split('+'))
        R.check(regs(ia) == ['rax', 'rsi'], 'integer registers are read at rsi + rax (spAddr0)', src, expected='lea [rsi+rax]', found=ia)
        R.check(regs(fa) == ['rdx', 'rsi'], 'floating-point registers are read at rsi + rdx (spAddr1)', src, expected='lea [rsi+rdx]', found=fa)
    else:
        raise AnalysisBroken('X86-SPMIX-HSEM: the load half of the loop does not form its two addresses by `lea` (%s / %s)' % (sorted(il), sorted(fl)))
    # the end-of-iteration fragments give rax / rdx back
    for sym in ('randomx_program_loop_store', 'randomx_program_loop_store_hard_aes', 'randomx_program_loop_store_soft_aes'):
        state = {'rax': ('ok',), 'rdx': ('ok',)}
        saved = {}
        whr = 'src/jit_compiler_x86_static.S:%s' % sym
        for off, mn, ops, raw in _frag(o, 'X86-SPMIX-HSEM', sym):
            ops_ = re.sub(r'\s*#.*$', '', ops)
            p = [x.strip() for x in ops_.split(',')] if ops_ else []
            md = _mem(p[0]) if p else None
            if mn == 'mov' and len(p) == 2 and md and md[0] == 'rsp':
                if p[1] in ('rax', 'rdx') and state[p[1]] == ('ok',):
                    saved[md[1]] = p[1]
                else:
                    saved.pop(md[1], None)
                continue
            if mn == 'mov' and len(p) == 2 and p[0] in ('rax', 'rdx') and _mem(p[1]) and _mem(p[1])[0] == 'rsp':
                k = _mem(p[1])[1]
                state[p[0]] = ('ok',) if saved.get(k) == p[0] else ('clobbered', '%s %s (slot %d holds %s)' % (mn, ops_, k, saved.get(k, 'something else')))
                continue
            if mn == 'call':
                for r_ in ('rax', 'rdx'):
                    state[r_] = ('clobbered', 'call (caller-saved register)')
                continue
            if mn in ('mul', 'div', 'idiv', 'cqo', 'cdq', 'cpuid', 'rdtsc') or (mn == 'imul' and len(p) == 1):
                for r_ in ('rax', 'rdx'):
                    state[r_] = ('clobbered', '%s %s' % (mn, ops_))
                continue
            if mn in ('push', 'sub', 'add') and p and p[0] == 'rsp' or mn in ('push', 'pop'):
                raise AnalysisBroken('X86-SPMIX-HSEM: %s moves the stack pointer (`%s %s`); slot tracking not possible' % (sym, mn, ops_))
            if p and p[0] in AXDX and mn not in ('cmp', 'test'):
                state[AXDX[p[0]]] = ('clobbered', '%s %s' % (mn, ops_))
            if mn == 'xchg' and len(p) == 2 and p[1] in AXDX:
                state[AXDX[p[1]]] = ('clobbered', '%s %s' % (mn, ops_))
        for r_ in ('rax', 'rdx'):
            R.check(state[r_] == ('ok',), '%s leaves %s (%s) as it found it' % (sym, r_, 'spAddr0' if r_ == 'rax' else 'spAddr1'), whr,
                    expected='not written, or saved to and restored from one stack slot', found='last write: %s' % state[r_][1] if len(state[r_]) > 1 else 'intact')
    if undecided and not nviol[0]:
        raise AnalysisBroken('X86-SPMIX-HSEM: ' + undecided[0])
    for u in undecided:
        R.note('X86-SPMIX-HSEM: ' + u)
