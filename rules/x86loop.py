"""[X86-LOOPSTORE] the end-of-iteration stores of the hand-written x86-64 loop (specification 4.6.2 steps 9-11).

Step 9 writes r0-r7 to the scratchpad at spAddr1, step 11 writes f0-f3 at spAddr0.  The two addresses can select the same 64-byte line (both are 64-byte aligned
L3 addresses), and then the line must end up holding f0-f3: the integer stores have to come first.  Which stack slot holds which address is read off the load half
of the loop (the slot whose address the integer XOR loads use is spAddr0, the one of the floating-point loads is spAddr1).
"""
import re

from core import AnalysisBroken

GPR = ('rax', 'rbx', 'rcx', 'rdx', 'rsi', 'rdi', 'rbp', 'r8', 'r9', 'r10', 'r11', 'r12', 'r13', 'r14', 'r15')


def _mem(op):
    m = re.match(r'^(?:QWORD|XMMWORD|DWORD) PTR \[(\w+)(?:\+(0x[0-9a-f]+|\d+))?\]$', op.strip())
    if not m:
        return None
    return m.group(1), int(m.group(2), 0) if m.group(2) else 0


def _walk(insns):
    """yields (index, kind, ...) events: ('store', base provenance, offset, source register) / ('load', base provenance, offset, mnemonic)"""
    prov = {}
    slots = {}
    ev = []
    for idx, (off, mn, ops, raw) in enumerate(insns):
        p = [x.strip() for x in ops.split(',')] if ops else []
        if mn == 'lea' and len(p) == 2 and p[0] in GPR:
            prov[p[0]] = 'lea@%d:%s' % (idx, p[1])
            continue
        if mn == 'mov' and len(p) == 2:
            md, ms = _mem(p[0]), _mem(p[1])
            if md and md[0] == 'rsp' and p[1] in GPR:
                slots[md[1]] = prov.get(p[1], 'in:%s' % p[1])
                continue
            if ms and ms[0] == 'rsp' and p[0] in GPR:
                prov[p[0]] = slots.get(ms[1], 'slot:%d' % ms[1])
                continue
            if md and md[0] != 'rsp' and (p[1] in GPR):
                ev.append((idx, 'store', prov.get(md[0], 'in:%s' % md[0]), md[1], p[1]))
                continue
            if p[0] in GPR:
                prov[p[0]] = prov.get(p[1], 'other@%d' % idx) if p[1] in GPR else 'other@%d' % idx
                continue
        if mn in ('movapd', 'movaps', 'movdqa', 'movupd') and len(p) == 2:
            md = _mem(p[0])
            if md and md[0] != 'rsp' and p[1].startswith('xmm'):
                ev.append((idx, 'store', prov.get(md[0], 'in:%s' % md[0]), md[1], p[1]))
                continue
        if len(p) == 2 and _mem(p[1]) and _mem(p[1])[0] != 'rsp':
            ms = _mem(p[1])
            ev.append((idx, 'load', prov.get(ms[0], 'in:%s' % ms[0]), ms[1], mn, p[0]))
        if p and p[0] in GPR and mn not in ('cmp', 'test', 'push'):
            prov[p[0]] = 'other@%d' % idx
    return ev, slots


def rule_loopstore(ctx, R):
    R.rule('X86-LOOPSTORE', 'in each of the three end-of-iteration fragments of the x86-64 runtime (plain, hardware AES, software AES) r0-r7 are stored at spAddr1 (register 8+j at offset 8j), f0-f3 at spAddr0 '
           '(xmm j at offset 16j), and every integer store precedes every floating-point store - when the two addresses select the same scratchpad line it must end up holding f0-f3 (specification 4.6.2 steps 9 and 11); '
           'the stack slots of the two addresses are identified from the load half of the loop', min_instances=9)
    o = ctx.obj('x86')
    R.saw(unit='src/jit_compiler_x86_static.S', config='K0')
    order = sorted((a, n) for n, a in o.symbols.items() if n.startswith('randomx_program_') or n.startswith('_randomx_program_'))

    def frag(name):
        a = o.sym(name)
        nxt = [x for x, n in order if x > a]
        if not nxt:
            raise AnalysisBroken('X86-LOOPSTORE: no symbol after %s' % name)
        return o.between(a, nxt[0])
    ev, slots = _walk(frag('randomx_program_loop_load'))
    int_l = {e[2] for e in ev if e[1] == 'load' and e[4] == 'xor' and e[5] in ('r8', 'r9', 'r10', 'r11', 'r12', 'r13', 'r14', 'r15')}
    fp_l = {e[2] for e in ev if e[1] == 'load' and e[4].startswith('cvtdq2pd')}
    if len(int_l) != 1 or len(fp_l) != 1:
        raise AnalysisBroken('X86-LOOPSTORE: the load half of the loop does not use one address for the integer and one for the floating-point loads (%s / %s)' % (sorted(int_l), sorted(fp_l)))
    sp0 = [k for k, v in slots.items() if v == list(int_l)[0]]
    sp1 = [k for k, v in slots.items() if v == list(fp_l)[0]]
    if len(sp0) != 1 or len(sp1) != 1 or sp0 == sp1:
        raise AnalysisBroken('X86-LOOPSTORE: the stack slots of spAddr0 / spAddr1 were not identified')
    sp0, sp1 = 'slot:%d' % sp0[0], 'slot:%d' % sp1[0]
    R.ok('loop_load: spAddr0 in [rsp+%s], spAddr1 in [rsp+%s]' % (sp0[5:], sp1[5:]), 'src/asm/program_loop_load.inc')
    for name, src in (('randomx_program_loop_store', 'src/asm/program_loop_store.inc'), ('randomx_program_loop_store_hard_aes', 'src/asm/program_loop_store_hard_aes.inc'),
                      ('randomx_program_loop_store_soft_aes', 'src/asm/program_loop_store_soft_aes.inc')):
        ev, _ = _walk(frag(name))
        st = [e for e in ev if e[1] == 'store']
        ints = [e for e in st if not e[4].startswith('xmm')]
        fps = [e for e in st if e[4].startswith('xmm')]
        want_i = sorted((sp1, 8 * j, 'r%d' % (8 + j)) for j in range(8))
        want_f = sorted((sp0, 16 * j, 'xmm%d' % j) for j in range(4))
        R.check(sorted((e[2], e[3], e[4]) for e in ints) == want_i, '%s: integer registers at spAddr1' % name, src, expected='r(8+j) at [spAddr1 + 8j], j = 0..7', found=sorted((e[2], e[3], e[4]) for e in ints))
        R.check(sorted((e[2], e[3], e[4]) for e in fps) == want_f, '%s: f registers at spAddr0' % name, src, expected='xmm j at [spAddr0 + 16j], j = 0..3', found=sorted((e[2], e[3], e[4]) for e in fps))
        if ints and fps:
            R.check(max(e[0] for e in ints) < min(e[0] for e in fps), '%s: integer stores before floating-point stores' % name, src,
                    expected='every store of step 9 before every store of step 11', found='last integer store is instruction %d, first floating-point store is instruction %d of the fragment' % (max(e[0] for e in ints), min(e[0] for e in fps)))


def rule_loopload(ctx, R):
    R.rule('X86-LOOPLOAD', 'the load half of the x86-64 loop (specification 4.6.2 steps 2-3): r(8+j) ^= the j-th quadword at spAddr0 for j = 0..7, f0-f3 / e0-e3 are converted from the eight 8-byte groups at spAddr1 '
           '(xmm j from offset 8j), only the four e registers pass through the and / or masks, and the two addresses are scratchpad base + the two halves of spMix', min_instances=5)
    o = ctx.obj('x86')
    R.saw(unit='src/jit_compiler_x86_static.S', config='K0')
    order = sorted((a, n) for n, a in o.symbols.items() if n.startswith('randomx_program_') or n.startswith('_randomx_program_'))
    a = o.sym('randomx_program_loop_load')
    nxt = [x for x, n in order if x > a]
    ins = o.between(a, nxt[0])
    src = 'src/asm/program_loop_load.inc'
    ev, slots = _walk(ins)
    xl = [e for e in ev if e[1] == 'load' and e[4] == 'xor']
    cl = [e for e in ev if e[1] == 'load' and e[4].startswith('cvtdq2pd')]
    R.check(sorted((e[3], e[5]) for e in xl) == [(8 * j, 'r%d' % (8 + j)) for j in range(8)] and len({e[2] for e in xl}) == 1, 'integer registers', src,
            expected='r(8+j) ^= [spAddr0 + 8j], j = 0..7, one base', found=sorted((e[3], e[5]) for e in xl))
    R.check(sorted((e[3], e[5]) for e in cl) == [(8 * j, 'xmm%d' % j) for j in range(8)] and len({e[2] for e in cl}) == 1, 'floating-point registers', src,
            expected='xmm j = convert([spAddr1 + 8j]), j = 0..7, one base', found=sorted((e[3], e[5]) for e in cl))
    if xl and cl:
        pa, pb = xl[0][2], cl[0][2]
        ma_, mb_ = re.search(r'\[(.*)\]', pa), re.search(r'\[(.*)\]', pb)
        ra = sorted(ma_.group(1).replace(' ', '').split('+')) if ma_ and pa.startswith('lea@') else None
        rb = sorted(mb_.group(1).replace(' ', '').split('+')) if mb_ and pb.startswith('lea@') else None
        if ra is None or rb is None:
            R.note('X86-LOOPLOAD: the two scratchpad addresses are not formed by `lea`; their composition is not decided (%s / %s)' % (pa, pb))
        else:
            R.check('rsi' in ra and 'rsi' in rb and ra != rb and len(ra) == 2 and len(rb) == 2, 'addresses', src,
                    expected='scratchpad base (rsi) + one register each, two different registers', found='%s / %s' % (pa, pb))
    masked = {}
    for off, mn, ops, raw in ins:
        p = [x.strip() for x in ops.split(',')] if ops else []
        if mn in ('andps', 'andpd', 'orps', 'orpd', 'pand', 'por') and len(p) == 2 and p[0].startswith('xmm'):
            masked.setdefault(p[0], []).append((mn[:2] if mn[0] != 'p' else mn[1:3], p[1]))
    want = {'xmm%d' % j for j in range(4, 8)}
    shapes = {tuple(k for k, _ in v) for v in masked.values()}
    R.check(set(masked) == want and len(shapes) == 1 and sorted(list(shapes)[0]) == ['an', 'or'], 'e-register masks', src,
            expected='and-mask then or-mask on xmm4..xmm7 only', found={k: v for k, v in sorted(masked.items())})
    srcs = {(k, r) for v in masked.values() for k, r in v}
    R.check(len({r for k, r in srcs if k == 'an'}) == 1 and len({r for k, r in srcs if k == 'or'}) == 1, 'one and-mask and one or-mask register', src, expected='the same two mask registers for all four', found=sorted(srcs))
