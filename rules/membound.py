"""MEM-SPADDR (typestate of loop addresses), MEM-DSBOUND (interval bounds of dataset accesses), B2-INBOUND (Blake2b reads only the given input bytes)."""
import re

import astq
from astq import CFG, calls, loc, show, showv, strip_all, val, walk
from core import AnalysisBroken
from rules.driver import loop_trip, ref_id

ACCESS_SIZE = {'load64': 8, 'load64_native': 8, 'store64': 8, 'store64_native': 8, 'rx_cvt_packed_int_vec_f128': 8, '_mm_store_pd': 16, 'rx_store_vec_f128': 16,
               '_mm_load_pd': 16, 'rx_load_vec_f128': 16, 'load32': 4, 'store32': 4, '_mm_prefetch': 0}


def ranges_of_loop_vars(f):
    out = {}
    for x in walk(f['body']):
        if x['k'] == 'For':
            t = loop_trip(x)
            if t is not None and x['init']['k'] == 'Decl':
                d = x['init']['d'][0]
                out[d['id']] = (val(d['init']), val(d['init']) + t - 1)
    return out


def ival(n, env):
    """(lo, hi) of a non-negative integer expression, or None"""
    n = strip_all(n)
    if 'v' in n and n['k'] != 'Ref':
        return (n['v'], n['v'])
    k = n['k']
    if k == 'Ref':
        if n.get('id') in env:
            return env[n['id']]
        if 'v' in n:
            return (n['v'], n['v'])
        return None
    if k == 'Mem':
        s = show(n)
        return env.get(s)
    if k == 'Bin':
        op = n['op']
        a, b = ival(n['l'], env), ival(n['r'], env)
        if op == '&':
            c = val(n['r']) if val(n['r']) is not None else val(n['l'])
            if c is not None and c >= 0:
                return (0, c)
        if op == '%' and b is not None and b[0] == b[1] and b[0] > 0:
            return (0, b[0] - 1)
        if a is None or b is None:
            return None
        if op == '+':
            return (a[0] + b[0], a[1] + b[1])
        if op == '*' and a[0] >= 0 and b[0] >= 0:
            return (a[0] * b[0], a[1] * b[1])
        if op == '/' and b[0] == b[1] and b[0] > 0:
            return (a[0] // b[0], a[1] // b[0])
    if k == 'Cond':
        a, b = ival(n['t'], env), ival(n['f'], env)
        if a and b:
            return (min(a[0], b[0]), max(a[1], b[1]))
    return None


def rule_spaddr(ctx, R, F):
    R.rule('MEM-SPADDR', 'typestate of spAddr0 / spAddr1 in InterpretedVm::execute over the CFG: Unmasked after any assignment from a non-constant, Masked(c) after `&= c` or `= 0`; '
           'every scratchpad + spAddrK + offset access requires Masked(c) with c + max offset + access size <= ScratchpadSize', min_instances=20)
    size = F.const('randomx::ScratchpadSize')
    for f in F.funcs(r'^randomx::InterpretedVm<.*>::execute$'):
        R.saw(fn=f['q'], unit=f['_unit'])
        g = CFG(f)
        lv = ranges_of_loop_vars(f)
        track = {}
        for x in walk(f['body']):
            if x['k'] == 'Decl':
                for d in x['d']:
                    if d['name'].startswith('spAddr') or (d.get('ty') == 'unsigned int' and 'init' in d and re.search(r'mem\.(mx|ma)$', show(d['init']))):
                        track[d['id']] = d['name']
        if len(track) != 2:
            raise AnalysisBroken('MEM-SPADDR: expected two scratchpad loop addresses in %s, found %s' % (f['q'], sorted(track.values())))
        # forward dataflow: state[var] = ('M', c) | ('U',)
        n = len(g.nodes)
        IN = [None] * n
        OUT = [None] * n

        def join(a, b):
            if a is None:
                return b
            if b is None:
                return a
            out = {}
            for v in track:
                x, y = a.get(v, ('U',)), b.get(v, ('U',))
                out[v] = ('M', max(x[1], y[1])) if x[0] == 'M' and y[0] == 'M' else ('U',)
            return out

        def transfer(node, st):
            st = dict(st)
            s = node['stmt']
            if s is None or node['kind'] in ('label', 'catch', 'jump'):
                return st
            tops = [s] if s.get('k') != 'Decl' else []
            if s.get('k') == 'Decl':
                for d in s['d']:
                    if d['id'] in track:
                        c = val(d['init']) if 'init' in d else None
                        st[d['id']] = ('M', c) if c is not None else ('U',)
                return st
            for x in walk(s):
                if x['k'] in ('Assign', 'CAssign'):
                    vid = ref_id(x['l'])
                    if vid in track:
                        if x['k'] == 'Assign':
                            c = val(x['r'])
                            st[vid] = ('M', c) if c is not None and c >= 0 else ('U',)
                        elif x['op'] == '&=' and val(x['r']) is not None and val(x['r']) >= 0:
                            st[vid] = ('M', val(x['r']))
                        else:
                            st[vid] = ('U',)
                if x['k'] == 'Un' and x['op'] in ('++', '--') and ref_id(x['e']) in track:
                    st[ref_id(x['e'])] = ('U',)
            return st
        IN[g.entry] = {v: ('U',) for v in track}
        work = [g.entry]
        iters = 0
        while work:
            iters += 1
            if iters > 20000:
                raise AnalysisBroken('MEM-SPADDR: dataflow did not converge')
            x = work.pop()
            out = transfer(g.nodes[x], IN[x])
            if out != OUT[x]:
                OUT[x] = out
                for s_ in g.succ[x]:
                    new = join(IN[s_], out) if IN[s_] is not None else out
                    if new != IN[s_]:
                        IN[s_] = new
                        work.append(s_)
                    elif OUT[s_] is None:
                        work.append(s_)
        uses = 0
        for node in g.nodes:
            s = node['stmt']
            if s is None or IN[node['id']] is None or node['kind'] in ('label', 'catch', 'jump'):
                continue
            for c in calls(s):
                sz = ACCESS_SIZE.get(c.get('name'))
                if sz is None:
                    continue
                for a in c.get('a', []):
                    refs = [y for y in walk(a) if y['k'] == 'Ref' and y.get('id') in track]
                    if not refs or 'scratchpad' not in show(a):
                        continue
                    uses += 1
                    vid = refs[0]['id']
                    stv = IN[node['id']].get(vid, ('U',))
                    # offset = everything added besides scratchpad and spAddr
                    aa = strip_all(a)
                    env = dict(lv)
                    env[vid] = (0, 0)
                    off = None
                    terms = []

                    def flat(e):
                        e = strip_all(e)
                        if e['k'] == 'Bin' and e['op'] == '+':
                            flat(e['l'])
                            flat(e['r'])
                        else:
                            terms.append(e)
                    flat(aa)
                    offhi = 0
                    okterms = True
                    for t in terms:
                        if show(t) == 'this->scratchpad' or (t['k'] == 'Ref' and t.get('id') == vid):
                            continue
                        iv = ival(t, env)
                        if iv is None:
                            okterms = False
                        else:
                            offhi += iv[1]
                    inst = '%s: %s(scratchpad + %s + ...)@%s' % (f['q'].split('::')[1][:40], c['name'], track[vid], c.get('ln'))
                    if stv[0] != 'M':
                        R.violation(inst, loc(c, f), expected='%s masked on every path to this access' % track[vid], found='Unmasked on some path')
                    else:
                        R.check(okterms and stv[1] + offhi + sz <= size, inst, loc(c, f), expected='mask %d + offset + %d <= %d' % (stv[1], sz, size), found='offset <= %s' % (offhi if okterms else 'unbounded'))
        if uses < 5:
            raise AnalysisBroken('MEM-SPADDR: only %d scratchpad accesses through loop addresses in %s' % (uses, f['q']))


def rule_dsbound(ctx, R, F):
    R.rule('MEM-DSBOUND', 'interval arithmetic: datasetOffset <= DatasetExtraItems*64, (ma & CacheLineAlignMask) <= base - 64, so every dataset read / prefetch address + 64 <= DatasetSize '
           '(the size passed to the dataset allocator); light mode: item number = address / 64 < dataset item count', min_instances=8)
    ds = F.const('randomx::DatasetSize')
    cl = F.const('randomx::CacheLineSize')
    f = F.func('randomx_vm::initialize')
    asg = [x for x in walk(f['body']) if x['k'] == 'Assign' and show(x['l']) == 'this->datasetOffset']
    if len(asg) != 1:
        raise AnalysisBroken('MEM-DSBOUND: datasetOffset assignment not found in randomx_vm::initialize')
    off = ival(asg[0]['r'], {})
    R.check(off is not None and off[1] + cl <= ds, 'datasetOffset range', loc(asg[0], f), expected='bounded by the extra items', found='[%s, %s]' % (off if off else (None, None)))
    exp_hi = F.const('randomx::DatasetExtraItems') * cl
    R.check(off is not None and off[1] == exp_hi, 'datasetOffset maximum', loc(asg[0], f), expected=exp_hi, found=off[1] if off else None)
    ma = [x for x in walk(f['body']) if x['k'] == 'Assign' and show(x['l']) == 'this->mem.ma']
    mav = ival(ma[0]['r'], {}) if ma else None
    clam = F.const('randomx::CacheLineAlignMask')
    base = int(F.macro('RANDOMX_DATASET_BASE_SIZE')['body'])
    R.check(clam == (base - 1) & ~(cl - 1) and clam + cl <= base, 'CacheLineAlignMask', 'src/common.hpp', expected='(base-1) & ~63 = %#x' % ((base - 1) & ~(cl - 1)), found=hex(clam))
    for ex in F.funcs(r'^randomx::InterpretedVm<.*>::execute$'):
        env = {'this->datasetOffset': off}
        locals_ = {}
        n = 0
        for x in walk(ex['body']):
            if x['k'] == 'Decl':
                for d in x['d']:
                    if 'init' in d and d.get('ty') in ('const unsigned long', 'unsigned long'):
                        iv = ival(d['init'], dict(env, **locals_))
                        if iv:
                            locals_[d['id']] = iv
            if x['k'] == 'Call' and x.get('name') in ('datasetRead', 'datasetPrefetch'):
                n += 1
                iv = ival(x['a'][0], dict(env, **locals_))
                R.check(iv is not None and iv[1] + cl <= ds, '%s: %s address' % (ex['q'].split('::')[1][:40], x['name']), loc(x, ex), expected='address + %d <= DatasetSize = %d' % (cl, ds), found='[%s, %s]' % (iv if iv else (None, None)))
        if n < 2:
            raise AnalysisBroken('MEM-DSBOUND: dataset accesses not found in %s' % ex['q'])
    for rd in F.funcs(r'^randomx::InterpretedVm<.*>::datasetRead$'):
        loops = [x for x in walk(rd['body']) if x['k'] == 'For']
        ok = len(loops) == 1 and loop_trip(loops[0]) == 8 and 'unsigned long *' in [d['ty'] for x in walk(rd['body']) if x['k'] == 'Decl' for d in x['d']]
        R.check(ok, '%s reads 64 bytes' % rd['q'].split('::')[1][:40], '%s:%d' % (rd['file'], rd['line']), expected='8 x uint64 from memory + address', found=loop_trip(loops[0]) if loops else None)
    # compiled full mode folds the offset into the base pointer exactly once
    for run in F.funcs(r'^randomx::CompiledVm<.*>::run$'):
        asg = [x for x in walk(run['body']) if x['k'] == 'Assign' and show(x['l']) == 'this->mem.memory']
        ok = len(asg) == 1 and show(asg[0]['r']) == '(this->datasetPtr->memory + this->datasetOffset)'
        R.check(ok, '%s base pointer' % run['q'].split('::')[1][:40], '%s:%d' % (run['file'], run['line']), expected='mem.memory = datasetPtr->memory + datasetOffset', found=[show(x['r']) for x in asg])
    R.saw(config='K0')


# ---------------------------------------------------------------------------------------------
class LinForm:
    """integer linear form over named symbols"""

    def __init__(self, terms=None, k=0):
        self.t = {a: b for a, b in (terms or {}).items() if b}
        self.k = k

    def __add__(self, o):
        t = dict(self.t)
        for a, b in o.t.items():
            t[a] = t.get(a, 0) + b
        return LinForm(t, self.k + o.k)

    def __sub__(self, o):
        t = dict(self.t)
        for a, b in o.t.items():
            t[a] = t.get(a, 0) - b
        return LinForm(t, self.k - o.k)

    def const(self):
        return self.k if not self.t else None

    def __repr__(self):
        return ' + '.join(['%d*%s' % (b, a) for a, b in sorted(self.t.items())] + [str(self.k)])


def linform(n, env):
    n = strip_all(n)
    if 'v' in n and n['k'] != 'Ref':
        return LinForm(k=n['v'])
    if n['k'] == 'Ref':
        if n.get('id') in env:
            return env[n['id']]
        if 'v' in n:
            return LinForm(k=n['v'])
        return LinForm({n.get('id') or n.get('q'): 1})
    if n['k'] == 'Mem':
        return LinForm({show(n): 1})
    if n['k'] == 'Bin' and n['op'] in ('+', '-'):
        a, b = linform(n['l'], env), linform(n['r'], env)
        if a is None or b is None:
            return None
        return a + b if n['op'] == '+' else a - b
    return None


def rule_b2_inbound(ctx, R, F):
    """Every read from the message pointer in blake2b.c is covered by the remaining length."""
    R.rule('B2-INBOUND', 'in blake2b_update / blake2b every read of n bytes from the input pointer is either n = the remaining length itself or is dominated by a guard that implies n <= remaining '
           '(linear reasoning on buflen, inlen, fill), with no intervening change of the variables involved; the pointer and the remaining length advance by the same amount', min_instances=3)
    f = F.func('randomx_blake2b_update') if F.has_func('randomx_blake2b_update') else F.func('blake2b_update')
    R.saw(fn=f['q'], unit=f['_unit'])
    g = CFG(f)
    pin_ids = set()
    in_id = f['params'][1]['id']
    len_id = f['params'][2]['id']
    pin_ids.add(in_id)
    locals_def = {}
    for x in walk(f['body']):
        if x['k'] == 'Decl':
            for d in x['d']:
                if 'init' in d:
                    if ref_id(d['init']) in pin_ids:
                        pin_ids.add(d['id'])
                    locals_def[d['id']] = d
    # symbolic environment for locals defined once from linear expressions (left = S->buflen, fill = 128 - left)
    env = {}
    for did, d in locals_def.items():
        if did in pin_ids:
            continue
        lf = linform(d['init'], env)
        if lf is not None and d.get('const') is not False or lf is not None:
            env[did] = lf
    reads = []
    for node in g.nodes:
        s = node['stmt']
        if s is None or node['kind'] in ('label', 'catch', 'jump'):
            continue
        for c in calls(s):
            nm = c.get('name', '')
            if nm == 'memcpy' and ref_id(c['a'][1]) in pin_ids:
                reads.append((node['id'], c, c['a'][2], None))
            elif nm in ('blake2b_compress',) and len(c['a']) >= 2 and ref_id(c['a'][1]) in pin_ids:
                reads.append((node['id'], c, None, F.const('blake2b_constant::BLAKE2B_BLOCKBYTES') if F.has_glob('blake2b_constant::BLAKE2B_BLOCKBYTES') else 128))
            elif ref_id_any(c, pin_ids) and nm not in ('memcpy', 'blake2b_compress'):
                reads.append((node['id'], c, 'unknown', None))
    if len(reads) < 3:
        raise AnalysisBroken('B2-INBOUND: only %d reads from the input pointer found in blake2b_update' % len(reads))
    # guards: conditions of if/while nodes
    guards = []
    for node in g.nodes:
        if node['kind'] == 'cond' and node['stmt'] is not None:
            c = strip_all(node['stmt'])
            if c['k'] == 'Bin' and c['op'] in ('>', '>='):
                lf = linform(c['l'], env)
                rf = linform(c['r'], env)
                if lf is not None and rf is not None:
                    guards.append((node['id'], lf - rf, c['op'], node))
    writes = {}
    for node in g.nodes:
        s = node['stmt']
        if s is None:
            continue
        for x in walk(s):
            if x['k'] in ('Assign', 'CAssign'):
                writes.setdefault(ref_id(x['l']) or show(x['l']), []).append(node['id'])
    for nid, c, nexpr, nconst in reads:
        inst = 'blake2b_update: %s@%s' % (c.get('name'), c.get('ln'))
        if nexpr == 'unknown':
            R.violation(inst, loc(c, f), expected='input pointer only passed to memcpy / blake2b_compress', found=show(c)[:80])
            continue
        n = LinForm(k=nconst) if nexpr is None else linform(nexpr, env)
        if n is None:
            R.violation(inst, loc(c, f), expected='linear size expression', found=show(nexpr))
            continue
        remaining = LinForm({len_id: 1})
        slack = remaining - n          # must be >= 0
        if slack.const() is not None and slack.const() >= 0:
            R.ok(inst, loc(c, f), detail='reads exactly the remaining length')
            continue
        proved = False
        why = None
        for gid, gl, op, gnode in guards:
            if not g.dominates(gid, nid):
                continue
            # guard true edge must be the one leading here: the read is not reachable from the false successor
            # (approximation: the true successor dominates the read)
            succ = g.succ[gid]
            if not succ or not g.dominates(succ[0], nid):
                continue
            d = slack - gl
            if d.const() is not None and (d.const() >= 0 or (op == '>' and d.const() >= -1)):
                # no write to the variables of the guard between guard and read
                syms = set(gl.t) | set(slack.t)
                dirty = False
                for sym in syms:
                    for w in writes.get(sym, []):
                        if w != nid and g.paths_between(gid, w, set()) and g.paths_between(w, nid, {gid}):
                            dirty = True
                if not dirty:
                    proved = True
                    why = 'guard %s %s 0 at line %s' % (gl, op, gnode['stmt'].get('ln'))
        R.check(proved, inst, loc(c, f), expected='%s <= remaining input (slack %s >= 0 implied by a dominating guard)' % (n, slack), found=why or 'no dominating guard implies it')
    # the one-shot wrapper passes (in, inlen) unchanged and reads the input nowhere else
    w = F.func('randomx_blake2b') if F.has_func('randomx_blake2b') else F.func('blake2b')
    pid_in, pid_len = w['params'][2]['id'], w['params'][3]['id']
    uses = [x for x in walk(w['body']) if x['k'] == 'Ref' and x.get('id') == pid_in]
    upd = [c for c in calls(w['body']) if c.get('name', '').endswith('blake2b_update') and ref_id(c['a'][1]) == pid_in and ref_id(c['a'][2]) == pid_len]
    other = [c for c in calls(w['body']) if any(ref_id(a) == pid_in for a in c.get('a', [])) and c not in upd]
    R.check(len(upd) == 1 and not other, 'blake2b() forwards (in, inlen) to blake2b_update only', '%s:%d' % (w['file'], w['line']), expected='one blake2b_update(&S, in, inlen), no other use of the message pointer',
            found='%d updates, other uses: %s' % (len(upd), [show(c)[:60] for c in other]))


def ref_id_any(c, ids):
    return any(ref_id(a) in ids for a in c.get('a', []))
