"""[A64-IMMHELP] abstract interpretation of the two A64 immediate helpers.

emitMovImmediate(dst, imm) must leave sext64(imm32) in x{dst}; emitAddImmediate(dst, src, imm) must leave x{src} + sext64(imm32)
in x{dst} -- for every 32-bit imm and both states of the 32-bit literal table.  The 2^32 immediates are partitioned by the
positions of the highest and the lowest set bit (529 classes, known-bits values with the bits in between unknown); the
helper is executed path-sensitively in the known-bits domain (a condition that a class does not decide is analysis-broken,
never guessed), the emitted words are decoded by their constant opcode bits and given their architectural meaning on an
abstract register file (value = optional symbolic base + known-bits offset)."""
import astq
from astq import loc, show, strip_all, val, walk
from core import AnalysisBroken
from domains import KB, KBEval, type_info
from rules import jit
from report import memoised

M64 = (1 << 64) - 1


def sext64(kb32):
    return kb32.sext(64)


class Regs:
    def __init__(self):
        self.r = {}

    def get(self, n):
        if n == 31:
            return (None, KB.const(64, 0))
        return self.r.get(n, ('undef', None))


def apply_insn(w, regs, literals, where):
    """w: KB(32) instruction word with constant opcode bits; updates regs; returns mnemonic"""
    def field(lo, n):
        return w.lshr(lo).trunc(n) if hasattr(w, 'trunc') else None

    def cfield(lo, n):
        f = w.lshr(lo).trunc(n).value()
        if f is None:
            raise AnalysisBroken('A64-IMMHELP: register/selector field of %s is not constant at %s' % (w.hexpat(), where))
        return f
    top9 = w.lshr(23).trunc(9).value()
    if top9 is None:
        raise AnalysisBroken('A64-IMMHELP: opcode bits of %s are not constant at %s' % (w.hexpat(), where))
    rd = cfield(0, 5)
    if top9 in (0x1A5, 0x125, 0x1E5):            # MOVZ / MOVN / MOVK (64-bit)
        hw = cfield(21, 2)
        imm16 = w.lshr(5).trunc(16).zext(64).shl(16 * hw)
        if top9 == 0x1A5:
            regs.r[rd] = (None, imm16)
            return 'movz'
        if top9 == 0x125:
            regs.r[rd] = (None, ~imm16)
            return 'movn'
        base, cur = regs.get(rd)
        if base is not None or cur is None:
            raise AnalysisBroken('A64-IMMHELP: movk into a register without a known value at %s' % where)
        keep = KB.const(64, M64 & ~(0xffff << (16 * hw)))
        regs.r[rd] = (None, (cur & keep) | imm16)
        return 'movk'
    if top9 in (0x122, 0x123) or (w.lshr(24).trunc(8).value() == 0x91):   # ADD (immediate), 64-bit
        sh = cfield(22, 1)
        rn = cfield(5, 5)
        imm12 = w.lshr(10).trunc(12).zext(64).shl(12 * sh)
        base, cur = regs.get(rn)
        if base == 'undef':
            regs.r[rd] = ('undef', None)
        else:
            regs.r[rd] = (base, cur.add(imm12))
        return 'add#'
    if w.lshr(21).trunc(11).value() == 0x458:      # ADD (shifted register), 64-bit, LSL
        rn, rm = cfield(5, 5), cfield(16, 5)
        if cfield(10, 6) != 0:
            raise AnalysisBroken('A64-IMMHELP: shifted add at %s' % where)
        b1, v1 = regs.get(rn)
        b2, v2 = regs.get(rm)
        if 'undef' in (b1, b2):
            regs.r[rd] = ('undef', None)
        elif b1 is not None and b2 is not None:
            raise AnalysisBroken('A64-IMMHELP: sum of two symbolic registers at %s' % where)
        else:
            regs.r[rd] = (b1 or b2, v1.add(v2))
        return 'add'
    full = w.value()
    if full is not None and (full & 0xffe0fc00) in (0x4E002C00, 0x0E003C00) and (full >> 16) & 7 == 4:   # smov Xd, Vn.S[i] / umov Wd, Vn.S[i]
        vn = (full >> 5) & 31
        lane = (full >> 19) & 3
        idx = vn * 4 + lane
        if idx not in literals:
            regs.r[rd] = ('undef', None)
        else:
            regs.r[rd] = (None, literals[idx].sext(64) if (full & 0xffe0fc00) == 0x4E002C00 else literals[idx].zext(64))
        return 'smov' if (full & 0xffe0fc00) == 0x4E002C00 else 'umov'
    raise AnalysisBroken('A64-IMMHELP: unsupported instruction word %s at %s' % (w.hexpat(), where))


class Exec:
    """path-sensitive known-bits execution of an emitter helper; every branch condition must be decided"""

    def __init__(self, F, cls, regs, literals, nlit):
        self.F = F
        self.cls = cls
        self.regs = regs
        self.literals = literals
        self.nlit = nlit
        self.trace = []
        self.words = []

    def finish(self):
        """the generated code runs after the helper returned: literals written later in the helper are visible to it"""
        for w, where in self.words:
            self.trace.append(apply_insn(w, self.regs, self.literals, where))

    def run_with(self, f, args, env0, overrides):
        self.env0 = dict(env0)
        self.overrides = dict(overrides)
        self.run(f, args)

    def run(self, f, args, depth=0):
        if depth > 3:
            raise AnalysisBroken('A64-IMMHELP: helper recursion')
        ev = KBEval(self.F, dict(getattr(self, 'env0', {}) if depth == 0 else {}), 0, getattr(self, 'overrides', None))
        for p, a in zip(f['params'], args):
            if a is not None:
                ev.env[p['id']] = a
        ev.env['this->num32bitLiterals'] = KB.const(32, self.nlit)
        self._stmt(f, f['body'], ev, depth)
        self.final_env = ev.env
        v = ev.env.get('this->num32bitLiterals')
        if v is not None and v.value() is not None:
            self.nlit = v.value()

    def _stmt(self, f, s, ev, depth):
        if s is None:
            return
        k = s['k']
        if k == 'Compound':
            for x in s['s']:
                if self._stmt(f, x, ev, depth) == 'break':
                    return 'break'
            return
        if k == 'If':
            c = ev.ev(s['c']).value() if val(s['c']) is None else val(s['c'])
            if c is None:
                raise AnalysisBroken('A64-IMMHELP: condition %s at %s is not decided by the immediate class' % (show(s['c']), loc(s, f)))
            return self._stmt(f, s['t'] if c else s.get('e'), ev, depth)
        if k == 'Break':
            return 'break'
        if k in ('For', 'While', 'Do', 'StaticAssert'):
            if not any((c.get('name') or '').startswith('emit') or c.get('name') == 'memcpy' for c in astq.calls(s)):
                # bookkeeping loops (marking every register as modified) emit nothing; the value they store into the last-writer table is recorded
                if k != 'StaticAssert':
                    for x in astq.walk(s):
                        if x['k'] == 'Assign' and 'reg_changed_offset' in show(x['l']):
                            try:
                                v = ev.ev(x['r'])
                            except AnalysisBroken:
                                v = None
                            self.mark_all = getattr(self, 'mark_all', []) + [(v.value() if v is not None else None, loc(x, f))]
                return
            raise AnalysisBroken('A64: a loop that emits code at %s' % loc(s, f))
        if k == 'Switch':
            cn = strip_all(s['c'])
            while cn['k'] == 'Cast' and type_info(cn.get('ty')) is None:
                cn = strip_all(cn['e'])
            c = ev.ev(cn).value()
            if c is None:
                raise AnalysisBroken('A64: switch on %s at %s is not decided' % (show(s['c'])[:60], loc(s, f)))
            stmts = s['b']['s'] if s['b']['k'] == 'Compound' else [s['b']]

            def labels(st):
                out = []
                while st['k'] in ('Case', 'Default'):
                    out.append(st)
                    st = st['sub']
                return out
            matched = any(val(x_['lhs']) == c for st in stmts for x_ in labels(st) if x_['k'] == 'Case')
            active = False
            for st in stmts:
                x_ = st
                for lab in labels(st):
                    if (lab['k'] == 'Case' and val(lab['lhs']) == c) or (lab['k'] == 'Default' and not matched):
                        active = True
                while x_['k'] in ('Case', 'Default'):
                    x_ = x_['sub']
                if active:
                    if self._stmt(f, x_, ev, depth) == 'break':
                        return
            return
        if k in ('Decl', 'Return', 'Null'):
            ev._exec(s, [])
            return
        top = strip_all(s)
        if top['k'] == 'Call':
            nm = top.get('name')
            if nm == 'emit32':
                w = ev.ev(top['a'][0])
                if w.w != 32:
                    w = w.resize(32, False)
                self.words.append((w, loc(top, f)))
                # the position argument is taken by reference and advanced by four bytes
                if len(top['a']) >= 3:
                    pa = strip_all(top['a'][2])
                    while pa['k'] == 'Cast':
                        pa = strip_all(pa['e'])
                    if pa['k'] == 'Ref' and pa.get('id') in ev.env and ev.env[pa['id']].value() is not None:
                        cur = ev.env[pa['id']]
                        ev.env[pa['id']] = KB.const(cur.w, cur.value() + 4)
                return
            if top.get('fn') and top['fn'].startswith(self.cls + '::emit') and self.F.has_func(top['fn']):
                g = self.F.func(top['fn'])
                args = []
                for prm, a in zip(g['params'], top['a']):
                    args.append(ev.ev(a) if type_info(prm['ty']) is not None else None)
                ev.env['this->num32bitLiterals'] = KB.const(32, self.nlit)
                sub = Exec(self.F, self.cls, self.regs, self.literals, self.nlit)
                sub.overrides = getattr(self, 'overrides', None)
                sub.run(g, args, depth + 1)
                self.words += sub.words
                self.nlit = sub.nlit
                ev.env['this->num32bitLiterals'] = KB.const(32, self.nlit)
                # integer parameters taken by reference (the code position) flow back into the caller's variable
                for prm, a in zip(g['params'], top['a']):
                    if (prm.get('ty') or '').rstrip().endswith('&') and type_info(prm['ty']) is not None:
                        pa = strip_all(a)
                        while pa['k'] == 'Cast':
                            pa = strip_all(pa['e'])
                        fin = getattr(sub, 'final_env', {}).get(prm['id'])
                        if pa['k'] == 'Ref' and pa.get('id') is not None and fin is not None:
                            ev.env[pa['id']] = fin
                return
            if top.get('fn') and top['fn'].startswith(self.cls + '::') and self.F.has_func(top['fn']) and not any((c.get('name') or '').startswith('emit') or c.get('name') == 'memcpy' for c in astq.calls(self.F.func(top['fn'])['body'])):
                # a helper of the class that emits nothing (bookkeeping): executed for its effect on the last-writer table
                g = self.F.func(top['fn'])
                args = [ev.ev(a) if type_info(prm['ty']) is not None else None for prm, a in zip(g['params'], top['a'])]
                sub = Exec(self.F, self.cls, self.regs, self.literals, self.nlit)
                sub.overrides = getattr(self, 'overrides', None)
                sub.run(g, args, depth + 1)
                self.mark_all = getattr(self, 'mark_all', []) + getattr(sub, 'mark_all', [])
                return
            raise AnalysisBroken('A64-IMMHELP: unexpected call %s at %s' % (show(top)[:60], loc(top, f)))
        if top['k'] == 'Assign':
            l = strip_all(top['l'])
            if l['k'] == 'Idx' and 'ImulRcpLiteralsEnd' in show(l['b']):
                i = ev.ev(l['i']).value()
                if i is None:
                    raise AnalysisBroken('A64-IMMHELP: literal index not constant at %s' % loc(top, f))
                self.literals[i] = ev.ev(top['r']).resize(32, False)
                return
            ev._exec(top, [])
            return
        if top['k'] == 'Un' and '++' in top.get('op', '') and 'num32bitLiterals' in show(top['e']):
            self.nlit += 1
            ev.env['this->num32bitLiterals'] = KB.const(32, self.nlit)
            return
        if top['k'] in ('CAssign',):
            ev._exec(top, [])
            return
        raise AnalysisBroken('A64-IMMHELP: unsupported statement %s at %s' % (show(top)[:60], loc(s, f)))


def classes():
    yield 'imm = 0', KB.const(32, 0)
    for h in range(32):
        for l in range(h + 1):
            ones = (1 << h) | (1 << l)
            zeros = (0xffffffff & ~((1 << (h + 1)) - 1)) | ((1 << l) - 1)
            yield 'highest set bit %d, lowest set bit %d' % (h, l), KB(32, zeros, ones)


@memoised('A64-IMMHELP')
def rule_immhelp(ctx, R):
    F, hs = jit.handlers(ctx, 'a64')
    cls = 'randomx::JitCompilerA64'
    R.rule('A64-IMMHELP', 'A64 emitMovImmediate leaves sext64(imm32) in x{dst} and emitAddImmediate leaves x{src} + sext64(imm32) in x{dst}, for all 529 classes of imm32 (highest / lowest set bit) and for a free / exhausted 32-bit literal table; '
           'decided by path-sensitive known-bits execution of the helper and the architectural meaning of movz / movn / movk / add / smov / umov on an abstract register file', min_instances=2000)
    mv = F.func(cls + '::emitMovImmediate')
    ad = F.func(cls + '::emitAddImmediate')
    DST, SRC = 5, 7
    for name, kb in classes():
        exp = sext64(kb)
        for nlit in (0, 63, 64):
            regs = Regs()
            ex = Exec(F, cls, regs, {}, nlit)
            ex.run(mv, [KB.const(32, DST), kb, None, None])
            ex.finish()
            base, v = regs.get(DST)
            ok = base is None and v is not None and v.zeros == exp.zeros and v.ones == exp.ones
            R.check(ok, 'emitMovImmediate, %s, %d literals used' % (name, nlit), '%s:%d' % (mv['file'], mv['line']), expected='x%d = %s' % (DST, exp.hexpat()),
                    found='%s after %s' % ('undefined' if base == 'undef' or v is None else v.hexpat(), ' ; '.join(ex.trace) or 'no instruction'))
            for dst in (DST, SRC):
                regs = Regs()
                regs.r[SRC] = ('src', KB.const(64, 0))
                ex = Exec(F, cls, regs, {}, nlit)
                ex.run(ad, [KB.const(32, dst), KB.const(32, SRC), kb, None, None])
                ex.finish()
                base, v = regs.get(dst)
                ok = base == 'src' and v is not None and v.zeros == exp.zeros and v.ones == exp.ones
                what = 'x%d = x%d + %s' % (dst, SRC, exp.hexpat())
                if base == 'undef' or v is None:
                    got = 'x%d is never written (stale value) after %s' % (dst, ' ; '.join(ex.trace) or 'no instruction')
                elif base is None:
                    got = 'x%d = %s without x%d after %s' % (dst, v.hexpat(), SRC, ' ; '.join(ex.trace))
                else:
                    got = 'x%d = x%d + %s after %s' % (dst, SRC, v.hexpat(), ' ; '.join(ex.trace) or 'no instruction')
                if dst == SRC and not ex.trace and kb.value() == 0:
                    ok, got = True, 'nothing to add'
                R.check(ok, 'emitAddImmediate %s, %s, %d literals used' % ('in place' if dst == SRC else 'dst != src', name, nlit), '%s:%d' % (ad['file'], ad['line']), expected=what, found=got)
    # callers that rely on dst != src exist (address temporaries)
    n = 0
    for f in F.funcs(r'^randomx::JitCompilerA64::(emitMemLoad|emitMemLoadFP|h_ISTORE)'):
        for c in astq.calls(f['body']):
            if c.get('name') == 'emitAddImmediate' and show(c['a'][0]) != show(c['a'][1]):
                n += 1
    if n < 3:
        raise AnalysisBroken('A64-IMMHELP: callers with dst != src not found (%d)' % n)
