"""[DS-RANGE-EVAL] randomx_init_dataset(dataset, cache, start, count) writes exactly the requested items, whatever the shape of its
range-splitting code: the address-arithmetic slice of the function (and of the interpreted initialiser it may call through
cache->datasetInit) is evaluated for a set of (start, count) pairs that covers every residue of count mod 4, short and long
ranges, and ranges that touch the end of the dataset, in both worlds (cache with / without a compiled initialiser; any other
unknown condition forks).  Item values are tags: the initialiser writes tag `item k` for item number k, memcpy moves tags."""
import astq
from astq import calls, loc, show, strip_all, val, walk
from core import AnalysisBroken
import slice as slc

D_BASE = 0x100000000
CACHE = 0x40000000


class Hooks:
    def __init__(self, F, jit, interp_fns, cls):
        self.F = F
        self.jit = jit
        self.interp_fns = interp_fns
        self.cls = cls
        self.mem = {}
        self.viol = []
        self.init_calls = []

    def sizeof(self, base):
        return None

    def leaf(self, n, env, sl):
        s = show(strip_all(n))
        if s.endswith('dataset->memory') or s.endswith('dataset.memory'):
            return D_BASE
        if s.endswith('cache->jit') or s.endswith('cache.jit'):
            return 1 if self.jit else 0
        if n['k'] == 'Ref' and n.get('q'):
            try:
                return self.F.const(n['q'])
            except Exception:
                return None
        return None

    def store(self, n, env, sl):
        return None

    def write_item(self, addr, k, where):
        if addr is None or k is None:
            self.viol.append('initialiser called with an unknown destination / item number at %s' % where)
            return
        self.mem[addr] = ('item', k)

    def call(self, n, args, env, sl):
        nm = n.get('name') or ''
        callee = show(n['callee']) if astq.is_node(n.get('callee')) else ''
        if 'datasetInit' in callee and not n.get('fn'):
            if len(args) != 4 or None in args[1:]:
                raise AnalysisBroken('DS-RANGE-EVAL: datasetInit call with unknown arguments at line %s' % n.get('ln'))
            dest, s, e = args[1], args[2], args[3]
            self.init_calls.append((dest, s, e))
            if self.jit:
                # contract of the compiled initialisers (x86: do-while per item; RV64 vector: four items per iteration)
                if e - s <= 0 or (e - s) % 4 != 0:
                    self.viol.append('compiled initialiser called for %d items [%d, %d): it requires a positive multiple of 4' % (e - s, s, e))
                    cnt = max(4, (e - s + 3) // 4 * 4)
                else:
                    cnt = e - s
                for j in range(cnt):
                    self.write_item(dest + j * self.cls, s + j, 'line %s' % n.get('ln'))
                return None
            f = self.interp_fns[0]
            return ('inline', f)
        if nm == 'initDatasetItem' and len(args) >= 3:
            self.write_item(args[1], args[2], 'line %s' % n.get('ln'))
            return None
        if nm in ('memcpy', 'memmove', '__builtin_memcpy') and len(args) == 3:
            d, s, sz = args
            if None in (d, s, sz):
                self.viol.append('memcpy with unknown operands at line %s' % n.get('ln'))
                return None
            if sz % self.cls or d % self.cls or s % self.cls:
                self.viol.append('memcpy of %d bytes from +%d to +%d is not item-aligned at line %s' % (sz, s % self.cls, d % self.cls, n.get('ln')))
                return None
            vals = [self.mem.get(s + j * self.cls) for j in range(sz // self.cls)]
            for j, t in enumerate(vals):
                if t is None:
                    self.mem[d + j * self.cls] = ('garbage', s + j * self.cls)
                else:
                    self.mem[d + j * self.cls] = t
            return None
        if n.get('fn') and self.F.has_func(n['fn']) and nm in ('initDataset',):
            return ('inline', self.F.func(n['fn']))
        return None


def samples(N):
    starts = [0, 1, 2, 3, 4, 5, 7, 1000, 1001, 1002, 1003] + list(range(N - 21, N))
    counts = list(range(0, 14)) + [16, 17, 18, 19, 20, 21]
    out = []
    for s in starts:
        for c in counts:
            if s + c <= N and s < N:
                out.append((s, c))
    return out


def rule_range_eval(ctx, R, F):
    R.rule('DS-RANGE-EVAL', 'randomx_init_dataset(dataset, cache, start, count) leaves item k at dataset->memory + 64 k for every k in [start, start + count) and writes nothing else in the dataset, for every sampled (start, count) '
           '(all residues of count mod 4, count 0..21, ranges at the start, in the middle and at the very end of the dataset) and for caches with and without a compiled initialiser; the compiled initialiser is only asked '
           'for positive multiples of 4 items; decided by evaluating the address-arithmetic slice of the function and of the interpreted initialiser', min_instances=500)
    f = F.func('randomx_init_dataset', unit='src/randomx.cpp')
    cls = F.const('randomx::CacheLineSize')
    N = F.const('DatasetItemCount') if F.has_glob('DatasetItemCount') else F.const('randomx::DatasetSize') // cls
    ps = f['params']
    if len(ps) != 4:
        raise AnalysisBroken('DS-RANGE-EVAL: randomx_init_dataset has %d parameters' % len(ps))
    interp = [g for g in F.funcs(r'^randomx::initDataset$') if g.get('body')]
    if len(interp) != 1:
        raise AnalysisBroken('DS-RANGE-EVAL: interpreted initialiser randomx::initDataset not found')
    where = '%s:%d' % (f['file'], f['line'])
    R.saw(fn=f['q'])
    R.saw(fn=interp[0]['q'])
    nworlds = 0
    for (s0, c0) in samples(N):
        for jit in (0, 1):
            def one(choices, s0=s0, c0=c0, jit=jit):
                h = Hooks(F, jit, interp, cls)
                sl = slc.Slice(F, h, choices, limit=20000, what='DS-RANGE-EVAL')
                env = {ps[0]['id']: 0x20000000, ps[1]['id']: CACHE, ps[2]['id']: s0, ps[3]['id']: c0}
                sl.run(f['body'], env)
                return h
            for choices, h in slc.worlds(one):
                nworlds += 1
                bad = list(h.viol)
                lo, hi = D_BASE + s0 * cls, D_BASE + (s0 + c0) * cls
                for k in range(s0, s0 + c0):
                    t = h.mem.get(D_BASE + k * cls)
                    if t != ('item', k):
                        bad.append('item %d %s' % (k, 'is never written' if t is None else 'holds %s %s' % t))
                        if len(bad) > 3:
                            break
                for a, t in sorted(h.mem.items()):
                    if D_BASE - (1 << 30) <= a < D_BASE + (N + 64) * cls and not (lo <= a < hi):
                        bad.append('item slot %d outside the request is overwritten with %s %s' % ((a - D_BASE) // cls, t[0], t[1]))
                        if len(bad) > 5:
                            break
                ch = ', '.join('%s=%d' % (k, v) for k, v in sorted(choices.items()))
                R.check(not bad, 'start %d count %d, %s initialiser%s' % (s0, c0, 'compiled' if jit else 'interpreted', (' [' + ch + ']') if ch else ''), where,
                        expected='items %d..%d written with their own values, nothing else' % (s0, s0 + c0 - 1) if c0 else 'nothing written', found='; '.join(bad[:4]) or 'as expected')
    if nworlds < 500:
        raise AnalysisBroken('DS-RANGE-EVAL: only %d worlds evaluated' % nworlds)


def rule_initdataset_eval(ctx, R, F):
    """the interpreted initialiser writes item k to dataset + 64 (k - start) for every k in [start, end), and nothing else (ranges that are positive multiples of 4, the only ones it is called with)"""
    cls = F.const('randomx::CacheLineSize')
    interp = [g for g in F.funcs(r'^randomx::initDataset$') if g.get('body')]
    if len(interp) != 1:
        raise AnalysisBroken('DS-ITEM: interpreted initialiser randomx::initDataset not found')
    f = interp[0]
    ps = f['params']
    if len(ps) != 4:
        raise AnalysisBroken('DS-ITEM: randomx::initDataset has %d parameters' % len(ps))
    where = '%s:%d' % (f['file'], f['line'])
    for s0 in (0, 1, 5, 1000):
        for n in (4, 8, 12):      # the API only ever asks the initialisers for positive multiples of 4 (DS-RANGE-EVAL checks that)
            def one(choices, s0=s0, n=n):
                h = Hooks(F, 0, interp, cls)
                sl = slc.Slice(F, h, choices, limit=20000, what='DS-ITEM')
                sl.run(f['body'], {ps[0]['id']: CACHE, ps[1]['id']: D_BASE, ps[2]['id']: s0, ps[3]['id']: s0 + n})
                return h
            for choices, h in slc.worlds(one):
                want = {D_BASE + j * cls: ('item', s0 + j) for j in range(n)}
                got = {a: t for a, t in h.mem.items()}
                R.check(got == want and not h.viol, 'initDataset(start %d, end %d)' % (s0, s0 + n), where, expected='item k at dataset + 64 (k - start) for k in [start, end)', rule='DS-ITEM',
                        found='writes %s' % sorted((a - D_BASE) // cls if a >= D_BASE else a for a in got) if got != want else '; '.join(h.viol))
