"""C02 The hash equals the value defined by the written specification."""
import astq
from rules import aes, decode, driver, dsinit, spec

LEVEL = 'other'
TECHNIQUE = 'constant-table and step-sequence agreement between doc/specs.md (parsed tables, hex blocks, lane diagrams) and the resolved AST / assembled objects; FIPS-197 decomposition for the AES round'
CLAIM = ('Decides statically every statement doc/specs.md makes in machine-readable form against the source: configuration defaults, scratchpad masks, the VM-programming table and bit fields, '
         'register-file / program / instruction layouts, the 13 loop steps of 4.6.2, the chapter-2 driver sequence, instruction frequencies and operand rules, branch construction, AES keys / states / lane patterns and the AES '
         'round itself, BlakeGenerator, Argon2 parameters, dataset item constants and step order. What the specification states only in prose about computed values (arithmetic results, '
         'SuperscalarHash generation for a given key) is numeric and not claimed.')
LEVEL_NOTE = 'Trusted: the specification text as oracle; clang AST; numeric behaviour of the arithmetic executors, Blake2b compression and Argon2 (their constants are checked in C10/C11).'
EXPLANATION = 'SPEC-CONFIG, SPEC-MASKS, SPEC-VMPROG, SPEC-REGFILE, SPEC-LOOP, DRV-SEQ, SPEC-FREQ/DEC-OPERANDS/MEM-LEVEL/CBR-BITS, SPEC-AESKEYS/PATTERN + AES-ROUND, SPEC-BLAKEGEN, SPEC-ARGON, SPEC-DSCONST/DS-ITEM.'


def run(ctx, R):
    F = astq.Facts(ctx, 'K0')
    R.saw(config='K0')
    spec.rule_config(ctx, R, F)
    spec.rule_vmprog(ctx, R, F)
    spec.rule_regfile(ctx, R, F)
    spec.rule_loop(ctx, R, F)
    driver.rule_seq(ctx, R, F)
    decode.rule_tab_opc(ctx, R, F)
    decode.rule_operands(ctx, R, F)
    decode.rule_cbr(ctx, R, F)
    decode.rule_cfround(ctx, R, F)
    aes.rule_round(ctx, R, F)
    aes.rule_patterns(ctx, R, F)
    spec.rule_blakegen(ctx, R, F)
    spec.rule_argon(ctx, R, F)
    dsinit.rule_dsconst(ctx, R, F)
