"""C02 The hash equals the value defined by the written specification."""
import astq
from rules import aes, argon, blake, decode, driver, dsinit, interpsem, spec, sshash, x86loop, rtpreserve, a64sem, a64hsem, rvhsem, x86hsem, a64dsread, rvdsread, a64fp, rvfp, cfrcross, portable

LEVEL = 'other'
TECHNIQUE = 'constant-table and step-sequence agreement between doc/specs.md (parsed tables, hex blocks, lane diagrams) and the resolved AST / assembled objects; FIPS-197 decomposition for the AES round'
CLAIM = ('Decides statically every statement doc/specs.md makes in machine-readable form against the source: configuration defaults, scratchpad masks, the VM-programming table and bit fields, '
         'register-file / program / instruction layouts, the 13 loop steps of 4.6.2, the chapter-2 driver sequence, instruction frequencies and operand rules, branch construction, AES keys / states / lane patterns and the AES '
         'round itself, BlakeGenerator, Argon2 parameters, dataset item constants and step order; plus the structural rules of the delegated primitives (Blake2b constants, compression skeleton and streaming counter, Argon2 fill skeleton / indexing / H0 / H-prime, SuperscalarHash tables and executor) and the rule that a cache is re-initialised whenever the key differs. What the specification states only in prose about computed values (arithmetic results, '
         'SuperscalarHash generation for a given key) is numeric and not claimed.'
         ' Also decided here because the specification states them: which instructions count as a register modification (5.4.2, LW-SPEC), the IMUL_RCP no-op rule (5.2.6, RCP-NOOP) and that the item stored at dataset index i is item number i for every way of splitting the range (7.3, DS-RANGE-EVAL).'
         ' Interpreter executors: the body of every integer executor is evaluated symbolically on terms and must equal the term of specification 5.2 (INT-EXEC: 17 executors, every shift, all three masks), and every floating-point executor applies the operation of 5.3 to the right operands, with the converted scratchpad operand and, for FDIV_M, the mantissa / exponent masks (FP-EXEC, uninterpreted vector operations; the rx_* wrappers of the host configuration are the packed-double intrinsics of the same name).')
LEVEL_NOTE = 'Trusted: the specification text as oracle; clang AST; numeric behaviour of the arithmetic executors, Blake2b compression and Argon2 (their constants are checked in C10/C11).'
EXPLANATION = ('B2-CONST/COMPRESS/UPDATE, A2-SKELETON/XOR/INDEX/H0/HPRIME, SPEC-SSTABLES, SS-EXEC, BIND-KEY (shared with C09-C11, C03), SPEC-CONFIG, SPEC-MASKS, SPEC-VMPROG, SPEC-REGFILE, SPEC-LOOP, DRV-SEQ, SPEC-FREQ/DEC-OPERANDS/MEM-LEVEL/CBR-BITS, SPEC-AESKEYS/PATTERN + AES-ROUND, SPEC-BLAKEGEN, SPEC-ARGON, SPEC-DSCONST/DS-ITEM. LW-SOUND/LW-SPEC and RCP-NOOP (spec 5.4.2 / 5.2.6), DS-RANGE-EVAL (spec 7.3, item number = index for every split).'
         ' INT-EXEC, FP-EXEC.')

CLAIM += (' The engines that compute the hash are held against the same specification sections: what the x86-64, A64 and RV64 back-ends emit for the integer, memory-form and (x86) floating-point instructions (X86- / A64- / RV-HSEM, -MEM-HSEM, X86-FP-HSEM, A64-IMMHELP), the hand-written dataset reads (A64- / RV-DSREAD-HSEM) and the order of the end-of-iteration stores - r0-r7 before f0-f3, because the two scratchpad lines can coincide (X86-LOOPSTORE, A64- / RV-RT-STOREORDER).')
EXPLANATION += ' X86-HSEM/-MEM/-FP, A64-HSEM/-MEM, A64-IMMHELP, RV-HSEM/-MEM, A64-/RV-DSREAD-HSEM, X86-LOOPSTORE, A64-/RV-RT-STOREORDER.'

EXPLANATION += ' X86-/A64-/RV-LOOPLOAD.'

EXPLANATION += ' A64-FP-HSEM.'

EXPLANATION += ' RV-FP-HSEM.'

EXPLANATION += ' A64-CFR-BITS, RV-CFR-BITS.'

EXPLANATION += ' PORT-ENDIAN-PAIR.'


CLAIM += (' The dataset read of a compiled x86-64 program - the bytes the prologue generator emits for readReg2 ^ readReg3 and the hand-written v1 / v2 / light-mode pieces - executed on terms performs specification 4.6.2 steps 5-8: read at the old ma, mx (v1) or ma (v2) XORed with the zero-extended value, halves swapped, prefetch at the new mx, item number and saved registers in light mode (X86-DSREAD-HSEM).')
EXPLANATION += ' X86-DSREAD-HSEM.'

def run(ctx, R):
    F = astq.Facts(ctx, 'K0')
    R.saw(config='K0')
    spec.rule_config(ctx, R, F)
    spec.rule_vmprog(ctx, R, F)
    spec.rule_regfile(ctx, R, F)
    spec.rule_loop(ctx, R, F)
    driver.rule_seq(ctx, R, F)
    decode.rule_tab_opc(ctx, R, F)
    decode.rule_operands(ctx, R, F)
    decode.rule_cbr(ctx, R, F)
    decode.rule_cfround(ctx, R, F)
    decode.rule_lw(ctx, R, F)       # spec 5.4.2: which instructions count as a register modification (CBRANCH targets)
    decode.rule_rcp(ctx, R, F)      # spec 5.2.6: IMUL_RCP with a zero / power-of-two divisor is a no-op
    aes.rule_round(ctx, R, F)
    aes.rule_patterns(ctx, R, F)
    spec.rule_blakegen(ctx, R, F)
    spec.rule_argon(ctx, R, F)
    dsinit.rule_dsconst(ctx, R, F)
    dsinit.rule_range(ctx, R, F)    # spec 7.3: the item stored at index i is the item computed for item number i, for every way of splitting the range
    # the primitives the specification delegates to other documents, and the key binding the hash depends on
    blake.rule_const(ctx, R, F)
    blake.rule_compress(ctx, R, F)
    blake.rule_update_final(ctx, R, F)
    argon.rule_skeleton(ctx, R, F)
    argon.rule_index(ctx, R, F)
    argon.rule_h0(ctx, R, F)
    argon.rule_long(ctx, R, F)
    sshash.rule_tables(ctx, R, F)
    sshash.rule_exec(ctx, R, F)
    driver.rule_bind_key(ctx, R, F)
    interpsem.rule_int_exec(ctx, R, F)
    interpsem.rule_fp_exec(ctx, R, astq.Facts(ctx, 'K1'), F)
    # the engines that compute the hash: what each JIT back-end emits, and the hand-written loop halves, against the same specification sections
    x86hsem.rule_hsem(ctx, R)
    x86hsem.rule_mem_hsem(ctx, R)
    x86hsem.rule_fp_hsem(ctx, R)
    x86loop.rule_loopstore(ctx, R)
    x86loop.rule_loopload(ctx, R)
    x86loop.rule_dsread(ctx, R)
    a64hsem.rule_hsem(ctx, R)
    a64sem.rule_immhelp(ctx, R)
    a64hsem.rule_mem_hsem(ctx, R)
    a64dsread.rule_dsread(ctx, R)
    a64dsread.rule_loopload(ctx, R)
    a64dsread.rule_dsread_light(ctx, R)
    rtpreserve.rule_store_order(ctx, R, 'a64')
    rvhsem.rule_hsem(ctx, R)
    rvhsem.rule_mem_hsem(ctx, R)
    rvdsread.rule_dsread(ctx, R)
    rvdsread.rule_loopload(ctx, R)
    rvdsread.rule_dsread_light(ctx, R)
    rtpreserve.rule_store_order(ctx, R, 'rv64')
    a64fp.rule_fp_hsem(ctx, R)
    rvfp.rule_fp_hsem(ctx, R)
    cfrcross.rule_a64(ctx, R)
    cfrcross.rule_rv(ctx, R)
    portable.rule_endian_pair(ctx, R)
