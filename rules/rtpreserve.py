"""Register preservation in the hand-written runtime (the static .S files the JIT back-ends copy their code from).

[A64-RT-PRESERVE]  every routine the A64 runtime calls while a program (or the dataset initialisation loop) is running leaves unchanged every register
                   that is still needed afterwards.
[A64-RCPLIT]       the register the IMUL_RCP handler multiplies by for literal number i is the register the program prologue loads from slot i of
                   the literal pool.
"""
import re

import astq
import rtasm
from astq import val, walk
from core import AnalysisBroken
from rules import jit

A64_ALL = {'x%d' % i for i in range(31)} | {'v%d' % i for i in range(32)} | {'sp'}
# AAPCS64: what a C caller expects to find unchanged
A64_CALLEE_SAVED = {'x%d' % i for i in range(19, 30)} | {'sp'} | {'v%d' % i for i in range(8, 16)}


def _a64_tables(ctx):
    F, hs = jit.handlers(ctx, 'a64')
    g = F.glob('randomx::IntRegMap') if F.has_glob('randomx::IntRegMap') else (F.glob('IntRegMap') if F.has_glob('IntRegMap') else None)
    if g is None or not g.get('init') or g['init']['k'] != 'InitList':
        raise AnalysisBroken('A64-RT: IntRegMap not found')
    regmap = [val(e) for e in g['init']['e']]
    if len(regmap) != 8 or None in regmap:
        raise AnalysisBroken('A64-RT: IntRegMap is not a table of 8 constants')
    h = hs.get('IMUL_RCP')
    if h is None:
        raise AnalysisBroken('A64-RT: h_IMUL_RCP not found')
    lit = None
    for x in walk(h.f['body']):
        if x['k'] == 'Decl':
            for d in x['d']:
                if d.get('init') is not None and astq.is_node(d['init']) and d['init']['k'] == 'InitList' and (d.get('static') or d.get('const')):
                    vs = [val(e) for e in d['init']['e']]
                    if len(vs) >= 4 and None not in vs:
                        lit = (d['name'], vs, '%s:%d' % (h.f['file'], x.get('ln') or h.f['line']))
    if lit is None:
        raise AnalysisBroken('A64-RT: the literal register table of h_IMUL_RCP was not found')
    return F, regmap, lit


def rule_a64(ctx, R):
    from rules import a64hsem
    R.rule('A64-RT-PRESERVE', 'every routine the A64 runtime calls while a program or the dataset initialisation loop is running (rx_calc_dataset_item from the light-mode dataset read and from the '
           'initialisation loop, the software AES rounds) leaves unchanged every register that is read afterwards before being written: the registers changed by the callee (its own text followed instruction by '
           'instruction with the frame slots it spills to, plus the registers the generated SuperscalarHash code can write) are compared with the registers live after the call (backward liveness over the static text; '
           'generated program code reads the eight VM registers of IntRegMap and the literal registers of h_IMUL_RCP; a return to C++ needs the AAPCS64 callee-saved registers)', min_instances=15)
    P = rtasm.Prog(ctx.obj('a64'), 'a64')
    R.saw(unit='src/jit_compiler_a64_static.S', config='K2')
    F, regmap, lit = _a64_tables(ctx)
    gen_live = {'x%d' % r for r in regmap} | {'x%d' % ((v >> 16) & 31) for v in lit[1]}
    ss_defs = {'x%d' % r for r in a64hsem.ss_written_registers(ctx)}
    holes = {}
    if ctx.obj('a64').has('randomx_calc_dataset_item_aarch64_mix'):
        holes[P.sym('randomx_calc_dataset_item_aarch64_mix')] = ss_defs
    else:
        raise AnalysisBroken('A64-RT-PRESERVE: randomx_calc_dataset_item_aarch64_mix not found')
    # where generated program code begins: the first instruction slot after the static head of the loop
    stops = set()
    sites = [i for a, i in sorted(P.ins.items()) if i.kind == 'call']
    if len(sites) < 15:
        raise AnalysisBroken('A64-RT-PRESERVE: only %d direct calls found in the runtime' % len(sites))
    uu_memo = {}

    def call_uses(i):
        if i.target not in uu_memo:
            uu_memo[i.target] = rtasm.upward_uses(P, i.target) if i.target in P.ins else set(A64_ALL)
        return uu_memo[i.target]
    undecided = []
    for i in sites:
        where = 'src/jit_compiler_a64_static.S:%s' % P.name_at(i.addr)
        if i.target not in P.ins:
            raise AnalysisBroken('A64-RT-PRESERVE: call at %s has no target in the runtime text' % P.name_at(i.addr))
        f = rtasm.Frame(P, holes)
        end, why = f.run(i.target)
        if why != 'ret':
            raise AnalysisBroken('A64-RT-PRESERVE: %s called at %s does not reach a return in straight-line text (%s at %s)' % (i.tsym, P.name_at(i.addr), why, P.name_at(end)))
        changed = sorted((r for r in f.written if f.get(r) != ('init', r) and r != 'sp'), key=lambda r: (r[0], int(r[1:])))
        sp_ok = f.get('sp') == ('sp', 0)
        lo, reach = P.liveness_after(P.nxt(i), gen_live, A64_CALLEE_SAVED, call_uses)
        hi, _ = P.liveness_after(P.nxt(i), A64_ALL, A64_CALLEE_SAVED | {'x0', 'x1', 'v0'}, call_uses)
        # a register the callee reads as an argument and hands back changed is its result (the AES state of the software rounds), not a clobber
        results = set(changed) & call_uses(i)
        clob = (set(changed) - results) | {'x30'}
        bad = sorted(clob & lo)
        maybe = sorted((clob & hi) - lo)
        inst = 'call of %s at %s' % (i.tsym, P.name_at(i.addr))
        R.saw(fn=i.tsym)
        if not sp_ok:
            R.violation(inst, where, expected='stack pointer restored', found=f.get('sp'))
        elif bad:
            R.violation(inst, where, expected='registers read after the call keep their value', found='%s changed by %s and read afterwards (changed: %s)' % (', '.join(bad), i.tsym, ', '.join(changed) or 'none'))
        else:
            R.ok(inst, where)
            if maybe:
                undecided.append('%s: %s' % (inst, ', '.join(maybe)))
    if undecided:
        R.note('A64-RT-PRESERVE does not decide registers that only generated floating-point / CFROUND code could read after the call: ' + ' | '.join(sorted(set(undecided))[:6]))


def rule_a64_rcplit(ctx, R):
    R.rule('A64-RCPLIT', 'IMUL_RCP with one of the first reciprocals multiplies by a register instead of loading the literal: entry i of the register table in h_IMUL_RCP is the register that the program prologue '
           'loads from the i-th slot below randomx_program_aarch64_imul_rcp_literals_end (the slot h_IMUL_RCP writes reciprocal number i to), and nothing in the static loop writes that register', min_instances=12)
    P = rtasm.Prog(ctx.obj('a64'), 'a64')
    R.saw(unit='src/jit_compiler_a64_static.S', config='K2')
    F, regmap, lit = _a64_tables(ctx)
    end = P.sym('randomx_program_aarch64_imul_rcp_literals_end')
    start, loop = P.sym('randomx_program_aarch64'), P.sym('randomx_program_aarch64_main_loop')
    # prologue loads: ldr xN, <literal>
    loaded = {}
    for a in P.order:
        if not (start <= a < loop):
            continue
        i = P.ins[a]
        if i.mnem == 'ldr' and len(i.ops) == 1 and i.target is not None and i.ops[0].startswith('x'):
            loaded[i.target] = (rtasm.a64_reg(i.ops[0]), a)
    # the static text of the loop, piece by piece (every labelled fragment the generator may copy), followed up to the branch that closes the loop: the literal
    # registers must hold their entry value at the end of each piece (a fragment may spill and reload them)
    prog_end = P.sym('randomx_init_dataset_aarch64') if ctx.obj('a64').has('randomx_init_dataset_aarch64') else max(P.order)
    back = [a for a in P.order if loop <= a < prog_end and P.ins[a].kind == 'cbranch' and P.ins[a].target == loop]
    if not back:
        raise AnalysisBroken('A64-RCPLIT: the branch that closes the program loop was not found')
    stop = {P.nxt(P.ins[a]) for a in back}
    callees = {i.target for i in P.ins.values() if i.kind == 'call'}
    starts = sorted({a for a in P.sym_at if loop <= a < prog_end and a in P.ins and P.ins[a].kind != 'data' and a not in callees})
    loop_defs = {}
    for a0 in starts:
        if any(a0 >= s_ for s_ in stop) and a0 < max(stop) + 4 * 40 and all(P.ins[x].kind != 'jump' for x in P.order if max(stop) <= x < a0):
            continue            # the epilogue after the loop
        f = rtasm.Frame(P)
        f.run(a0, stop=stop)
        for r in f.written:
            if f.get(r) != ('init', r):
                loop_defs.setdefault(r, a0)
    R.saw(fn='randomx::JitCompilerA64::h_IMUL_RCP')
    for k, v in enumerate(lit[1]):
        reg = 'x%d' % ((v >> 16) & 31)
        slot = end - 8 * (k + 1)
        got = loaded.get(slot)
        inst = 'literal %d -> %s' % (k, reg)
        if v & ~(31 << 16):
            R.violation(inst, lit[2], expected='a register number in the Rm field (bits 16..20) only', found='%#x' % v)
            continue
        if got is None:
            R.violation(inst, lit[2], expected='the prologue loads %s from the literal slot at literals_end - %d' % (reg, 8 * (k + 1)), found='no prologue load from that slot')
        elif got[0] != reg:
            R.violation(inst, lit[2], expected='the register loaded from literal slot %d (%s, at %s)' % (k, got[0], P.name_at(got[1])), found=reg)
        elif reg in loop_defs:
            R.violation(inst, lit[2], expected='%s keeps its value through the static text of the loop' % reg, found='changed in the piece that starts at %s' % P.name_at(loop_defs[reg]))
        else:
            R.ok(inst, lit[2])
