"""Register preservation in the hand-written runtime (the static .S files the JIT back-ends copy their code from).

[A64-RT-PRESERVE]  every routine the A64 runtime calls while a program (or the dataset initialisation loop) is running leaves unchanged every register
                   that is still needed afterwards.
[A64-RCPLIT]       the register the IMUL_RCP handler multiplies by for literal number i is the register the program prologue loads from slot i of
                   the literal pool.
"""
import re

import astq
import rtasm
from astq import val, walk
from core import AnalysisBroken
from rules import jit

A64_ALL = {'x%d' % i for i in range(31)} | {'v%d' % i for i in range(32)} | {'sp'}
# AAPCS64: what a C caller expects to find unchanged
A64_CALLEE_SAVED = {'x%d' % i for i in range(19, 30)} | {'sp'} | {'v%d' % i for i in range(8, 16)}


def _a64_tables(ctx):
    F, hs = jit.handlers(ctx, 'a64')
    g = F.glob('randomx::IntRegMap') if F.has_glob('randomx::IntRegMap') else (F.glob('IntRegMap') if F.has_glob('IntRegMap') else None)
    if g is None or not g.get('init') or g['init']['k'] != 'InitList':
        raise AnalysisBroken('A64-RT: IntRegMap not found')
    regmap = [val(e) for e in g['init']['e']]
    if len(regmap) != 8 or None in regmap:
        raise AnalysisBroken('A64-RT: IntRegMap is not a table of 8 constants')
    h = hs.get('IMUL_RCP')
    if h is None:
        raise AnalysisBroken('A64-RT: h_IMUL_RCP not found')
    lit = None
    for x in walk(h.f['body']):
        if x['k'] == 'Decl':
            for d in x['d']:
                if d.get('init') is not None and astq.is_node(d['init']) and d['init']['k'] == 'InitList' and (d.get('static') or d.get('const')):
                    vs = [val(e) for e in d['init']['e']]
                    if len(vs) >= 4 and None not in vs:
                        lit = (d['name'], vs, '%s:%d' % (h.f['file'], x.get('ln') or h.f['line']))
    if lit is None:
        raise AnalysisBroken('A64-RT: the literal register table of h_IMUL_RCP was not found')
    return F, regmap, lit


def rule_a64(ctx, R):
    from rules import a64hsem
    R.rule('A64-RT-PRESERVE', 'every routine the A64 runtime calls while a program or the dataset initialisation loop is running (rx_calc_dataset_item from the light-mode dataset read and from the '
           'initialisation loop, the software AES rounds) leaves unchanged every register that is read afterwards before being written: the registers changed by the callee (its own text followed instruction by '
           'instruction with the frame slots it spills to, plus the registers the generated SuperscalarHash code can write) are compared with the registers live after the call (backward liveness over the static text; '
           'generated program code reads the eight VM registers of IntRegMap and the literal registers of h_IMUL_RCP; a return to C++ needs the AAPCS64 callee-saved registers)', min_instances=15)
    P = rtasm.Prog(ctx.obj('a64'), 'a64')
    R.saw(unit='src/jit_compiler_a64_static.S', config='K2')
    F, regmap, lit = _a64_tables(ctx)
    gen_live = {'x%d' % r for r in regmap} | {'x%d' % ((v >> 16) & 31) for v in lit[1]}
    ss_defs = {'x%d' % r for r in a64hsem.ss_written_registers(ctx)}
    holes = {}
    if ctx.obj('a64').has('randomx_calc_dataset_item_aarch64_mix'):
        holes[P.sym('randomx_calc_dataset_item_aarch64_mix')] = ss_defs
    else:
        raise AnalysisBroken('A64-RT-PRESERVE: randomx_calc_dataset_item_aarch64_mix not found')
    # where generated program code begins: the first instruction slot after the static head of the loop
    stops = set()
    sites = [i for a, i in sorted(P.ins.items()) if i.kind == 'call']
    if len(sites) < 15:
        raise AnalysisBroken('A64-RT-PRESERVE: only %d direct calls found in the runtime' % len(sites))
    uu_memo = {}

    def call_uses(i):
        if i.target not in uu_memo:
            uu_memo[i.target] = rtasm.upward_uses(P, i.target) if i.target in P.ins else set(A64_ALL)
        return uu_memo[i.target]
    undecided = []
    for i in sites:
        where = 'src/jit_compiler_a64_static.S:%s' % P.name_at(i.addr)
        if i.target not in P.ins:
            raise AnalysisBroken('A64-RT-PRESERVE: call at %s has no target in the runtime text' % P.name_at(i.addr))
        f = rtasm.Frame(P, holes)
        end, why = f.run(i.target)
        if why != 'ret':
            raise AnalysisBroken('A64-RT-PRESERVE: %s called at %s does not reach a return in straight-line text (%s at %s)' % (i.tsym, P.name_at(i.addr), why, P.name_at(end)))
        changed = sorted((r for r in f.written if f.get(r) != ('init', r) and r != 'sp'), key=lambda r: (r[0], int(r[1:])))
        sp_ok = f.get('sp') == ('sp', 0)
        lo, reach = P.liveness_after(P.nxt(i), gen_live, A64_CALLEE_SAVED, call_uses)
        hi, _ = P.liveness_after(P.nxt(i), A64_ALL, A64_CALLEE_SAVED | {'x0', 'x1', 'v0'}, call_uses)
        # a register the callee reads as an argument and hands back changed is its result (the AES state of the software rounds), not a clobber
        results = (set(changed) & call_uses(i)) - gen_live
        clob = (set(changed) - results) | {'x30'}
        bad = sorted(clob & lo)
        maybe = sorted((clob & hi) - lo)
        inst = 'call of %s at %s' % (i.tsym, P.name_at(i.addr))
        R.saw(fn=i.tsym)
        if not sp_ok:
            R.violation(inst, where, expected='stack pointer restored', found=f.get('sp'))
        elif bad:
            R.violation(inst, where, expected='registers read after the call keep their value', found='%s changed by %s and read afterwards (changed: %s)' % (', '.join(bad), i.tsym, ', '.join(changed) or 'none'))
        else:
            R.ok(inst, where)
            if maybe:
                undecided.append('%s: %s' % (inst, ', '.join(maybe)))
    if undecided:
        R.note('A64-RT-PRESERVE does not decide registers that only generated floating-point / CFROUND code could read after the call: ' + ' | '.join(sorted(set(undecided))[:6]))


def rule_a64_rcplit(ctx, R):
    R.rule('A64-RCPLIT', 'IMUL_RCP with one of the first reciprocals multiplies by a register instead of loading the literal: entry i of the register table in h_IMUL_RCP is the register that the program prologue '
           'loads from the i-th slot below randomx_program_aarch64_imul_rcp_literals_end (the slot h_IMUL_RCP writes reciprocal number i to), and nothing in the static loop writes that register', min_instances=12)
    P = rtasm.Prog(ctx.obj('a64'), 'a64')
    R.saw(unit='src/jit_compiler_a64_static.S', config='K2')
    F, regmap, lit = _a64_tables(ctx)
    end = P.sym('randomx_program_aarch64_imul_rcp_literals_end')
    start, loop = P.sym('randomx_program_aarch64'), P.sym('randomx_program_aarch64_main_loop')
    # prologue loads: ldr xN, <literal>
    loaded = {}
    for a in P.order:
        if not (start <= a < loop):
            continue
        i = P.ins[a]
        if i.mnem == 'ldr' and len(i.ops) == 1 and i.target is not None and i.ops[0].startswith('x'):
            loaded[i.target] = (rtasm.a64_reg(i.ops[0]), a)
    # the static text of the loop, piece by piece (every labelled fragment the generator may copy), followed up to the branch that closes the loop: the literal
    # registers must hold their entry value at the end of each piece (a fragment may spill and reload them)
    prog_end = P.sym('randomx_init_dataset_aarch64') if ctx.obj('a64').has('randomx_init_dataset_aarch64') else max(P.order)
    back = [a for a in P.order if loop <= a < prog_end and P.ins[a].kind == 'cbranch' and P.ins[a].target == loop]
    if not back:
        raise AnalysisBroken('A64-RCPLIT: the branch that closes the program loop was not found')
    stop = {P.nxt(P.ins[a]) for a in back}
    callees = {i.target for i in P.ins.values() if i.kind == 'call'}
    starts = sorted({a for a in P.sym_at if loop <= a < prog_end and a in P.ins and P.ins[a].kind != 'data' and a not in callees})
    loop_defs = {}
    for a0 in starts:
        if any(a0 >= s_ for s_ in stop) and a0 < max(stop) + 4 * 40 and all(P.ins[x].kind != 'jump' for x in P.order if max(stop) <= x < a0):
            continue            # the epilogue after the loop
        f = rtasm.Frame(P)
        f.run(a0, stop=stop)
        for r in f.written:
            if f.get(r) != ('init', r):
                loop_defs.setdefault(r, a0)
    R.saw(fn='randomx::JitCompilerA64::h_IMUL_RCP')
    for k, v in enumerate(lit[1]):
        reg = 'x%d' % ((v >> 16) & 31)
        slot = end - 8 * (k + 1)
        got = loaded.get(slot)
        inst = 'literal %d -> %s' % (k, reg)
        if v & ~(31 << 16):
            R.violation(inst, lit[2], expected='a register number in the Rm field (bits 16..20) only', found='%#x' % v)
            continue
        if got is None:
            R.violation(inst, lit[2], expected='the prologue loads %s from the literal slot at literals_end - %d' % (reg, 8 * (k + 1)), found='no prologue load from that slot')
        elif got[0] != reg:
            R.violation(inst, lit[2], expected='the register loaded from literal slot %d (%s, at %s)' % (k, got[0], P.name_at(got[1])), found=reg)
        elif reg in loop_defs:
            R.violation(inst, lit[2], expected='%s keeps its value through the static text of the loop' % reg, found='changed in the piece that starts at %s' % P.name_at(loop_defs[reg]))
        else:
            R.ok(inst, lit[2])


# ---------------------------------------------------------------------------------------------------------------------------
# [RT-CONST]  a register that the program prologue loads from a table entry holds that entry for the whole loop
RT_PROGRAM = {
    'a64': dict(obj='a64', isa='a64', src='src/jit_compiler_a64_static.S', entry='randomx_program_aarch64', loop='randomx_program_aarch64_main_loop', end='randomx_init_dataset_aarch64', config='K2'),
    'rv64': dict(obj='rv64', isa='rv', src='src/jit_compiler_rv64_static.S', entry='randomx_riscv64_prologue', loop='randomx_riscv64_loop_begin', end='randomx_riscv64_epilogue', config='K3'),
    'rvv': dict(obj='rvv', isa='rv', src='src/jit_compiler_rv64_vector_static.S', entry='randomx_riscv64_vector_program_begin', loop='randomx_riscv64_vector_program_main_loop',
                end='randomx_riscv64_vector_program_end', config='K3'),
}


def _pieces(P, lo, hi):
    callees = {i.target for i in P.ins.values() if i.kind == 'call'}
    return sorted({a for a in P.sym_at if lo <= a < hi and a in P.ins and P.ins[a].kind != 'data' and a not in callees})


def rule_const(ctx, R, arch):
    cfg = RT_PROGRAM[arch]
    rid = {'a64': 'A64-RT-CONST', 'rv64': 'RV-RT-CONST', 'rvv': 'RVV-RT-CONST'}[arch]
    R.rule(rid, 'a register that the hand-written program prologue loads from an entry of a constant table (masks, literals) and that a piece of the loop loads again is loaded from the same entry, and a register '
           'spilled around a call is reloaded from the slot it was spilled to: every labelled piece of the static loop text is followed instruction by instruction (frame slots, table addresses) and each register it '
           'leaves with a table value is compared with the value the prologue gave it', min_instances={'a64': 2, 'rv64': 2, 'rvv': 6}[arch])
    o = ctx.obj(cfg['obj'])
    P = rtasm.Prog(o, cfg['isa'])
    R.saw(unit=cfg['src'], config=cfg['config'])
    entry, loop, end = P.sym(cfg['entry']), P.sym(cfg['loop']), P.sym(cfg['end'])
    f0 = rtasm.Frame(P)
    at, why = f0.run(entry, stop={loop})
    if why != 'stop':
        raise AnalysisBroken('%s: the prologue that starts at %s does not run into %s in straight-line text (%s at %s)' % (rid, cfg['entry'], cfg['loop'], why, P.name_at(at)))
    base = {r: v for r, v in f0.reg.items() if v[0] == 'mem'}
    if not base:
        raise AnalysisBroken('%s: the prologue loads no register from a table' % rid)
    for r, v in sorted(base.items()):
        R.ok('prologue: %s = [%s]' % (r, P.name_at(v[1])), '%s:%s' % (cfg['src'], cfg['entry']))
    # registers that hold a table address on entry to the loop and that no piece of the loop changes
    inv = {r: v for r, v in f0.reg.items() if v[0] == 'addr'}
    while True:
        drop = set()
        for a0 in _pieces(P, loop, end):
            f = rtasm.Frame(P)
            f.reg.update(inv)
            f.run(a0, stop={loop, end})
            drop |= {r for r in inv if f.get(r) != inv[r]}
        if not drop:
            break
        for r in drop:
            del inv[r]
    n = 0
    starts = _pieces(P, loop, end)
    for a0 in starts:
        f = rtasm.Frame(P)
        f.reg.update(inv)
        # up to the next label the generator can address: a constant has its value at every such point
        f.run(a0, stop={loop, end} | set(starts))
        for r in sorted(f.written):
            v = f.get(r)
            b = base.get(r)
            if v[0] == 'mem' and b is not None:
                n += 1
                inst = '%s reloaded in the piece at %s' % (r, P.name_at(a0))
                if v != b:
                    R.violation(inst, '%s:%s' % (cfg['src'], P.name_at(a0)), expected='[%s], the entry the prologue loads %s from' % (P.name_at(b[1]), r), found='[%s]' % P.name_at(v[1]))
                else:
                    R.ok(inst, '%s:%s' % (cfg['src'], P.name_at(a0)))


# ---------------------------------------------------------------------------------------------------------------------------
# [RV-RT-PRESERVE]  the same contract for the two RISC-V runtimes
RV_ALL = {'x%d' % i for i in range(1, 32)} | {'f%d' % i for i in range(32)} | {'v%d' % i for i in range(32)}
# RISC-V psABI: what a C caller expects to find unchanged
RV_CALLEE_SAVED = {'x2', 'x8', 'x9'} | {'x%d' % i for i in range(18, 28)} | {'f8', 'f9'} | {'f%d' % i for i in range(18, 28)}


def _rv_vm_registers(ctx, arch):
    from domains import KB, KBEval
    if arch == 'rvv':
        return {'x%d' % i for i in range(20, 28)}
    F, hs = jit.handlers(ctx, 'rv64')
    regR = [f for f in F.in_file('jit_compiler_rv64.cpp') if f['name'] == 'regR']
    if len(regR) != 1:
        raise AnalysisBroken('RV-RT-PRESERVE: regR not found')
    out = set()
    for i in range(8):
        ev = KBEval(F, {regR[0]['params'][0]['id']: KB.const(32, i)})
        rets = []
        ev._exec(regR[0]['body'], rets)
        v = rets[0].value() if rets else None
        if v is None:
            raise AnalysisBroken('RV-RT-PRESERVE: regR(%d) is not a constant' % i)
        out.add('x%d' % v)
    return out


def rule_rv(ctx, R, arch):
    cfg = RT_PROGRAM[arch]
    rid = {'rv64': 'RV-RT-PRESERVE', 'rvv': 'RVV-RT-PRESERVE'}[arch]
    R.rule(rid, 'every routine the hand-written RISC-V runtime calls while a program is running leaves unchanged every register that is read afterwards before being written (callee text followed with its frame slots; '
           'liveness over the static text; generated code reads the eight VM integer registers; a return to C++ needs the psABI callee-saved registers); registers that only generated code could read are not decided',
           min_instances={'rv64': 18, 'rvv': 1}[arch])
    o = ctx.obj(cfg['obj'])
    P = rtasm.Prog(o, 'rv')
    R.saw(unit=cfg['src'], config=cfg['config'])
    gen_live = _rv_vm_registers(ctx, arch)
    uu_memo = {}

    def call_uses(i):
        if i.target not in uu_memo:
            uu_memo[i.target] = rtasm.upward_uses(P, i.target) if i.target in P.ins else set(RV_ALL)
        return uu_memo[i.target]
    f0 = rtasm.Frame(P)
    loop_, end_ = P.sym(cfg['loop']), P.sym(cfg['end'])
    f0.run(P.sym(cfg['entry']), stop={loop_})
    # constants the prologue loads from a table and that no piece of the loop loads again have to survive every call as well
    reloaded = set()
    for a0 in _pieces(P, loop_, end_):
        fp = rtasm.Frame(P)
        fp.reg.update({r: v for r, v in f0.reg.items() if v[0] == 'addr'})
        fp.run(a0, stop={loop_, end_})
        reloaded |= {r for r in fp.written if fp.get(r)[0] == 'mem'}
    state = set(gen_live) | {r for r, v in f0.reg.items() if v[0] == 'addr'} | {r for r, v in f0.reg.items() if v[0] == 'mem' and r not in reloaded}
    link = {}
    if arch == 'rvv':
        # the light-mode dataset read calls through a pointer that the generator sets to the dataset-item routine of the same file
        link = {'randomx_riscv64_vector_program_main_loop_mx_xor_light_mode': 'randomx_riscv64_vector_sshash_dataset_init'}
    sites = [i for a, i in sorted(P.ins.items()) if i.kind in ('call', 'icall')]
    undecided = []
    for i in sites:
        nm = P.name_at(i.addr)
        target, tname = i.target, i.tsym
        if i.kind == 'icall':
            piece = nm.split('+')[0]
            if piece not in link:
                raise AnalysisBroken('%s: indirect call at %s has no known callee' % (rid, nm))
            tname = link[piece]
            target = P.sym(tname)
        if target not in P.ins:
            raise AnalysisBroken('%s: call at %s has no target in the runtime text' % (rid, nm))
        f = rtasm.Frame(P)
        end, why = f.run(target)
        hops = 0
        while why == 'leave' and hops < 4:
            # a gap the generator fills with code: go on at the next labelled instruction (what the inserted code writes is not known here, so the
            # set of changed registers is a lower bound - enough for a violation, never the reason for one)
            nxt = [a for a in P.order if a > end and P.ins[a].kind != 'data' and a in P.sym_at]
            if not nxt or any(P.ins[a].kind != 'data' for a in P.order if end <= a < nxt[0]):
                break
            hops += 1
            end, why = f.run(nxt[0])
        inst = 'call of %s at %s' % (tname, nm)
        where = '%s:%s' % (cfg['src'], nm)
        if why != 'ret':
            if f.slots:
                R.note('%s: %s runs into generated code with registers spilled; not decided' % (rid, inst))
                R.ok(inst + ' (callee continues in generated code: not decided)', where)
                continue
        changed = sorted((r for r in f.written if f.get(r) != ('init', r) and r != 'x2'), key=lambda r: (r[0], int(r[1:])))
        sp_ok = f.get('x2') == ('sp', 0) or why != 'ret'
        cu = rtasm.upward_uses(P, target)
        lo, reach = P.liveness_after(P.nxt(i), gen_live, RV_CALLEE_SAVED, call_uses)
        hi, _ = P.liveness_after(P.nxt(i), RV_ALL, RV_CALLEE_SAVED | {'x10', 'x11', 'f10'}, call_uses)
        results = (set(changed) & cu) - state
        clob = (set(changed) - results) | set(i.defs)
        # the superscalar routine hands its eight results back in registers it does not read, so a changed register that the caller reads is not by itself
        # a fault here: only the registers that carry state of the program across the call are decided (VM registers, table pointers set up by the prologue)
        bad = sorted(clob & lo & state)
        maybe = sorted(((clob & hi) - lo) & state)
        R.saw(fn=tname)
        if not sp_ok:
            R.violation(inst, where, expected='stack pointer restored', found=f.get('x2'))
        elif bad:
            R.violation(inst, where, expected='registers read after the call keep their value', found='%s changed by %s and read afterwards (changed: %s)' % (', '.join(bad), tname, ', '.join(changed) or 'none'))
        else:
            R.ok(inst, where)
            if maybe:
                undecided.append('%s: %s' % (inst, ', '.join(maybe)))
    if undecided:
        R.note('%s does not decide registers that only generated code could read after the call: %s' % (rid, ' | '.join(sorted(set(undecided))[:4])))


# ---------------------------------------------------------------------------------------------------------------------------
# [*-RT-STOREORDER]  specification 4.6.2: r0-r7 are written (step 9) before f0-f3 (step 11); the two scratchpad lines can coincide
def rule_store_order(ctx, R, arch):
    rid = {'a64': 'A64-RT-STOREORDER', 'rv64': 'RV-RT-STOREORDER'}[arch]
    cfg = RT_PROGRAM[arch]
    R.rule(rid, 'at the end of an iteration the hand-written runtime stores the eight VM integer registers to the scratchpad before it stores the four f registers (specification 4.6.2 steps 9 and 11: the two '
           'addresses can select the same line, which must then hold f0-f3), through two different base registers: the static text is followed from the store of the integer registers to the branch that closes the loop, '
           'for each variant of the piece the generator can copy', min_instances=2)
    P = rtasm.Prog(ctx.obj(cfg['obj']), cfg['isa'])
    R.saw(unit=cfg['src'], config=cfg['config'])
    if arch == 'a64':
        F, regmap, lit = _a64_tables(ctx)
        vm = {'x%d' % r for r in regmap}
        starts = [('randomx_program_aarch64_update_spMix1', 'hardware AES / v1')]
        stop = {P.sym('randomx_program_aarch64_main_loop'), P.sym('randomx_program_aarch64_vm_instructions_end_light')}
        isf = lambda r: r.startswith('v')
        variants = [('', {})]
        # the software-AES variant: the generator turns the instruction at v2_FE_mix into a branch to the soft-AES piece
        variants.append(('software AES', {P.sym('randomx_program_aarch64_v2_FE_mix'): P.sym('randomx_program_aarch64_v2_FE_mix_soft_aes')}))
        variants.append(('hardware AES v2', {P.sym('randomx_program_aarch64_v2_FE_mix'): P.sym('randomx_program_aarch64_v2_FE_mix') + 4}))
        begin = P.sym('randomx_program_aarch64_update_spMix1')
    else:
        vm = _rv_vm_registers(ctx, 'rv64')
        isf = lambda r: r.startswith('f')
        stop = {P.sym('randomx_riscv64_loop_end')}
        variants = [('', {})]
        begin = None
    runs = []
    if arch == 'a64':
        for tag, redirect in variants:
            runs.append((tag or 'v1', begin, redirect))
    else:
        runs.append(('plain', P.sym('randomx_riscv64_spad_store'), {}))
        runs.append(('software AES', P.sym('randomx_riscv64_spad_store_softaes'), {}))
        stop = {P.sym('randomx_riscv64_loop_end'), P.sym('randomx_riscv64_spad_store_softaes')}
    for tag, a0, redirect in runs:
        # walk in execution order
        order, a, n = [], a0, 0
        stack = []
        seen_stop = False
        while n < 4000:
            n += 1
            if a in redirect:
                a = redirect[a]
                continue
            if a in stop and n > 1 and not (arch == 'rv64' and a == a0):
                break
            i = P.ins.get(a)
            if i is None or i.kind == 'data':
                break
            if i.kind == 'store':
                order.append(i)
            if i.kind == 'ret':
                if stack:
                    a = stack.pop()
                    continue
                break
            if i.kind == 'jump':
                if i.target not in P.ins:
                    break
                a = i.target
                continue
            if i.kind == 'call' and i.target in P.ins:
                stack.append(P.nxt(i))
                a = i.target
                continue
            if i.kind == 'cbranch' and i.target is not None and i.target <= a0 and not stack:
                break               # the branch that closes the loop
            a = P.nxt(i)
        sp = 'sp' if arch == 'a64' else 'x2'

        def base_of(i):
            mo = [o for o in i.ops if '[' in o or '(' in o]
            rs = (rtasm.a64_regs_in(mo[0]) if arch == 'a64' else rtasm.rv_regs_in(mo[0])) if mo else []
            return rs[0] if rs else None

        def data_of(i):
            b = base_of(i)
            return [r for r in i.uses if r != b]
        ints = [(k, i) for k, i in enumerate(order) if base_of(i) != sp and data_of(i) and all(r in vm for r in data_of(i))]
        bi0 = {base_of(i) for _, i in ints}
        # the f registers are stored through the other address register: directly (A64 q registers) or after a move to integer temporaries (RV64)
        fps = [(k, i) for k, i in enumerate(order) if base_of(i) != sp and base_of(i) not in bi0 and data_of(i) and not any(r in vm for r in data_of(i))]
        where = '%s:%s' % (cfg['src'], P.name_at(a0))
        got_i = {r for _, i in ints for r in data_of(i)}
        inst = '%s piece' % tag
        if got_i != vm or not fps:
            R.violation(inst, where, expected='stores of all eight VM integer registers and of the f registers on the way to the end of the loop', found='integer registers stored: %s; floating-point stores: %d' % (sorted(got_i), len(fps)))
            continue
        bi, bf = {base_of(i) for _, i in ints}, {base_of(i) for _, i in fps}
        ok = max(k for k, _ in ints) < min(k for k, _ in fps) and not (bi & bf)
        R.check(ok, inst, where, expected='every integer-register store (through %s) before every f-register store (through %s)' % (sorted(bi), sorted(bf)),
                found='last integer store at %s, first f store at %s' % (P.name_at(max(ints)[1].addr), P.name_at(min(fps)[1].addr)))


# ---------------------------------------------------------------------------------------------------------------------------
# [RVV-RT-GENINPUT]  registers that generated program code only reads are left alone by every piece of the hand-written loop
def rule_rvv_geninput(ctx, R):
    from domains import KB
    from rules import rvhsem as V
    R.rule('RVV-RT-GENINPUT', 'a register that the code generated by the vector RISC-V back-end reads without ever writing it (the CBRANCH mask source, the scratchpad base and masks) is an input the hand-written runtime provides: '
           'every piece of the static loop that can run between two programs leaves it with its entry value (or reloads the table entry the prologue loaded it from); the registers are collected by executing every '
           'instruction handler of the generator on known bits and disassembling the words it emits', min_instances=3)
    cfg = RT_PROGRAM['rvv']
    F, hs = jit.handlers(ctx, 'rvv')
    R.saw(config='K3', unit='src/jit_compiler_rv64_vector.cpp')
    words = []
    spans = []
    for name, h in sorted(hs.items()):
        for d, s_, mod, imm in ((3, 1, 0x21, 0x12345678), (5, 5, 0xE0, 0xFFFFF800), (0, 7, 0x03, 0x40)):
            fields = {'dst': KB.const(8, d), 'src': KB.const(8, s_), 'mod': KB.const(8, mod)}
            ov = {'randomx::Instruction::getImm32': KB.const(32, imm), 'randomx::Instruction::getModShift': KB.const(32, (mod >> 2) & 3), 'randomx::Instruction::getModMem': KB.const(32, mod & 3),
                  'randomx::Instruction::getModCond': KB.const(32, mod >> 4)}
            ex = V.RvExec(F, fields, ov)
            try:
                ex.run(h.f, [])
            except Exception:
                pass                        # the words emitted up to a construct the executor does not follow still count
            ws = [(sz, w.value()) for sz, w, wh in ex.words if w.value() is not None]
            spans.append((name, len(words), len(words) + len(ws)))
            words += ws
    if len(words) < 100:
        raise AnalysisBroken('RVV-RT-GENINPUT: only %d words collected from the generator' % len(words))
    ins = rtasm.disasm_words(ctx, words)
    if len(ins) != len(words):
        raise AnalysisBroken('RVV-RT-GENINPUT: %d words disassemble to %d instructions' % (len(words), len(ins)))
    exposed, written = {}, set()
    for name, a, b in spans:
        wr = set()
        for i in ins[a:b]:
            for r in i.uses:
                if r.startswith('x') and r not in wr:
                    exposed.setdefault(r, name)
            for r in i.defs:
                wr.add(r)
                written.add(r)
    inputs = sorted((r for r in exposed if r not in written and r != 'x2'), key=lambda r: int(r[1:]))
    if not inputs:
        raise AnalysisBroken('RVV-RT-GENINPUT: generated code has no read-only integer register')
    P = rtasm.Prog(ctx.obj('rvv'), 'rv')
    R.saw(unit=cfg['src'], config='K3')
    entry, loop, end = P.sym(cfg['entry']), P.sym(cfg['loop']), P.sym(cfg['end'])
    f0 = rtasm.Frame(P)
    f0.run(entry, stop={loop})
    base = {r: v for r, v in f0.reg.items() if v[0] == 'mem'}
    inv = {r: v for r, v in f0.reg.items() if v[0] == 'addr'}
    starts = _pieces(P, loop, end)
    for r in inputs:
        bad = None          # (a register the prologue does not write is an incoming argument of the program function)
        for a0 in starts:
            # pieces on the way out of the loop (they end in the return of the program function) restore the caller's registers
            fx = rtasm.Frame(P)
            at, why = fx.run(a0, stop={loop})
            if why != 'stop':
                continue
            f = rtasm.Frame(P)
            f.reg.update(inv)
            f.run(a0, stop={loop, end} | set(starts))
            if r in f.written and not f.opaque:
                v = f.get(r)
                if v != ('init', r) and not (r in base and v == base[r]):
                    bad = (a0, v)
                    break
        if bad:
            v = bad[1]
            R.violation('%s (read by generated %s code)' % (r, exposed[r]), '%s:%s' % (cfg['src'], P.name_at(bad[0])), expected='left with its entry value by every piece of the loop',
                        found='the piece at %s leaves %s' % (P.name_at(bad[0]), ('the entry value of %s' % v[1]) if v[0] == 'init' else ('a value computed at %s' % P.name_at(v[1])) if v[0] == 'other' and isinstance(v[1], int) else str(v)))
        else:
            R.ok('%s (read by generated %s code)' % (r, exposed[r]), '%s:%s' % (cfg['src'], cfg['loop']))


# ---------------------------------------------------------------------------------------------------------------------------
# [A64-RT-CALLDEST]  calls from the copied template into the part the generator rewrites land on its first byte
def rule_a64_calldest(ctx, R):
    from astq import walk, show
    R.rule('A64-RT-CALLDEST', 'the A64 generator copies the template up to randomx_init_dataset_aarch64_end and writes the dataset-item routine anew directly behind it (generateSuperscalarHash starts at CodeSize = that label - '
           'randomx_program_aarch64); the pc-relative calls in the copied part that leave it must therefore target exactly that address - an alignment gap or a moved label makes them skip or repeat instructions of the routine', min_instances=2)
    P = rtasm.Prog(ctx.obj('a64'), 'a64')
    R.saw(unit='src/jit_compiler_a64_static.S', config='K2')
    F, hs = jit.handlers(ctx, 'a64')
    g = F.func('randomx::JitCompilerA64::generateSuperscalarHash')
    R.saw(fn=g['q'])
    start_decl = None
    for x in walk(g['body']):
        if x['k'] == 'Decl':
            for d in x['d']:
                if d.get('name') == 'codePos' and d.get('init') is not None:
                    start_decl = show(d['init'])
            if start_decl:
                break
    cs = None
    for q in ('randomx::CodeSize', 'CodeSize'):
        if F.has_glob(q):
            cs = F.glob(q)
    if cs is None or start_decl is None:
        raise AnalysisBroken('A64-RT-CALLDEST: CodeSize / the start position of generateSuperscalarHash not found')
    cs_txt = show(cs['init']) if cs.get('init') is not None else ''
    m = re.findall(r'randomx_\w+', cs_txt)
    if 'CodeSize' not in start_decl or len(m) != 2 or '-' not in cs_txt:
        raise AnalysisBroken('A64-RT-CALLDEST: generateSuperscalarHash does not start at CodeSize = label - label (%s; %s)' % (start_decl, cs_txt[:80]))
    end_sym, beg_sym = m[0], m[1]
    lo, hi = P.sym(beg_sym), P.sym(end_sym)
    n = 0
    for a in P.order:
        if not (lo <= a < hi):
            continue
        i = P.ins[a]
        if i.kind == 'call' and i.target is not None and not (lo <= i.target < hi):
            n += 1
            R.check(i.target == hi, 'bl at %s' % P.name_at(a), 'src/jit_compiler_a64_static.S:%s' % P.name_at(a), expected='%s (= code + CodeSize, the first byte the generator writes)' % end_sym,
                    found='%s, %d bytes behind it' % (P.name_at(i.target), i.target - hi))
    if n < 2:
        raise AnalysisBroken('A64-RT-CALLDEST: only %d calls out of the copied part' % n)
