"""C20 RISC-V 64 JIT output is equivalent to the interpreter."""
import astq
from rules import genreset, jit, jitcross, rv64, rvhsem, rtpreserve, rvdsread, aeshw, rvfp, cfrcross, readreg

LEVEL = 'other'
TECHNIQUE = ('cross-target parse (clang --target=riscv64) of the back-end that this host never compiles + sibling agreement with the interpreter on resolved-AST feature vectors, known-bits evaluation of emitted constants and of branch-offset bit scatter against the ISA encoding tables, finite enumeration of the literal-pool index, max-path code-size bound against the assembled template'
         '; symbolic translation validation of the integer register-form handlers: known-bits execution of the emitter for constant instruction fields, decoding of the emitted code, application to a register file of terms over r0..r7, comparison of normal forms with the terms of specification 5.2 (RV64IMC decoder, rotation idiom srl/sll/or recognised); needs / must-set summaries of generator state')
CLAIM = ('Decides statically, on the RV64GC configuration: the back-end and its companion units type-check; its opcode table, last-writer marking per instruction and guard, src == dst special-casing and the IMUL_RCP no-op rule agree with the interpreter; '
         'CBRANCH constants are right for all 16 shifts, the jump target is the last writer of the branch register, each branch form is used only within its encodable range and scatters the distance bits as the ISA demands; '
         'emitImm32 splits every 32-bit constant correctly and uses addiw after lui; every IMUL_RCP literal is stored where the emitted load reads it, inside the pool and clear of the other literals; scratchpad mask selection equals the decoder\'s and '
         'the mask / E-mask literals and registers line up with the template; ISUB_R does not negate before sign extension; the SuperscalarHash emitter handles all 14 kinds; per-instruction code fits the reserve; RW/RX/RWX helpers and mapping sizes are consistent. '
         'The meaning of the emitted words is decided for the ten integer register-form instructions (RV-HSEM: 2744 cases) and for the SuperscalarHash emitter except IMUL_RCP (RV-SS-HSEM) by symbolic execution on a register file of terms; no generator member survives a generate* call (GEN-RESET). The floating-point and branch handlers remain covered by the structural and bit-level rules only; the vector (RVV) generator belongs to C01 / C18.'
         ' The far CBRANCH form is decoded from the emitted constant (branch-if-not-zero over the 4-byte jal).'
         ' The six memory-form integer instructions and ISTORE are validated the same way with a symbolic scratchpad: the emitted code must access exactly scratchpad + ((src + sext(imm32)) & mask) with the L1 / L2 / L3 mask the specification selects (src == dst: imm32 & L3 mask) (RV-MEM-HSEM, mask registers as loaded by the template); marks are the current instruction index (LW-VALUE).')
LEVEL_NOTE = 'Trusted: clang cross parse with host libstdc++ headers plus stub headers; the clang assembler and llvm-objdump for the two static .S files (vector file with the documented substitutions); RISC-V instruction semantics and the B/J/CB encoding tables written into the checker; value semantics of the hand-written runtime beyond the fragments listed in the claim; floating-point and branch handlers at word level.'
EXPLANATION = ('PORT-TYPECHECK(K3), TAB-OPC, LW-SIB, SPLIT-SIB, RCP-NOOP, CBR-BITS/TARGET, RV-BRANCH-RANGE, RV-BRANCH-ENC, RV-IMM32, RV-IMM32-SPLIT, RV-RCPPOOL, MEM-JITMASK, RV-EMASK, IMM-NEG, SS-EXH, CG-SIZE-RV64, WX-ARCH, A64-EMASK.'
         ' RV-HSEM, RV-SS-HSEM, GEN-RESET.'
         ' RV-MEM-HSEM, LW-VALUE.')

CLAIM += (' Hand-written runtime (jit_compiler_rv64_static.S, assembled for RV64GC and for RV64GC+Zba+Zbb): the dataset read fragment that every program contains is executed on terms and must perform specification 4.6.2 steps 5-8 - zero-extended 32-bit XOR into mx (v1) or the shifted XOR into the upper half (v2), the eight line words XORed into r0..r7, next line pointer = dataset base + (ma:mx & CacheLineAlignMask), halves swapped (RV-DSREAD-HSEM); the routines called inside the loop (SuperscalarHash, software AES) change no VM register, table pointer or never-reloaded prologue constant (RV-RT-PRESERVE); constants reloaded inside the loop come from the entry the prologue used (RV-RT-CONST); the light-mode dataset offset is the configured one (RV-DSOFF).')
EXPLANATION += ' RV-DSREAD-HSEM (2 builds x v1/v2), RV-RT-PRESERVE (18 call sites), RV-RT-CONST, RV-DSOFF.'

TECHNIQUE += '; def-use, backward liveness and a frame-slot value-preservation analysis over the disassembly of the hand-written runtime assembled for the target (two ISA variants); translation validation of the dataset-read fragment on a term domain'

EXPLANATION += ' RV-RT-STOREORDER, CTOR-INIT, RVV-JIT-VLEN.'

EXPLANATION += ' RV-LOOPLOAD, RV-DSREAD-LIGHT.'
CLAIM += (' The load half of the loop executed on terms: r_j ^= quadword j at the first address, f / e lanes converted from the sixteen 32-bit integers at the second address in order, e lanes masked with one and-mask and the or-mask of their lane parity (RV-LOOPLOAD, both ISA variants).')

EXPLANATION += ' RV-DSITEM-HSEM.'

EXPLANATION += ' RV-FP-HSEM.'
CLAIM = CLAIM.replace('The floating-point and branch handlers remain covered by the structural and bit-level rules only;', 'The branch handlers remain covered by the bit-level rules;')
CLAIM += (' The nine floating-point handlers are validated at word level on f registers that hold terms (two scalar registers per VM register): operation, operand registers and lanes of specification 5.3, memory operands from the two 32-bit integers at the masked scratchpad address, FDIV_M through the and-mask and the or-mask of its lane as in the loop head, FSCAL_R with the register the prologue loads 0x80F0000000000000 into; the lane functions regLo / regHi agree with the hand-written loop head and prologue (RV-FP-HSEM).')

EXPLANATION += ' RV-CFR-BITS.'
CLAIM += (' CFROUND is decided bit by bit for all 64 rotation counts, v1 and v2: the table index is 4 * (source bits imm mod 64 and the next), the word loaded from the literal pool goes to frm, the four table words are the RISC-V encodings of nearest / down / up / zero, the v2 branch tests bits 2-5 and skips exactly the rest of the handler (RV-CFR-BITS).')


CLAIM += (' Every instruction word the A64, RV64 and vector-RV64 program generators build from the read-register members of the program configuration is, evaluated and decoded, an XOR of the registers of (readReg0, readReg1) - 64-bit - or of (readReg2, readReg3), and each back-end builds both (JIT-READREG; specification 4.6.2 steps 1 and 5).')
EXPLANATION += ' JIT-READREG.'

def run(ctx, R):
    FI = astq.Facts(ctx, 'K0')
    R.saw(config='K3')
    jitcross.rule_typecheck_arch(ctx, R, 'K3', 'rv64')
    jit.rule_tab_opc(ctx, R, 'rv64', FI)
    jit.rule_lw_sib(ctx, R, 'rv64', FI)
    jit.rule_rcp(ctx, R, 'rv64')
    rv64.rule_cbr(ctx, R, FI)
    rv64.rule_branch_forms(ctx, R)
    rv64.rule_imm32(ctx, R)
    rv64.rule_rcppool(ctx, R, FI)
    rv64.rule_jitmask(ctx, R, FI)
    rv64.rule_emask_pool(ctx, R)
    jitcross.rule_immneg(ctx, R, 'rv64')
    jitcross.rule_ssexh(ctx, R, 'rv64', FI)
    rv64.rule_cgsize(ctx, R, FI)
    jitcross.rule_life_wx_arch(ctx, R, 'rv64')
    jitcross.rule_emask(ctx, R, 'rv64')
    genreset.rule_gen_reset(ctx, R, 'rv64')
    rvhsem.rule_hsem(ctx, R)
    rvhsem.rule_ss_hsem(ctx, R)
    jit.rule_lw_value(ctx, R, 'rv64')
    rvhsem.rule_mem_hsem(ctx, R)
    rvhsem.rule_dsoff(ctx, R)
    rtpreserve.rule_rv(ctx, R, 'rv64')
    rtpreserve.rule_const(ctx, R, 'rv64')
    rvdsread.rule_dsread(ctx, R)
    rvdsread.rule_loopload(ctx, R)
    rvdsread.rule_dsread_light(ctx, R)
    aeshw.rule_rvv_jit_vlen(ctx, R)
    genreset.rule_ctor_init(ctx, R, 'rv64')
    rtpreserve.rule_store_order(ctx, R, 'rv64')
    rvdsread.rule_dsitem(ctx, R)
    rvfp.rule_fp_hsem(ctx, R)
    cfrcross.rule_rv(ctx, R)
    readreg.rule_readreg(ctx, R)
