"""C11 Blake2b and the commitment function conform to RFC 7693."""
import astq
from rules import blake, membound, portable

LEVEL = 'other'
TECHNIQUE = 'statement-by-statement structural comparison of the compression function with RFC 7693 (generated reference form), constants derived from first principles, CFG reachability for parameter rejection, linear guard reasoning on the buffering logic; evaluation of the byte-count bookkeeping slice of update / final'
CLAIM = ('Decides statically that the bundled Blake2b has the RFC 7693 structure: IV (computed from the primes), sigma, rotation constants, the 96 G-mix statements of the 12 rounds with their index quadruples and message '
         'word selection, v/h initialisation and feed-forward, the 128-bit counter, last-block flag, zero padding, the parameter block layout and its unkeyed/keyed contents; the streaming interface keeps the last block '
         'buffered with strict comparisons and reads exactly the given bytes; no output byte is written on any rejected parameter combination; the commitment is init(32).update(input).update(hash).final. '
         'Digest equality for all lengths/chunkings follows from these plus 64-bit arithmetic, which is not re-derived numerically.'
         ' The streaming behaviour of blake2b_update (which blocks are compressed, with which counter, what stays buffered) and blake2b_final (counter, flag, padding, exactly outlen output bytes) are decided on the bookkeeping slice for every buffered length x input length 0..300 and digest lengths 1..64, whatever the shape of the code (B2-STREAM, B2-FINAL); no output byte is written on a path that can still reject.'
         ' A valid call is never rejected, and the empty chunk (NULL, 0) that blake2b() passes on for an empty message is accepted and changes nothing (B2-STREAM).')
LEVEL_NOTE = 'Trusted: clang AST (after macro expansion of G/ROUND); little-endian load/store helpers; that the RFC text encoded in the checker (sigma, G structure) is transcribed correctly (IV is computed, not transcribed).'
EXPLANATION = 'B2-CONST, B2-COMPRESS (96 round statements + initialisation), B2-UPDATE, B2-REJECT, B2-KEYED, B2-COMMIT, B2-INBOUND. B2-STREAM, B2-FINAL.'

CLAIM += (' The byte-order helpers through which Blake2b reads message words and writes the digest (load32/48/64, store32/48/64) produce / consume the little-endian image on five big-endian cross targets, whichever branch the byte-order predicate of endian.h selects there (PORT-ENDIAN).')
EXPLANATION += ' PORT-ENDIAN (K6, K7a-d).'
TECHNIQUE += '; byte-accurate abstract evaluation of the byte-order helpers on big-endian cross parses'


def run(ctx, R):
    F = astq.Facts(ctx, 'K0')
    R.saw(config='K0')
    blake.rule_const(ctx, R, F)
    blake.rule_compress(ctx, R, F)
    blake.rule_update_final(ctx, R, F)
    blake.rule_reject(ctx, R, F)
    blake.rule_keyed(ctx, R, F)
    blake.rule_commit(ctx, R, F)
    membound.rule_b2_inbound(ctx, R, F)
    portable.rule_endian(ctx, R)      # message words, parameter block and digest are little-endian on every target
