"""C09 SuperscalarHash programs are well-formed and spec-conformant for every key."""
import astq
from rules import a64hsem, a64sem, jitcross, rv64, rvhsem, spec, sshash, x86hsem

LEVEL = 'other'
TECHNIQUE = ('exhaustiveness over the instruction enumeration in generator / interpreter / x86 emitter, guard-dominates-choice rules for the operand constraints of Table 6.1.1, CFG dominance for the size bound, table agreement with spec 6.1-6.3, known-bits on emitted immediates'
         '; evaluation of the destination-admission paths of the generator against the five conditions of specification 6.3.4; symbolic translation validation of the three native SuperscalarHash emitters')
CLAIM = ('Decides statically for every key: the ten instruction kinds (14 enumerators) are handled exhaustively by generator, interpreter and x86 emitter; each operand rule of Table 6.1.1 is enforced by a guard on the register / immediate choice '
         '(dst != src where required, r5 never the destination of IADD_RS, non-zero rotation, reciprocal divisor neither 0 nor 2^k); the program can never exceed 3*170+2 instructions and the buffer has that size; the address register is the '
         'arg-max of the recomputed dependency-chain lengths; macro-op, decoder-group and slot tables equal the specification; the interpreter applies the specified operation per kind; the x86 emitter encodes immediates only as '
         'full 32-bit fields or provably 7-bit counts. Which program a given key yields, termination of the two rejection loops (probabilistic) are not claimed.'
         ' The A64 and RV64 SuperscalarHash emitters also have an executing case for each of the 14 kinds.'
         ' The destination-register admission of the generator is decided by evaluating its paths for 40320 combinations of the quantities specification 6.3.4 names (SS-RULES). Native code: for every instruction kind (A64 / RV64: except IMUL_RCP, whose multiplier comes from a literal pool) the words the x86, A64 and RV64 emitters produce are given their architectural meaning on terms over r0..r7 and must equal Table 6.1.1 (X86-SS-HSEM, A64-SS-HSEM, RV-SS-HSEM); the A64 constant helpers are decided for every 32-bit constant (A64-IMMHELP).')
LEVEL_NOTE = 'Trusted: clang AST; spec tables as oracle; the scheduling simulation (port model) is compared only through its tables, its control flow is not re-derived.'
EXPLANATION = ('SS-EXH (14 x 5), SS-RULES, SS-SIZE, SS-ADDRREG, SPEC-SSTABLES, SS-EXEC, IMM-ENC, SPEC-BLAKEGEN. SS-EXH for A64 / RV64.'
         ' SS-RULES (evaluated), X86-/A64-/RV-SS-HSEM, A64-IMMHELP.')

EXPLANATION += ' RVV-SS-HSEM, RVV-SS-RCPPOOL (literal paging of the vector generator).'


def run(ctx, R):
    F = astq.Facts(ctx, 'K0')
    R.saw(config='K0')
    sshash.rule_exh(ctx, R, F)
    sshash.rule_rules(ctx, R, F)
    sshash.rule_size(ctx, R, F)
    sshash.rule_addrreg(ctx, R, F)
    sshash.rule_tables(ctx, R, F)
    sshash.rule_exec(ctx, R, F)
    sshash.rule_immenc(ctx, R, F)
    spec.rule_blakegen(ctx, R, F)
    jitcross.rule_ssexh(ctx, R, 'a64', F)
    jitcross.rule_ssexh(ctx, R, 'rv64', F)
    a64sem.rule_immhelp(ctx, R)      # constants of IADD_C* / IXOR_C* reach the A64 code through emitMovImmediate / emitAddImmediate
    x86hsem.rule_ss_hsem(ctx, R)
    a64hsem.rule_ss_hsem(ctx, R)
    rvhsem.rule_ss_hsem(ctx, R)
    rvhsem.rule_rvv_ss_hsem(ctx, R)
    rv64.rule_rvv_ss_rcp(ctx, R)
