"""Bit-level GF(2)-linear normal form of terms built from xor, and / or with constants, constant shifts and rotations.

Every value is 64 sets of input bits (bit i of the value is the XOR of the input bits in set i; the pseudo-input ONE stands for a constant 1).  Two terms of this
fragment are equal on a set of observed bit positions iff their sets agree there - a proof, not a sample.  Used where the specification itself only fixes some bits
of a word (the halves of ma:mx are only ever used under CacheLineAlignMask, so the bits outside the mask are unobservable).
"""
from rules import a64hsem as T
from rules import rvhsem as V

ONE = ('one',)


class NotLinear(Exception):
    pass


def _const(c):
    return [frozenset([ONE]) if (c >> i) & 1 else frozenset() for i in range(64)]


def _xor(a, b):
    return [x ^ y for x, y in zip(a, b)]


def _shl(a, s):
    return [frozenset()] * s + a[:64 - s] if s else list(a)


def _shr(a, s):
    return a[s:] + [frozenset()] * s if s else list(a)


def _ror(a, n):
    n %= 64
    return a[n:] + a[:n]


def _disjoint_sum(parts):
    out = [frozenset()] * 64
    for p in parts:
        for i in range(64):
            if p[i] and out[i]:
                raise NotLinear('addition of overlapping bit ranges')
        out = [x | y for x, y in zip(out, p)]
    return out


def bits_of_lin(x):
    parts = []
    if x.c:
        parts.append(_const(x.c))
    for a, k in x.t.items():
        if k & (k - 1) or k == 0:
            raise NotLinear('coefficient %#x' % k)
        parts.append(_shl(bits_of_atom(a), k.bit_length() - 1))
    if not parts:
        return [frozenset()] * 64
    if len(parts) == 1:
        return parts[0]
    return _disjoint_sum(parts)


def bits_of_atom(a):
    k = a[0]
    if k in ('reg', 'undef', 'fundef', 'spad', 'litpool', 'frame', 'item'):
        return [frozenset([(a, i)]) for i in range(64)]
    if k == 'xor':
        return _xor(bits_of_lin(V.lin_of(a[1])), bits_of_lin(V.lin_of(a[2])))
    if k == 'and':
        p, q = V.lin_of(a[1]), V.lin_of(a[2])
        for m_, z_ in ((p, q), (q, p)):
            if m_.is_const():
                b = bits_of_lin(z_)
                return [b[i] if (m_.c >> i) & 1 else frozenset() for i in range(64)]
        raise NotLinear('and of two non-constants')
    if k == 'or':
        p, q = V.lin_of(a[1]), V.lin_of(a[2])
        return _disjoint_sum([bits_of_lin(p), bits_of_lin(q)])
    if k == 'ror':
        return _ror(bits_of_lin(V.lin_of(a[1])), a[2])
    if k == 'srl':
        return _shr(bits_of_lin(V.lin_of(a[1])), a[2])
    if k == 'sext32':
        b = bits_of_lin(V.lin_of(a[1]))
        return b[:32] + [b[31]] * 32
    if k in ('ld64', 'ld32s', 'cvtw', 'mul', 'umulh', 'smulh'):
        return [frozenset([(a, i)]) for i in range(64)]       # opaque: a fresh 64-bit input identified by the atom itself
    raise NotLinear('atom %s' % k)


def equal_on(got, want, obs):
    """True / (False, bit) when both terms are in the fragment; None when one of them is not"""
    try:
        g, w = bits_of_lin(got), bits_of_lin(want)
    except NotLinear:
        return None
    for i in range(64):
        if (obs >> i) & 1 and g[i] != w[i]:
            return (False, i)
    return True


ALL = (1 << 64) - 1


def decide(got, want, obs=ALL):
    """('eq', how) | ('neq', detail) | ('unknown', None).  Structural equality first; then the parts the two linear forms do not share are compared bit by bit
    (a common summand - a base pointer - cancels); then a refutation by evaluation on the test valuations, restricted to the observed bits."""
    if got == want:
        return ('eq', 'same term')
    Lin = T.Lin
    common = {a: k for a, k in got.t.items() if want.t.get(a) == k}
    same_c = got.c == want.c and got.c != 0
    g2 = Lin(0 if same_c else got.c, {a: k for a, k in got.t.items() if a not in common})
    w2 = Lin(0 if same_c else want.c, {a: k for a, k in want.t.items() if a not in common})
    if common or same_c:
        obs = ALL           # a summand was cancelled: the rest has to agree on every bit (carries)
    r = equal_on(g2, w2, obs)
    if r is True:
        return ('eq', 'bit by bit' + ('' if obs == ALL else ' on the observable bits %#x' % obs))
    if isinstance(r, tuple):
        for vals in T.VALUATIONS:
            try:
                a_, b_ = T.term_eval(got.canon(), vals), T.term_eval(want.canon(), vals)
            except Exception:
                break
            if (a_ ^ b_) & obs:
                return ('neq', 'bit %d depends on different inputs; e.g. %#x instead of %#x' % (r[1], a_, b_))
        return ('neq', 'bit %d depends on different inputs' % r[1])
    for vals in T.VALUATIONS:
        try:
            a_, b_ = T.term_eval(got.canon(), vals), T.term_eval(want.canon(), vals)
        except Exception:
            return ('unknown', None)
        if (a_ ^ b_) & obs:
            return ('neq', 'e.g. %#x instead of %#x' % (a_, b_))
    return ('unknown', None)
